(** Ownership of buffers.  [Model.BitString.bs] is a value: a functional model
    cannot express that two Go BitStrings share one []byte.  Here a bit string
    is a HANDLE (buffer id + cap/len/cursor) into a store of buffers; writes go
    through the handle into the store.  Copy allocates a new buffer.  A copy
    that shares the source's buffer when nothing has been written yet (seeded
    change C06-r6m2) is [h_copy_shared], refuted in Proofs/BitStringOwnP.v. *)
From Coq Require Import List NArith Arith Bool.
From Tongo Require Import Lib.Bits Lib.Res Model.BitString Model.BitStringD.
Import ListNotations.

Record hbs := mkh { bid : nat; hcap : nat; hlen : nat; hrcur : nat }.
Definition store := list bits.

(* the bit string a handle denotes *)
Definition view (st : store) (b : hbs) : bs :=
  mkbs (nth (bid b) st []) (hcap b) (hlen b) (hrcur b).

(* put the state reached by a value-level operation back behind the handle *)
Definition commit (st : store) (b : hbs) (s' : bs) : store * hbs :=
  (set_nth (bid b) (buf s') st, mkh (bid b) (cap s') (len s') (rcur s')).

(* any operation of the value model (WriteBit, WriteUint, On, Grow, Append ...) *)
Definition h_apply {A} (f : bs -> bs * A) (st : store) (b : hbs) : store * hbs * A :=
  let '(s', r) := f (view st b) in
  let '(st', b') := commit st b s' in (st', b', r).

Definition h_write_bits (l : bits) := h_apply (write_bits l).

(* NewBitString / Copy: a fresh buffer at the end of the store *)
Definition h_new (n : nat) (st : store) : store * hbs :=
  (st ++ [buf (new_bs n)], mkh (length st) n 0 0).

Definition h_copy (st : store) (b : hbs) : store * hbs :=
  (st ++ [nth (bid b) st []], mkh (length st) (hcap b) (hlen b) 0).

(* the variant: "nothing has been written yet, so there is nothing to copy" *)
Definition h_copy_shared (st : store) (b : hbs) : store * hbs :=
  if (hlen b =? 0)%nat then (st, mkh (bid b) (hcap b) 0 0) else h_copy st b.
