(** Histories on ONE dictionary object (tlb.Hashmap / tlb.HashmapE): the object
    is its pair of parallel slices, here the list of (key bits, value) pairs in
    slice order.  Get / Items / Keys / Values read it, Put changes it, and
    MarshalTLB — a method with a value receiver that builds fresh key and value
    slices for the sort — only reads it: in the model Marshal is a pure function
    of the pair list and the state after it is the state before it. *)
From Coq Require Import List NArith Arith Bool.
From Tongo Require Import Lib.Bits Lib.Res Spec.Dict Model.Hashmap.
Import ListNotations.

Section Hist.
Variable V : Type.
Variable venc : V -> bits * list cell.
Variable klt : bits -> bits -> bool.   (* Compare of the key type *)
Variable e : bool.                     (* HashmapE (true) or Hashmap *)
Variable n : nat.                      (* FixedSize() *)

Inductive hop := HMarshal | HItems | HGet (k : bits) | HPut (k : bits) (v : V).

Inductive hobs :=
| OCell (r : res cell)                 (* tlb.Marshal into a fresh cell *)
| OItems (m : list (bits * V))         (* Items() = Keys()/Values(), in slice order *)
| OGet (r : option V)
| ODone.

Definition hmarshal (m : list (bits * V)) : res cell :=
  if e then encode_e venc n m else encode venc n m.

Definition hstep (m : list (bits * V)) (op : hop) : list (bits * V) * hobs :=
  match op with
  | HMarshal => (m, OCell (hmarshal m))
  | HItems => (m, OItems m)
  | HGet k => (m, OGet (get bits_eqb k m))
  | HPut k v => (put bits_eqb klt k v m, ODone)
  end.

Fixpoint hrun (m : list (bits * V)) (ops : list hop) : list (bits * V) * list hobs :=
  match ops with
  | [] => (m, [])
  | op :: t =>
      let '(m1, o) := hstep m op in
      let '(m2, os) := hrun m1 t in (m2, o :: os)
  end.

Definition is_put (op : hop) : bool := match op with HPut _ _ => true | _ => false end.

End Hist.

Arguments HMarshal {V}. Arguments HItems {V}. Arguments HGet {V}. Arguments HPut {V}.
Arguments OCell {V}. Arguments OItems {V}. Arguments OGet {V}. Arguments ODone {V}.
Arguments hstep {V}. Arguments hrun {V}. Arguments hmarshal {V}. Arguments is_put {V}.

(** The design of seeded change C05-r2m2, kept for Proofs/HashmapHistory.v:
    sort.Stable over (fresh key slice, the RECEIVER's value slice) — the
    caller's values are permuted into bit order, its keys keep their order. *)
Definition marshal_in_place_state {V} (m : list (bits * V)) : list (bits * V) :=
  combine (map fst m) (map snd (bsort m)).

(** ** decoding INTO an object (Hashmap.UnmarshalTLB / HashmapE.UnmarshalTLB on a
    variable or struct field that may have been used before): the new state is
    what the cell decodes to and nothing else — the old state [m] is not an
    input.  (Hashmap.UnmarshalTLB empties the receiver before the walk that
    appends; HashmapE.UnmarshalTLB assigns the freshly decoded Maybe ^Hashmap
    unconditionally.)  After a failed decode the object is unspecified here:
    histories stop at the first decode error. *)
Definition hdecode {V} (vdec : bits -> list cell -> option V) (e : bool) (n : nat)
  (m : list (bits * V)) (c : cell) : list (bits * V) * bool :=
  match (if e then decode_e vdec n c else decode vdec n c) with
  | Ok l => (l, true)
  | _ => ([], false)
  end.

(** for Proofs/HashmapHistory.v: the two designs that keep old entries *)
(* seeded change C05-r3m2: HashmapE.UnmarshalTLB assigns only when the Maybe bit is set *)
Definition hdecode_conditional {V} (vdec : bits -> list cell -> option V) (n : nat)
  (m : list (bits * V)) (c : cell) : list (bits * V) * bool :=
  match c with
  | Cell (false :: _) _ => (m, true)
  | _ => hdecode vdec true n m c
  end.
(* the code before "fix: reset a Hashmap before decoding into it": mapInner appends *)
Definition hdecode_appending {V} (vdec : bits -> list cell -> option V) (n : nat)
  (m : list (bits * V)) (c : cell) : list (bits * V) * bool :=
  match decode vdec n c with
  | Ok l => (m ++ l, true)
  | _ => ([], false)
  end.
