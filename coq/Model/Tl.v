(** Model of the Go TL codec: tl/decoder.go (decode, readByteSlice with readN,
    decodeVector with its bounded pre-allocation, Int256.UnmarshalTL),
    tl/encoder.go (Marshal, EncodeLength, zeroPadding, encodeVector, the
    refusal of byte strings of 2^24 bytes or more) on descriptors of Go kinds,
    and the semantics of the mini-language into which the translator
    (harness/cmd/translate/c10.go) maps the bodies of the generated
    MarshalTL / UnmarshalTL methods and request methods of liteclient
    (generated.go, extensions.go).

    Interface (used by C10, and read-only by C08 / C09):
      gty, access, stmt, mbody, ubody, binding, bindings, method   the term language
      find_binding, field_ty, gsize                                lookups, unsafe.Sizeof
      st, M, mret/mfail/mpanic/mbind, read_full(N), make           reader monad
      gdec / go_unmarshal    tl.Unmarshal(bytes.NewReader(bs), &x)
      genc / go_marshal      tl.Marshal(x)
      go_request / go_response   payload of Client.LiteServerXxx, dispatch of the answer
    The reader is a *bytes.Reader (the only reader the lite client passes).
    Every Go operation that can panic is modelled with its panic condition;
    [alloc] sums the bytes requested by every modelled make()/reflect.MakeSlice,
    [peak] is the largest single request.  C10 does not speak about them
    (Proofs/TlGoP.v: [runs]); the allocation behaviour is C08's subject. *)
From Coq Require Import String List NArith PArith Arith Lia Bool.
From Tongo Require Import Lib.Bits Lib.Res Spec.TlWire.
Import ListNotations.
Local Open Scope N_scope.

Definition EEof : N := 30.       (* io.EOF / io.ErrUnexpectedEOF *)
Definition EInvalid : N := 31.   (* invalid bytes prefix / Bool tag / constructor tag *)
Definition EModel : N := 98.     (* shape outside the modelled subset: never a real outcome *)

(** * Descriptors of Go types and the mini-language *)
Inductive gty :=
| GU32 | GU64 | GBool | GBytes | GString | GInt256
| GSlice (e : gty)
| GPtr (e : gty)
| GNamed (n : string)
| GStruct (fs : list (string * gty))
| GSumTag
| GOther (s : string).

Definition access := (list string * option (gty * bool))%type.
Inductive stmt :=
| Field (a : access)             (* tl.Marshal(t.P.F) + buf.Write  /  tl.Unmarshal(r, &t.P.F)  (or via a temp) *)
| IfBit (m : string) (n : N) (body : list access)   (* if (t.M>>n)&1 == 1 { ... } *)
| WriteTag (id : N)              (* tl.Marshal(uint32(id)) + buf.Write *)
| ReadTag (id : N)               (* tl.Unmarshal(r, &tag); if tag != id { error } *)
| Self (n : string)              (* tl.Marshal(N(t))  /  tl.Unmarshal(r, &res); *t = T(res) *)
| Unrecognised (what : string).

Inductive mbody :=
| MPlain (ss : list stmt)
| MSwitch (cases : list (string * list stmt))     (* switch t.SumType { case "C": ... default: error } *)
| MNone.                                          (* no MarshalTL method *)
Inductive ubody :=
| UPlain (ss : list stmt)
| USwitch (cases : list (N * string * list stmt)). (* read 4 bytes; switch tag { case id: t.SumType = "C"; ... } *)

Record binding := mkbinding {
  b_name : string; b_type : gty; b_marshal : mbody; b_unmarshal : ubody }.
Definition bindings := list binding.

Record method := mkmethod {
  m_name : string;
  m_req : option string;      (* request struct type, None when the method takes no request *)
  m_req_id : N;               (* id put in front of the request *)
  m_err_id : N;               (* id on which the response is decoded as LiteServerErrorC *)
  m_resp_ids : list N;        (* ids on which the response is decoded as the result *)
  m_resp_ty : string;
  m_shape : bool }.           (* the body matched the shape emitted by the generator *)

Definition find_binding (B : bindings) (n : string) : option binding :=
  find (fun b => String.eqb (b_name b) n) B.

Fixpoint field_ty (t : gty) (path : list string) : option gty :=
  match path with
  | [] => Some t
  | f :: p => match t with
              | GStruct fs => opt ft <- assoc f fs; field_ty ft p
              | _ => None
              end
  end.

(** * Go sizes (unsafe.Sizeof on amd64), for reflect.MakeSlice *)
Definition align_up (x a : N) : N := ((x + a - 1) / a) * a.
Fixpoint gsize_al (fuel : nat) (B : bindings) (t : gty) : N * N :=
  match fuel with
  | O => (0, 1)
  | S k =>
    match t with
    | GU32 => (4, 4) | GU64 => (8, 8) | GBool => (1, 1)
    | GBytes | GSlice _ => (24, 8)
    | GString | GSumTag => (16, 8)
    | GInt256 => (32, 1)
    | GPtr _ => (8, 8)
    | GNamed n => match find_binding B n with
                  | Some b => gsize_al k B (b_type b)
                  | None => (0, 1)
                  end
    | GStruct fs =>
        let '(off, al) :=
          fold_left (fun (acc : N * N) (f : string * gty) =>
                       let '(off, al) := acc in
                       let '(s, a) := gsize_al k B (snd f) in
                       (align_up off a + s, N.max al a)) fs (0, 1) in
        (align_up off al, al)
    | GOther _ => (0, 1)
    end
  end.
Definition gsize (B : bindings) (t : gty) : N := fst (gsize_al 16 B t).

(** * The reader monad: state, outcome, allocation *)
Record st := mkst { inp : bytes; alloc : N; peak : N }.
Definition M (A : Type) := st -> res A * st.
Definition mret {A} (a : A) : M A := fun s => (Ok a, s).
Definition mfail {A} (e : N) : M A := fun s => (Err e, s).
Definition mpanic {A} (p : N) : M A := fun s => (Panic p, s).
Definition mbind {A B} (m : M A) (k : A -> M B) : M B :=
  fun s => match m s with
           | (Ok a, s') => k a s'
           | (Err e, s') => (Err e, s')
           | (Panic p, s') => (Panic p, s')
           end.
Notation "'dom' x <- m ; k" := (mbind m (fun x => k))
  (at level 200, x pattern, m at level 100, k at level 200, right associativity).

(* io.ReadFull(r, buf) with len(buf) = n: all or error (the reader is drained) *)
Definition read_full (n : nat) : M bytes :=
  fun s => if short n (inp s) then (Err EEof, mkst [] (alloc s) (peak s))
           else (Ok (firstn n (inp s)), mkst (skipn n (inp s)) (alloc s) (peak s)).
Definition read_fullN (n : N) : M bytes :=
  fun s => if shortN n (inp s) then (Err EEof, mkst [] (alloc s) (peak s))
           else read_full (N.to_nat n) s.

(* make([]T, len, cap) / reflect.MakeSlice -> unsafe_NewArray: panics with
   "allocation size out of range" above maxAlloc = 2^48 bytes *)
Definition max_alloc : N := 281474976710656.
Definition make (cap esz : N) : M unit :=
  fun s => if max_alloc <? cap * esz then (Panic PMakeSlice, s)
           else (Ok tt, mkst (inp s) (alloc s + cap * esz) (N.max (peak s) (cap * esz))).

(** * tl/decoder.go *)
(* const maxPrealloc: what is allocated up front for a length taken from the wire *)
Definition max_prealloc : N := 4096.

(* readByteSlice *)
Definition read_byte_slice : M bytes :=
  dom fb <- read_full 1;                                  (* readByte *)
  let first := le_num fb in
  if first <? 254 then
    dom _ <- make first 1;                                (* data = make([]byte, int(firstByte)) *)
    dom data <- read_fullN first;
    dom _ <- read_full (pad_of (1 + first));              (* for ; full%4 != 0; full++ { readByte } *)
    mret data
  else if first =? 254 then
    dom _ <- make 4 1;                                    (* sizeBuf := make([]byte, 4) *)
    dom sz <- read_full 3;                                (* io.ReadFull(r, sizeBuf[:3]) *)
    let n := le_num sz in                                 (* binary.LittleEndian.Uint32(sizeBuf) *)
    (* readN: make([]byte, n) only up to maxPrealloc; above it a bytes.Buffer
       grows with the data that arrives (io.CopyN), an error if it is short *)
    dom _ <- (if n <=? max_prealloc then make n 1 else mret tt);
    dom data <- read_fullN n;
    dom _ <- read_full (pad_of (4 + n));
    mret data
  else mfail EInvalid.

(* the loop of decodeVector, [ln] iterations; binary recursion so that the
   32-bit count from the wire never becomes a unary number *)
Fixpoint iter_pos (D : M value) (p : positive) (acc : list value) : M (list value) :=
  match p with
  | xH => dom v <- D; mret (v :: acc)
  | xO p' => dom acc' <- iter_pos D p' acc; iter_pos D p' acc'
  | xI p' => dom v <- D; dom acc' <- iter_pos D p' (v :: acc); iter_pos D p' acc'
  end.

(* decodeVector *)
Definition decode_vector (D : M value) (esz : N) : M value :=
  dom b <- read_full 4;
  let ln := le_num b in                                   (* int(binary.LittleEndian.Uint32(b[:])) *)
  dom _ <- make (N.min ln max_prealloc) esz;              (* reflect.MakeSlice(val.Type(), 0, min(ln, maxPrealloc)) *)
  match ln with
  | N0 => mret (VVec [])
  | Npos p => dom acc <- iter_pos D p []; mret (VVec (frev acc))
  end.

Definition record := list (string * value).

Section Unmarshal.
  Variable B : bindings.
  Variable D : gty -> M value.       (* tl.Unmarshal one level down *)

  Definition mode_of (r : record) (m : string) : N :=
    match assoc m r with Some (VNum x) => x | _ => 0 end.

  (* path must be pre ++ [f]; result: f *)
  Fixpoint last_of (pre path : list string) : option string :=
    match pre, path with
    | [], [f] => Some f
    | a :: pre', b :: path' => if String.eqb a b then last_of pre' path' else None
    | _, _ => None
    end.

  Definition run_uaccess (sty : gty) (pre : list string) (a : access) (r : record) : M record :=
    let '(path, tmp) := a in
    match last_of pre path with
    | None => mfail EModel
    | Some f =>
        match (match tmp with Some (tmpty, _) => Some tmpty | None => field_ty sty path end) with
        | None => mfail EModel
        | Some ft => dom v <- D ft; mret (r ++ [(f, v)])
        end
    end.

  Fixpoint run_uaccesses (sty : gty) (pre : list string) (l : list access) (r : record) : M record :=
    match l with
    | [] => mret r
    | a :: t => dom r' <- run_uaccess sty pre a r; run_uaccesses sty pre t r'
    end.

  Definition run_ustmt (sty : gty) (pre : list string) (s : stmt) (r : record) : M record :=
    match s with
    | Field a => run_uaccess sty pre a r
    | IfBit m n body =>
        if N.testbit (mode_of r m) n then run_uaccesses sty pre body r else mret r
    | ReadTag id =>
        dom v <- D GU32;
        match v with VNum x => if x =? id then mret r else mfail EInvalid | _ => mfail EModel end
    | Self n =>
        dom v <- D (GNamed n);
        match v with VRec _ fs => mret fs | _ => mfail EModel end
    | WriteTag _ | Unrecognised _ => mfail EModel
    end.

  Fixpoint run_ustmts (sty : gty) (pre : list string) (ss : list stmt) (r : record) : M record :=
    match ss with
    | [] => mret r
    | s :: t => dom r' <- run_ustmt sty pre s r; run_ustmts sty pre t r'
    end.

  Fixpoint find_ucase (id : N) (cs : list (N * string * list stmt)) : option (string * list stmt) :=
    match cs with
    | [] => None
    | (i, c, ss) :: t => if i =? id then Some (c, ss) else find_ucase id t
    end.

  Definition run_unmarshal (b : binding) : M value :=
    match b_unmarshal b with
    | UPlain ss => dom r <- run_ustmts (b_type b) [] ss []; mret (VRec "" r)
    | USwitch cs =>
        dom tb <- read_full 4;                            (* var b [4]byte; io.ReadFull(r, b[:]) *)
        match find_ucase (le_num tb) cs with
        | Some (c, ss) => dom r <- run_ustmts (b_type b) [c] ss []; mret (VRec c r)
        | None => mfail EInvalid
        end
    end.

  (* decodeBasicStruct: only reachable for struct kinds without UnmarshalTL *)
  Fixpoint dec_struct (fs : list (string * gty)) (r : record) : M record :=
    match fs with
    | [] => mret r
    | (f, ft) :: t => dom v <- D ft; dec_struct t (r ++ [(f, v)])
    end.
End Unmarshal.

(* tl.Unmarshal(r, &x) for x of Go type t *)
Fixpoint gdec (B : bindings) (fuel : nat) (t : gty) {struct fuel} : M value :=
  match fuel with
  | O => mfail EFuel
  | S k =>
    match t with
    | GU32 => dom _ <- make 4 1; dom b <- read_full 4; mret (VNum (le_num b))
    | GU64 => dom _ <- make 8 1; dom b <- read_full 8; mret (VNum (le_num b))
    | GBool =>
        dom _ <- make 4 1; dom b <- read_full 4;
        if le_num b =? 0x997275b5 then mret (VBool true)
        else if le_num b =? 0xbc799737 then mret (VBool false)
        else mfail EInvalid
    | GBytes | GString => dom b <- read_byte_slice; mret (VBytes b)
    | GInt256 => dom b <- read_full 32; mret (VBytes b)    (* Int256.UnmarshalTL *)
    | GSlice e => decode_vector (gdec B k e) (gsize B e)
    | GNamed n =>
        match find_binding B n with
        | Some b => run_unmarshal (gdec B k) b
        | None => mfail EModel
        end
    | GStruct fs => dom r <- dec_struct (gdec B k) fs []; mret (VRec "" r)
    | GPtr _ => mfail EOther     (* decode: kind Pointer falls to "type ptr not implemented" *)
    | GSumTag | GOther _ => mfail EModel
    end
  end.

Definition st0 (bs : bytes) : st := mkst bs 0 0.
(* nesting of tl.Marshal / tl.Unmarshal calls: a TL value of depth d needs at
   most 3 d (boxed wrapper -> bare struct -> pointer of an optional field) *)
Definition go_fuel : nat := 3 * S tl_fuel.
(* tl.Unmarshal(bytes.NewReader(bs), &x): outcome, unread bytes, allocation *)
Definition go_unmarshal (B : bindings) (t : gty) (bs : bytes) : res value * st :=
  gdec B go_fuel t (st0 bs).

(** * tl/encoder.go *)
(* EncodeLength; uint32(i<<8) keeps the low 24 bits of i *)
Definition go_encode_length (i : N) : bytes :=
  if 254 <=? i then 254 :: le_bytes 3 i else [i].
(* zeroPadding *)
Definition go_zero_padding (b : bytes) : bytes :=
  let tail := N.of_nat (length b) mod 4 in
  if tail =? 0 then b else b ++ repeat 0 (N.to_nat (4 - tail)).
Definition go_bytes (b : bytes) : bytes :=
  go_zero_padding (go_encode_length (N.of_nat (length b)) ++ b).

Fixpoint concat_res (l : list (res bytes)) : res bytes :=
  match l with
  | [] => Ok []
  | r :: t => do a <- r; do b <- concat_res t; Ok (a ++ b)
  end.

Section Marshal.
  Variable B : bindings.
  Variable E : gty -> option value -> res bytes.    (* tl.Marshal one level down; None = nil *)

  Definition run_maccess (sty : gty) (pre : list string) (a : access) (r : record) : res bytes :=
    let '(path, _) := a in
    match last_of pre path, field_ty sty path with
    | Some f, Some ft => E ft (assoc f r)
    | _, _ => Err EModel
    end.

  Definition run_mstmt (sty : gty) (pre : list string) (whole : value) (r : record) (s : stmt) : res bytes :=
    match s with
    | Field a => run_maccess sty pre a r
    | IfBit m n body =>
        match assoc m r with
        | Some (VNum x) =>
            if N.testbit x n then concat_res (map (fun a => run_maccess sty pre a r) body) else Ok []
        | _ => Err EModel
        end
    | WriteTag id => Ok (le_bytes 4 id)
    | Self n => E (GNamed n) (Some whole)
    | ReadTag _ | Unrecognised _ => Err EModel
    end.

  Definition run_mstmts (sty : gty) (pre : list string) (whole : value) (r : record) (ss : list stmt) : res bytes :=
    concat_res (map (run_mstmt sty pre whole r) ss).

  Definition run_marshal (b : binding) (v : value) : res bytes :=
    match v with
    | VRec c r =>
        match b_marshal b with
        | MPlain ss => run_mstmts (b_type b) [] v r ss
        | MSwitch cs =>
            match assoc c cs with
            | Some ss => run_mstmts (b_type b) [c] v r ss
            | None => Err EInvalid                       (* default: "invalid sum type" *)
            end
        | MNone =>                                        (* encodeBasicStruct via reflection *)
            match b_type b with
            | GStruct fs => concat_res (map (fun f => E (snd f) (assoc (fst f) r)) fs)
            | _ => Err EModel
            end
        end
    | _ => Err EModel
    end.
End Marshal.

Definition has_marshaler (B : bindings) (t : gty) : bool :=
  match t with
  | GInt256 => true
  | GNamed n => match find_binding B n with
                | Some b => match b_marshal b with MNone => false | _ => true end
                | None => false
                end
  | _ => false
  end.

(* tl.Marshal(x) for x of Go type t; None is a nil pointer / nil slice *)
Fixpoint genc (B : bindings) (fuel : nat) (t : gty) (ov : option value) {struct fuel} : res bytes :=
  match fuel with
  | O => Err EFuel
  | S k =>
    match t, ov with
    | GU32, Some (VNum n) => Ok (le_bytes 4 n)
    | GU64, Some (VNum n) => Ok (le_bytes 8 n)
    | GBool, Some (VBool b) => Ok (if b then [0xb5; 0x75; 0x72; 0x99] else [0x37; 0x97; 0x79; 0xbc])
    | GBytes, Some (VBytes b) | GString, Some (VBytes b) =>
        (* if len(data) > maxBytesLen { return error }: the length prefix has 24 bits *)
        if N.of_nat (length b) <? two24 then Ok (go_bytes b) else Err EOther
    | GBytes, None => Ok (go_bytes [])
    | GInt256, Some (VBytes b) => Ok b
    | GSlice e, Some (VVec vs) =>
        do body <- concat_res (map (fun v => genc B k e (Some v)) vs);
        Ok (le_bytes 4 (N.of_nat (length vs)) ++ body)
    | GSlice e, None => Ok (le_bytes 4 0)
    | GPtr e, Some v => genc B k e (Some v)
    | GPtr e, None =>
        (* m.MarshalTL() through a nil pointer to a type with a value receiver
           panics; a nil pointer to a basic kind is "type invalid not implemented" *)
        if has_marshaler B e then Panic PNil else Err EOther
    | GNamed n, Some v =>
        match find_binding B n with
        | Some b => run_marshal (genc B k) b v
        | None => Err EModel
        end
    | _, _ => Err EModel
    end
  end.

Definition go_marshal (B : bindings) (t : gty) (v : value) : res bytes :=
  genc B go_fuel t (Some v).

(** * Request wrappers Client.LiteServerXxx: payload and response dispatch *)
Definition go_request (B : bindings) (m : method) (req : option value) : res bytes :=
  match m_req m, req with
  | None, None => Ok (le_bytes 4 (m_req_id m))             (* binary.LittleEndian.PutUint32(payload, id) *)
  | Some rt, Some v =>                                     (* encodeSumType: encodeTag, then Marshal(Req) *)
      do body <- go_marshal B (GNamed rt) v; Ok (le_bytes 4 (m_req_id m) ++ body)
  | _, _ => Err EModel
  end.

Inductive response := RError (v : value) | RResult (v : value).
Definition go_response (B : bindings) (m : method) (resp : bytes) : res response :=
  if short 4 resp then Err EEof else
  let tag := le_num (firstn 4 resp) in
  if tag =? m_err_id m then
    match go_unmarshal B (GNamed "LiteServerErrorC") (skipn 4 resp) with
    | (Ok v, _) => Ok (RError v) | (Err e, _) => Err e | (Panic p, _) => Panic p
    end
  else if existsb (N.eqb tag) (m_resp_ids m) then
    match go_unmarshal B (GNamed (m_resp_ty m)) (skipn 4 resp) with
    | (Ok v, _) => Ok (RResult v) | (Err e, _) => Err e | (Panic p, _) => Panic p
    end
  else Err EInvalid.
