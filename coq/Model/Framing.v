(** C08: the helpers that sit directly on network data, each transcribed with
    an explicit [Panic] at every Go index / slice expression / make:

      liteclient/client.go      decodeLength, processQueryAnswer
      liteclient/connection.go  sendAuthComplete (the parse of the server nonce)
      liteclient/adnl.go        ParsePacket (length bounds), Packet.MagicType
      tlb/stack.go              VmStack.UnmarshalTL          (cell[0])
      code/code.go              ParseContractMethods         (cell[0])
      liteapi/client.go         GetTransactions              (r.Ids[i])
      liteapi/client.go         decodeAccountDataFromProof   (cells[1], values[i])

    The last four are modelled AFTER the F18 repairs (length checks before the
    index); the [_before_fix] twins keep the old behaviour for Proofs/C08History.v.
    Callees that are the subject of other properties (boc.DeserializeBoc = C07's
    [parse_boc]; tlb.Unmarshal of the root cell) are taken as given: the BOC
    parser is the model of C07, the TL-B decoding of the root is a parameter
    returning [res]. *)
From Coq Require Import List NArith Arith Lia Bool.
From Tongo Require Import Lib.Bits Lib.Res Spec.TlWire Model.BocParse Model.Tl Model.TlTotal.
Import ListNotations.
Local Open Scope N_scope.

Definition EFrame : N := 40.

(* Go: b[lo:] and b[:hi] *)
Definition slice_from (lo : nat) (b : bytes) : res bytes :=
  if short lo b then Panic PSlice else Ok (skipn lo b).
Definition slice_to (hi : N) (b : bytes) : res bytes :=
  if N.of_nat (length b) <? hi then Panic PSlice else Ok (firstn (N.to_nat hi) b).
Definition index0 {A} (l : list A) : res A :=
  match l with [] => Panic PIndex | x :: _ => Ok x end.
Definition index_at {A} (i : nat) (l : list A) : res A :=
  match nth_error l i with None => Panic PIndex | Some x => Ok x end.

(** * liteclient/client.go: decodeLength *)
Definition decode_length (b : bytes) : res (N * bytes) :=
  match b with
  | [] => Err EFrame                                   (* len(b) == 0 *)
  | b0 :: _ =>                                         (* b[0]: guarded by the length test *)
      if b0 =? 255 then Err EFrame
      else if b0 <? 254 then do r <- slice_from 1 b; Ok (b0, r)
      else if negb (b0 =? 254) then Panic PExplicit    (* panic("how it cat be possible? ...") *)
      else if short 4 b then Err EFrame                (* len(b) < 4 *)
      else
        (* b[0] = 0; i := LittleEndian.Uint32(b[:4]); b[0] = 254; int(i) >> 8 *)
        do h <- slice_to 4 b;
        do r <- slice_from 4 b;
        Ok (le_num (skipn 1 h), r)
  end.

(** * processQueryAnswer: [known] = the query id is in the registry *)
Definition process_query_answer (known : bool) (payload : bytes) : res bytes :=
  if short 37 payload then Err EFrame else               (* len(p.Payload) < 37 *)
  do _ <- slice_from 4 payload;                          (* p.Payload[4:36] *)
  do _ <- slice_to 36 payload;
  if negb known then Err EFrame else
  do rest <- slice_from 36 payload;
  do ld <- decode_length rest;
  let '(length, data) := ld in
  if N.of_nat (List.length data) <? length then Err EFrame else
  slice_to length data.                                  (* resp <- data[:length] *)

(** * sendAuthComplete: the server nonce *)
Definition max_server_nonce : N := 512.
Definition auth_nonce (payload : bytes) : res bytes :=
  if short 37 payload then Err EFrame else
  do rest <- slice_from 4 payload;
  do ld <- decode_length rest;
  let '(length, data) := ld in
  if N.of_nat (List.length data) <? length then Err EFrame else
  do nonce <- slice_to length data;
  if max_server_nonce <? N.of_nat (List.length nonce) then Err EFrame else Ok nonce.

(** * ParsePacket: [stream] is the deciphered byte stream, [H] = sha256 of
    nonce ++ payload.  Result: payload, unread rest, bytes allocated. *)
Definition max_packet : N := 8388608.     (* 8 << 20 *)
Definition parse_packet (H : bytes -> bytes) (stream : bytes) : res (bytes * bytes * N) :=
  (* size := make([]byte, 4); io.ReadFull *)
  if short 4 stream then Err EEof else
  let length := le_num (firstn 4 stream) in
  let stream1 := skipn 4 stream in
  if (length <? 64) || (max_packet <? length) then Err EFrame else
  (* data := make([]byte, length) *)
  if max_alloc <? length then Panic PMakeSlice else
  if N.of_nat (List.length stream1) <? length then Err EEof else
  let data := firstn (N.to_nat length) stream1 in
  do nonce <- slice_to 32 data;                          (* data[:32] *)
  (* p.Payload = make([]byte, length-32-32): negative length panics *)
  if length <? 64 then Panic PMakeSlice else
  do hi <- slice_to (length - 32) data;                  (* data[32:length-32] *)
  do payload <- slice_from 32 hi;
  do sum <- slice_from (N.to_nat (length - 32)) data;    (* data[length-32:] *)
  if negb (BocParse.bytes_eqb sum (H (nonce ++ payload))) then Err EFrame else
  Ok (payload, skipn (N.to_nat length) stream1, 4 + length + (length - 64)).

Definition magic_type (payload : bytes) : res N :=
  if short 4 payload then Ok 0 else do h <- slice_to 4 payload; Ok (le_num h).

(** * users of boc.DeserializeBoc *)
Section Roots.
  (* tlb.Unmarshal(root, &x) / decoding one transaction: outcome only *)
  Variable decode_root : list node -> nat -> res unit.

  (* VmStack.UnmarshalTL(r): tl.Unmarshal(r, &b []byte), then on the decoded
     byte string b: DeserializeBoc(b); cell[0] *)
  Definition vmstack_after_tl_gen (check : bool) (b : bytes) : res unit :=
    match b with
    | [] => Ok tt                                         (* len(b) == 0 *)
    | _ =>
        do p <- parse_boc b;
        if check && Nat.eqb (List.length (p_roots p)) 0 then Err EFrame else
        do r <- index0 (p_roots p);
        decode_root (p_cells p) r
    end.
  Definition vmstack_unmarshal_tl_gen (check : bool) : T unit :=
    dot b <- read_byte_sliceT;
    fun s => (vmstack_after_tl_gen check b, s).
  Definition vmstack_after_tl := vmstack_after_tl_gen true.
  Definition vmstack_unmarshal_tl := vmstack_unmarshal_tl_gen true.
  Definition vmstack_after_tl_before_fix := vmstack_after_tl_gen false.

  (* code.ParseContractMethods: cell[0].NextRef(), then the dictionary *)
  Definition parse_contract_methods_gen (check : bool) (code : bytes) : res unit :=
    do p <- parse_boc code;
    if check && Nat.eqb (List.length (p_roots p)) 0 then Err EFrame else
    do r <- index0 (p_roots p);
    match nth_error (p_cells p) r with
    | None => Err EFrame
    | Some nd =>
        match n_refs nd with
        | [] => Err ENotEnoughRefs                        (* NextRef *)
        | c :: _ => decode_root (p_cells p) c
        end
    end.
  Definition parse_contract_methods := parse_contract_methods_gen true.
  Definition parse_contract_methods_before_fix := parse_contract_methods_gen false.

  (* GetTransactions: for i, cell := range cells { Unmarshal; r.Ids[i] } *)
  Fixpoint tx_loop (cells : list node) (ids : nat) (roots : list nat) (i : nat) : res nat :=
    match roots with
    | [] => Ok i
    | r :: rest =>
        do _ <- decode_root cells r;
        if (ids <=? i)%nat then Panic PIndex              (* r.Ids[i] *)
        else tx_loop cells ids rest (S i)
    end.
  Definition get_transactions_gen (check : bool) (ids : nat) (transactions : bytes) : res nat :=
    match transactions with
    | [] => Ok 0%nat
    | _ =>
      do p <- parse_boc transactions;
      if check && (ids <? List.length (p_roots p))%nat then Err EFrame else
      tx_loop (p_cells p) ids (p_roots p) 0
    end.
  Definition get_transactions := get_transactions_gen true.
  Definition get_transactions_before_fix := get_transactions_gen false.

  (* decodeAccountDataFromProof: cells[1]; then keys/values of one dictionary
     are parallel slices ([nkeys] = [nvalues] for tlb.HashmapAug, kept as two
     numbers so that the index carries its condition) *)
  Definition account_from_proof (nkeys nvalues : nat) (found : option nat) (bocBytes : bytes) : res unit :=
    do p <- parse_boc bocBytes;
    if (List.length (p_roots p) <? 2)%nat then Err EFrame else
    do r <- index_at 1 (p_roots p);
    do _ <- decode_root (p_cells p) r;
    match found with
    | None => Err EFrame
    | Some i => if (nkeys <=? i)%nat then Err EFrame        (* i ranges over keys *)
                else if (nvalues <=? i)%nat then Panic PIndex else Ok tt   (* values[i] *)
    end.
End Roots.

(** * the goroutines behind ParsePacket, one packet each *)
Definition MAGIC_TCP_PONG : N := 0xdc69fb03.
Definition MAGIC_TCP_AUTH_NONCE : N := 0xe35d4ab6.
Definition MAGIC_ADNL_ANSWER : N := 0x0fac8416.

Inductive ract := RConsumed | RAuth | RForward.

(* liteclient/connection.go, Connection.reader: [strict] = the payload-length
   test next to the constructor id of tcp.pong *)
Definition conn_reader_step_gen (strict : bool) (payload : bytes) : res ract :=
  do m <- magic_type payload;
  if N.eqb m MAGIC_TCP_PONG && (if strict then Nat.eqb (List.length payload) 12 else true) then
    do rest <- slice_from 4 payload;                           (* p.Payload[4:] *)
    if short 8 rest then Panic PIndex else Ok RConsumed        (* binary.LittleEndian.Uint64 *)
  else if N.eqb m MAGIC_TCP_AUTH_NONCE then Ok RAuth           (* handleAuthResponse *)
  else Ok RForward.                                            (* c.resp <- p *)
Definition conn_reader_step := conn_reader_step_gen true.

(* liteclient/client.go, Client.reader: packets that are not adnl.message.answer
   are skipped, an error of processQueryAnswer is logged *)
Definition client_reader_step (known : bool) (payload : bytes) : res (option bytes) :=
  do m <- magic_type payload;
  if negb (N.eqb m MAGIC_ADNL_ANSWER) then Ok None else
  match process_query_answer known payload with
  | Ok d => Ok (Some d)
  | Err _ => Ok None
  | Panic p => Panic p
  end.

(** * liteclient.LiteapiRequestDecoder (decoder.go): bytes of a request received from a peer.
    Too short: an error.  Otherwise the constructor tag selects a request type from the
    generated table; tl.Unmarshal of the rest into it; any failure (unknown tag, decoding
    error) answers "Unknown" with a nil error.  [Some ty]: the Go type decoded. *)
Fixpoint lookup_request (tbl : list (N * N * String.string * String.string)) (tag : N) : option String.string :=
  match tbl with
  | [] => None
  | (t, _, ty, _) :: tl => if N.eqb t tag then Some ty else lookup_request tl tag
  end.

Definition request_decode (B : bindings) (tbl : list (N * N * String.string * String.string))
           (fuel : nat) (b : bytes) : res (option String.string) :=
  if short 4 b then Err EOther
  else
    do h <- slice_to 4 b;
    do rest <- slice_from 4 b;
    match lookup_request tbl (le_num h) with
    | None => Ok None
    | Some ty =>
        match fst (tl_unmarshal B fuel (GNamed ty) rest) with
        | Ok _ => Ok (Some ty)
        | Err _ => Ok None
        | Panic p => Panic p
        end
    end.

(** * tlb/dns.go, readDNSSmcAddress / readDnsAdnlAddress: the loop over
      cap_list_next$1 head:SmcCapability tail:SmcCapList (proto_list likewise).
    [item s] decodes one list head from the bits left in the cell: the bits after it, or
    [None] (it failed; a failed sum-type match consumes nothing).  [skip] is the design
    that goes on to the next iteration after a failed head instead of returning its error.
    The Go loop has no counter: fuel only makes the definition structural, and running
    out of it ([Err EFuel]) stands for a loop that is still running. *)
Section DnsList.
  Variable item : list bool -> option (list bool).

  Fixpoint dns_list_loop (skip : bool) (fuel : nat) (s : list bool) : res (list bool) :=
    match fuel with
    | O => Err EFuel
    | S f =>
        match item s with
        | None => if skip then dns_list_loop skip f s else Err EOther
        | Some r =>
            match r with
            | [] => Err ENotEnoughBits                 (* next, err = c.ReadBit() *)
            | next :: r' => if next then dns_list_loop skip f r' else Ok r'
            end
        end
    end.

  Definition dns_list (skip : bool) (fuel : nat) (s : list bool) : res (list bool) :=
    match s with
    | [] => Err ENotEnoughBits
    | next :: r => if next then dns_list_loop skip fuel r else Ok r
    end.
End DnsList.

(** * what ParsePacket allocates for an announced length, before any data has arrived:
      the 4 bytes of the size field, and [length] bytes only when 64 <= length <= max_packet.
      The limits the implementation compares untrusted lengths with, as the model has them: *)
Definition min_packet : N := 64.
Definition packet_prealloc (stream : bytes) : N :=
  if short 4 stream then 4 else
  let length := le_num (firstn 4 stream) in
  if (length <? min_packet) || (max_packet <? length) then 4 else 4 + length.

