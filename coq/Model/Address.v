(** C17 model, part 1: textual forms of ton.AccountID.

    Anchors: utils/crc16.go (Crc16, TABLE), ton/account.go (ToHuman,
    AccountIDFromBase64Url, ToRaw, AccountIDFromRaw, ParseAccountID,
    MarshalTL/UnmarshalTL), account.go (ParseAddress: bounce flag).

    Strings are lists of character codes (bytes), bytes are [N] below 256,
    base64 digits are [N] below 64.  Go's encoding/base64, encoding/hex,
    strconv.ParseInt, fmt %v/%x and snksoft/crc (XMODEM) are modelled here and
    tied to the real ones by the correspondence run only. *)
From Coq Require Import List NArith ZArith Bool.
From Tongo Require Import Lib.Bits Lib.Res.
Import ListNotations.
Local Open Scope N_scope.

Fixpoint iter {A} (n : nat) (f : A -> A) (x : A) : A :=
  match n with O => x | S n' => iter n' f (f x) end.

(** * CRC-16/XMODEM: polynomial 0x1021, init 0, no reflection, no final xor *)
Definition crc16_poly : N := 0x1021.

(* one shift of the 16-bit register, most significant bit first *)
Definition crc16_step (c : N) : N :=
  N.lxor (N.land (N.shiftl c 1) 0xFFFF) (if N.testbit c 15 then crc16_poly else 0).

(* bitwise definition: xor the byte into the high half, shift eight times *)
Definition crc16_byte (c b : N) : N := iter 8 crc16_step (N.lxor c (N.shiftl b 8)).
Definition crc16_from (c : N) (l : list N) : N := fold_left crc16_byte l c.
Definition crc16 (l : list N) : N := crc16_from 0 l.

(* the table a correct implementation must contain *)
Definition crc16_entry (i : N) : N := iter 8 crc16_step (N.shiftl i 8).
Definition crc16_table_ref : list N := map (fun i => crc16_entry (N.of_nat i)) (seq 0 256).

(* utils.Crc16:  crc = (TABLE[((crc>>8)^uint16(byte))&0xff] ^ (crc << 8)) & 0xffff *)
Definition crc16_tab_byte (tab : list N) (c b : N) : N :=
  N.land (N.lxor (nth (N.to_nat (N.land (N.lxor (N.shiftr c 8) b) 0xFF)) tab 0)
                 (N.shiftl c 8)) 0xFFFF.
Definition crc16_tab (tab : list N) (l : list N) : N := fold_left (crc16_tab_byte tab) l 0.

(** * base64 over 6-bit digits (whole 3-byte groups only: the 36-byte form
      needs no padding, and a padded input can never decode to 36 bytes) *)
Definition b64_enc3 (a b c : N) : list N :=
  [ N.shiftr a 2;
    N.lxor (N.shiftl (N.land a 3) 4) (N.shiftr b 4);
    N.lxor (N.shiftl (N.land b 15) 2) (N.shiftr c 6);
    N.land c 63 ].

Fixpoint b64_enc (bs : list N) : list N :=
  match bs with
  | a :: b :: c :: t => b64_enc3 a b c ++ b64_enc t
  | _ => []
  end.

(* the fields of a quantum are disjoint, so Go's [|] is xor here *)
Definition b64_dec4 (d0 d1 d2 d3 : N) : list N :=
  [ N.lxor (N.shiftl d0 2) (N.shiftr d1 4);
    N.lxor (N.shiftl (N.land d1 15) 4) (N.shiftr d2 2);
    N.lxor (N.shiftl (N.land d2 3) 6) d3 ].

Fixpoint b64_dec (ds : list N) : list N :=
  match ds with
  | d0 :: d1 :: d2 :: d3 :: t => b64_dec4 d0 d1 d2 d3 ++ b64_dec t
  | _ => []
  end.

(** * base64 alphabets: [url = true] is RFC 4648 section 5 ("-", "_"),
      [url = false] the standard one ("+", "/") *)
Definition b64_char (url : bool) (d : N) : N :=
  if d <? 26 then 65 + d
  else if d <? 52 then 97 + (d - 26)
  else if d <? 62 then 48 + (d - 52)
  else if d =? 62 then (if url then 45 else 43)
  else (if url then 95 else 47).

Definition b64_digit (url : bool) (c : N) : option N :=
  if (65 <=? c) && (c <=? 90) then Some (c - 65)
  else if (97 <=? c) && (c <=? 122) then Some (c - 97 + 26)
  else if (48 <=? c) && (c <=? 57) then Some (c - 48 + 52)
  else if c =? (if url then 45 else 43) then Some 62
  else if c =? (if url then 95 else 47) then Some 63
  else None.

Fixpoint b64_digits (url : bool) (cs : list N) : option (list N) :=
  match cs with
  | [] => Some []
  | c :: t =>
      match b64_digit url c, b64_digits url t with
      | Some d, Some ds => Some (d :: ds)
      | _, _ => None
      end
  end.

(* strings.Map in AccountIDFromBase64Url: '+' -> '-', '/' -> '_' *)
Definition plus_slash (c : N) : N := if c =? 43 then 45 else if c =? 47 then 95 else c.
Definition is_crlf (c : N) : bool := (c =? 10) || (c =? 13).

Fixpoint len_mod4 {A} (l : list A) : bool :=   (* length l mod 4 = 0 *)
  match l with
  | [] => true
  | _ :: _ :: _ :: _ :: t => len_mod4 t
  | _ => false
  end.

(* base64.URLEncoding.DecodeString restricted to what matters for a 36-byte
   result: CR and LF are skipped, every other character must be in the URL
   alphabet, the number of digits must be a multiple of four.  An input with
   '=' is an error here; Go would either fail or return 3k+1 / 3k+2 bytes. *)
Definition b64url_decode_string (cs : list N) : option (list N) :=
  match b64_digits true (filter (fun c => negb (is_crlf c)) cs) with
  | Some ds => if len_mod4 ds then Some (b64_dec ds) else None
  | None => None
  end.

(** * user-friendly form: flag | workchain | 32 address bytes | crc16 big-endian *)
Definition human_flag (bounce testnet : bool) : N :=
  0x11 + (if testnet then 0x80 else 0) + (if bounce then 0 else 0x40).
Definition flag_testnet (f : N) : bool := N.testbit f 7.
Definition flag_bounce (f : N) : bool := negb (N.testbit f 6).
(* what account.go ParseAddress computes:  bytesAddress[0]&0x11 == 0x11 *)
Definition go_parse_address_bounce (f : N) : bool := N.land f 0x11 =? 0x11.

Definition wc_byte (wc : Z) : N := Z.to_N (wc mod 256).           (* byte(id.Workchain) *)
Definition int8_of_byte (b : N) : Z := if b <? 128 then Z.of_N b else (Z.of_N b - 256)%Z.
Definition be16_bytes (v : N) : list N := [N.shiftr v 8; N.land v 0xFF].
Definition be16 (h l : N) : N := N.lxor (N.shiftl h 8) l.        (* disjoint: | is xor *)

Definition human_body (bounce testnet : bool) (wc : Z) (addr : list N) : list N :=
  human_flag bounce testnet :: wc_byte wc :: addr.

(* ToHuman; [tab] is utils.TABLE *)
Definition human_bytes (tab : list N) (bounce testnet : bool) (wc : Z) (addr : list N) : list N :=
  let body := human_body bounce testnet wc addr in
  body ++ be16_bytes (crc16_tab tab body).

Definition human_digits tab bounce testnet wc addr : list N :=
  b64_enc (human_bytes tab bounce testnet wc addr).

Definition print_human (tab : list N) (url bounce testnet : bool) (wc : Z) (addr : list N) : list N :=
  map (b64_char url) (human_digits tab bounce testnet wc addr).

Fixpoint len_is {A} (n : nat) (l : list A) : bool :=
  match n, l with
  | O, [] => true
  | S n', _ :: t => len_is n' t
  | _, _ => false
  end.

(* the part of AccountIDFromBase64Url after base64 decoding; also returns the
   flag byte, which the Go function ignores *)
Definition parse_human_bytes (bs : list N) : res (N * Z * list N) :=
  if len_is 36 bs then
    match skipn 34 bs with
    | [h; l] =>
        if be16 h l =? crc16 (firstn 34 bs)
        then Ok (nth 0 bs 0, int8_of_byte (nth 1 bs 0), firstn 32 (skipn 2 bs))
        else Err EOther
    | _ => Err EOther
    end
  else Err EOther.

Definition parse_human_digits (ds : list N) : res (N * Z * list N) :=
  if len_mod4 ds then parse_human_bytes (b64_dec ds) else Err EOther.

Definition parse_human (cs : list N) : res (N * Z * list N) :=
  match b64url_decode_string (map plus_slash cs) with
  | Some bs => parse_human_bytes bs
  | None => Err EOther
  end.

(** * raw form  <workchain decimal>:<64 hex> *)
Definition hex_lower (d : N) : N := if d <? 10 then 48 + d else 87 + d.
Definition hex_byte (b : N) : list N := [hex_lower (b / 16); hex_lower (b mod 16)].
Definition hex_val (c : N) : option N :=
  if (48 <=? c) && (c <=? 57) then Some (c - 48)
  else if (97 <=? c) && (c <=? 102) then Some (c - 87)
  else if (65 <=? c) && (c <=? 70) then Some (c - 55)
  else None.

Fixpoint hex_decode (cs : list N) : option (list N) :=
  match cs with
  | [] => Some []
  | h :: l :: t =>
      match hex_val h, hex_val l, hex_decode t with
      | Some a, Some b, Some r => Some (a * 16 + b :: r)
      | _, _, _ => None
      end
  | _ => None
  end.

(* decimal digits, least significant first; [fuel] digits at most *)
Fixpoint dec_rev (fuel : nat) (n : N) : list N :=
  match fuel with
  | O => []
  | S f => if n <? 10 then [48 + n] else (48 + n mod 10) :: dec_rev f (n / 10)
  end.
Definition dec_N (n : N) : list N := rev (dec_rev 20 n).         (* exact below 10^20 *)
Definition dec_Z (z : Z) : list N :=
  match z with
  | Zneg p => 45 :: dec_N (Npos p)
  | _ => dec_N (Z.to_N z)
  end.

Fixpoint dec_value (acc : N) (cs : list N) : option N :=
  match cs with
  | [] => Some acc
  | c :: t => if (48 <=? c) && (c <=? 57) then dec_value (acc * 10 + (c - 48)) t else None
  end.

(* strconv.ParseInt(s, 10, bits): optional sign, at least one digit, range *)
Definition parse_int (bits : N) (cs : list N) : option Z :=
  match cs with
  | [] => None
  | c :: t =>
      let neg := c =? 45 in
      let ds := if neg || (c =? 43) then t else cs in
      match ds with
      | [] => None
      | _ =>
          match dec_value 0 ds with
          | None => None
          | Some v =>
              if neg then (if v <=? 2 ^ (bits - 1) then Some (- Z.of_N v)%Z else None)
              else (if v <? 2 ^ (bits - 1) then Some (Z.of_N v) else None)
          end
      end
  end.

(* strings.IndexByte(s, ':') and the two slices around it *)
Fixpoint split_colon (cs : list N) : option (list N * list N) :=
  match cs with
  | [] => None
  | c :: t =>
      if c =? 58 then Some ([], t)
      else match split_colon t with
           | Some (a, b) => Some (c :: a, b)
           | None => None
           end
  end.

(* fmt.Sprintf("%v:%x", id.Workchain, id.Address) *)
Definition print_raw (wc : Z) (addr : list N) : list N :=
  dec_Z wc ++ 58 :: flat_map hex_byte addr.

(* left zero fill of a short hex part up to 64 characters *)
Definition zero_fill (n : nat) (h : list N) : list N :=
  repeat 48 (n - length h) ++ h.

Definition parse_raw (cs : list N) : res (Z * list N) :=
  match split_colon cs with
  | None => Err EOther
  | Some (w, h) =>
      let h := if short 64 h then zero_fill 64 h else h in
      match parse_int 32 w with
      | None => Err EOther
      | Some wc =>
          match hex_decode h with
          | None => Err EOther
          | Some a => if len_is 32 a then Ok (wc, a) else Err EOther
          end
      end
  end.

(* ParseAccountID: raw first, then user-friendly *)
Definition parse_account (cs : list N) : res (Z * list N) :=
  match parse_raw cs with
  | Ok r => Ok r
  | _ => match parse_human cs with
         | Ok (_, wc, a) => Ok (wc, a)
         | Err e => Err e
         | Panic p => Panic p
         end
  end.

(** * account.go ParseAddress (strings without '.' and '='): raw form first;
      otherwise the base64 decoding error is ignored, so whatever complete
      quanta precede the first bad character are used *)
Fixpoint b64_digits_prefix (cs : list N) : list N :=
  match cs with
  | [] => []
  | c :: t => match b64_digit true c with
              | Some d => d :: b64_digits_prefix t
              | None => []
              end
  end.

Definition parse_address_lax (cs : list N) : res (Z * list N * bool) :=
  match parse_raw cs with
  | Ok (wc, a) => Ok (wc, a, true)
  | _ =>
      let ds := b64_digits_prefix (filter (fun c => negb (is_crlf c)) (map plus_slash cs)) in
      match parse_human_bytes (b64_dec ds) with
      | Ok (f, wc, a) => Ok (wc, a, go_parse_address_bounce f)
      | Err e => Err e
      | Panic p => Panic p
      end
  end.

(** * TL form: uint32 little-endian workchain, 32 bytes *)
Definition le32_bytes (v : N) : list N :=
  [v mod 256; (v / 256) mod 256; (v / 65536) mod 256; (v / 16777216) mod 256].
Definition int32_of_N (v : N) : Z := if v <? 2 ^ 31 then Z.of_N v else (Z.of_N v - 2 ^ 32)%Z.
Definition tl_marshal (wc : Z) (addr : list N) : list N :=
  le32_bytes (Z.to_N (wc mod 2 ^ 32)) ++ addr.
Definition tl_unmarshal (bs : list N) : res (Z * list N) :=
  if short 36 bs then Err EOther
  else match bs with
       | b0 :: b1 :: b2 :: b3 :: t =>
           Ok (int32_of_N (b0 + 256 * b1 + 65536 * b2 + 16777216 * b3), firstn 32 t)
       | _ => Err EOther
       end.
