(** Model of the identity hashes of messages and transactions:
    tlb/messages.go (Message.UnmarshalTLB, Message.Hash, MsgAddress codec,
    Anycast), tlb/transactions.go (Transaction.UnmarshalTLB, Hash, SourceBoc),
    the parts of tlb/decoder.go / primitives.go they go through (library-cell
    check of decode(), Maybe, EitherRef, Ref with its pruned-branch shortcut,
    Any = CopyRemaining), tlb/models.go (Grams, CurrencyCollection, HashUpdate).

    Cells are the cell trees of Spec/ReprHash.v.  A cell being read is the list
    of its unread bits and unread references (C06).  Acceptance of a dictionary
    root by Hashmap.mapInner and of a TransactionDescr cell enter as an [oracle]
    record; every theorem holds for every oracle, and Model/MsgOracle.v gives
    the transcription of both ([real_oracle]) that makes the decoders functions
    of the cell tree alone.

    The hasher is a parameter as well: [hr] is the result of hashing the cell
    being decoded (decoder.hasher.Hash(c) or c.Hash()), [hf] hashes nested
    message cells. *)
From Coq Require Import List NArith ZArith Arith Bool.
From Tongo Require Import Lib.Bits Lib.Res Model.BocParse Model.CellHash Spec.ReprHash Proofs.CellHashP.
Import ListNotations.

Definition ETlbMsg : N := 60.

Definition cell_special (c : cell) : bool := match c with Cell s _ _ _ _ => s end.
Definition cell_ty (c : cell) : N := match c with Cell _ t _ _ _ => t end.
Definition cell_bits (c : cell) : bits := match c with Cell _ _ _ d _ => d end.
Definition cell_refs (c : cell) : list cell := match c with Cell _ _ _ _ r => r end.

Definition is_library_cell (c : cell) : bool := cell_special c && N.eqb (cell_ty c) T_LIBRARY.
Definition is_pruned_cell (c : cell) : bool := is_pruned (cell_special c) (cell_ty c).

(** *** the read side of a cell *)
Record slc := mks { sb : bits; sr : list cell }.
Definition open (c : cell) : slc := mks (cell_bits c) (cell_refs c).

Definition rd (n : nat) (s : slc) : res (bits * slc) :=
  if short n (sb s) then Err ENotEnoughBits
  else Ok (firstn n (sb s), mks (skipn n (sb s)) (sr s)).
Definition rd_bit (s : slc) : res (bool * slc) :=
  match sb s with
  | [] => Err ENotEnoughBits
  | b :: t => Ok (b, mks t (sr s))
  end.
Definition rd_uint (n : nat) (s : slc) : res (N * slc) :=
  do x <- rd n s; Ok (N_of_bits (fst x), snd x).
Definition next_ref (s : slc) : res (cell * slc) :=
  match sr s with
  | [] => Err ENotEnoughRefs
  | c :: t => Ok (c, mks (sb s) t)
  end.

(** *** what is not transcribed *)
Record oracle := mkoracle {
  dict_ok : nat -> cell -> bool;     (* Hashmap.mapInner accepts this root; 0 extra currencies,
                                        1 StateInit.library, 2 Transaction.out_msgs *)
  descr_ok : cell -> bool            (* TransactionDescr decodes from this cell *)
}.

(** *** MsgAddress *)
Inductive addr :=
| ANone
| AExt (l : bits)
| AStd (any : option (N * N)) (wc : Z) (a : bits)             (* anycast = (depth, rewrite_pfx) *)
| AVar (any : option (N * N)) (len : N) (wc : Z) (a : bits).

(* ReadInt: two's complement *)
Definition dec_int (l : bits) : Z :=
  match l with
  | [] => 0%Z
  | sign :: rest =>
      if sign then (Z.of_N (N_of_bits rest) - 2 ^ Z.of_nat (length rest))%Z
      else Z.of_N (N_of_bits rest)
  end.
(* WriteInt of a value of the Go type intW *)
Definition enc_int (w : nat) (z : Z) : bits := bits_of w (Z.to_N (z mod 2 ^ Z.of_nat w)).

(* Maybe[Anycast].UnmarshalTLB: depth:(#<= 30) is read with 5 bits; only
   depth < 1 is rejected *)
Definition parse_anycast (s : slc) : res (option (N * N) * slc) :=
  do x <- rd_bit s;
  if fst x then
    do d <- rd_uint 5 (snd x);
    if (fst d <? 1)%N then Err ETlbMsg else
    do p <- rd_uint (N.to_nat (fst d)) (snd d);
    Ok (Some (fst d, fst p), snd p)
  else Ok (None, snd x).

Definition parse_addr (s : slc) : res (addr * slc) :=
  do t <- rd 2 s;
  match fst t with
  | [false; false] => Ok (ANone, snd t)
  | [false; true] =>
      do ln <- rd_uint 9 (snd t);
      do a <- rd (N.to_nat (fst ln)) (snd ln);
      Ok (AExt (fst a), snd a)
  | [true; false] =>
      do any <- parse_anycast (snd t);
      do wc <- rd 8 (snd any);
      do a <- rd 256 (snd wc);
      Ok (AStd (fst any) (dec_int (fst wc)) (fst a), snd a)
  | [true; true] =>
      do any <- parse_anycast (snd t);
      do ln <- rd_uint 9 (snd any);
      do wc <- rd 32 (snd ln);
      do a <- rd (N.to_nat (fst ln)) (snd wc);
      Ok (AVar (fst any) (fst ln) (dec_int (fst wc)) (fst a), snd a)
  | _ => Err ETlbMsg
  end.

(** *** Grams, VarUInteger 16, dictionaries *)
(* Grams.UnmarshalTLB: 4-bit length, more than 8 bytes is ErrGramsOverflow *)
Definition parse_grams (s : slc) : res (N * slc) :=
  do l <- rd_uint 4 s;
  if (8 <? fst l)%N then Err ETlbMsg else rd_uint (8 * N.to_nat (fst l)) (snd l).
(* VarUInteger16.UnmarshalTLB *)
Definition parse_var16 (s : slc) : res (N * slc) :=
  do l <- rd_uint 4 s; rd_uint (8 * N.to_nat (fst l)) (snd l).

(* HashmapE = Maybe[Ref[Hashmap]]: a pruned root is skipped by Ref, a library
   root is refused by decode() (no resolver), otherwise mapInner decides *)
Definition parse_dict (o : oracle) (kind : nat) (s : slc) : res (option cell * slc) :=
  do x <- rd_bit s;
  if fst x then
    do r <- next_ref (snd x);
    if is_pruned_cell (fst r) then Ok (Some (fst r), snd r)
    else if is_library_cell (fst r) then Err ETlbMsg
    else if dict_ok o kind (fst r) then Ok (Some (fst r), snd r)
    else Err ETlbMsg
  else Ok (None, snd x).

(** *** CommonMsgInfo *)
Inductive info :=
| IInt (ihr_disabled bounce bounced : bool) (src dest : addr) (grams : N) (extra : option cell)
       (ihr_fee fwd_fee lt at_ : N)
| IExtIn (src dest : addr) (import_fee : N)
| IExtOut (src dest : addr) (lt at_ : N).

(* decodeSumType tries int_msg_info$0, ext_in_msg_info$10, ext_out_msg_info$11
   in this order; a tag longer than what is left does not match *)
Definition parse_info (o : oracle) (s : slc) : res (info * slc) :=
  match sb s with
  | false :: t =>
      let s := mks t (sr s) in
      do f1 <- rd_bit s; do f2 <- rd_bit (snd f1); do f3 <- rd_bit (snd f2);
      do src <- parse_addr (snd f3);
      do dst <- parse_addr (snd src);
      do g <- parse_grams (snd dst);
      do ex <- parse_dict o 0 (snd g);
      do ihr <- parse_grams (snd ex);
      do fwd <- parse_grams (snd ihr);
      do lt <- rd_uint 64 (snd fwd);
      do at_ <- rd_uint 32 (snd lt);
      Ok (IInt (fst f1) (fst f2) (fst f3) (fst src) (fst dst) (fst g) (fst ex)
               (fst ihr) (fst fwd) (fst lt) (fst at_), snd at_)
  | true :: false :: t =>
      let s := mks t (sr s) in
      do src <- parse_addr s;
      do dst <- parse_addr (snd src);
      do fee <- parse_var16 (snd dst);
      Ok (IExtIn (fst src) (fst dst) (fst fee), snd fee)
  | true :: true :: t =>
      let s := mks t (sr s) in
      do src <- parse_addr s;
      do dst <- parse_addr (snd src);
      do lt <- rd_uint 64 (snd dst);
      do at_ <- rd_uint 32 (snd lt);
      Ok (IExtOut (fst src) (fst dst) (fst lt) (fst at_), snd at_)
  | _ => Err ETlbMsg
  end.

(** *** StateInit *)
Record state_init := mksi {
  si_split : option N; si_special : option (bool * bool);
  si_code : option cell; si_data : option cell; si_lib : option cell
}.

(* Maybe[Ref[boc.Cell]]: any referenced cell is accepted *)
Definition parse_maybe_cell (s : slc) : res (option cell * slc) :=
  do x <- rd_bit s;
  if fst x then do r <- next_ref (snd x); Ok (Some (fst r), snd r) else Ok (None, snd x).

Definition parse_state_init (o : oracle) (s : slc) : res (state_init * slc) :=
  do b1 <- rd_bit s;
  do sd <- (if fst b1 then do v <- rd_uint 5 (snd b1); Ok (Some (fst v), snd v) else Ok (None, snd b1));
  do b2 <- rd_bit (snd sd);
  do sp <- (if fst b2 then do t1 <- rd_bit (snd b2); do t2 <- rd_bit (snd t1); Ok (Some (fst t1, fst t2), snd t2)
            else Ok (None, snd b2));
  do code <- parse_maybe_cell (snd sp);
  do data <- parse_maybe_cell (snd code);
  do lib <- parse_dict o 1 (snd data);
  Ok (mksi (fst sd) (fst sp) (fst code) (fst data) (fst lib), snd lib).

(** *** Message *)
Record msg := mkmsg {
  m_info : info;
  m_init : option (bool * state_init);     (* (stored in a reference?, value) *)
  m_body_ref : bool;                       (* Body.IsRight *)
  m_body : bits * list cell;               (* Body.Value: unread bits and references (Any) *)
  m_hash : bytes
}.

Definition parse_message (o : oracle) (s : slc)
  : res (info * option (bool * state_init) * bool * (bits * list cell)) :=
  do i <- parse_info o s;
  do hasinit <- rd_bit (snd i);
  do ini <- (if fst hasinit then
               do rt <- rd_bit (snd hasinit);
               if fst rt then
                 do r <- next_ref (snd rt);
                 if is_library_cell (fst r) then Err ETlbMsg else
                 do si <- parse_state_init o (open (fst r));
                 Ok (Some (true, fst si), snd r)
               else
                 do si <- parse_state_init o (snd rt);
                 Ok (Some (false, fst si), snd si)
             else Ok (None, snd hasinit));
  do rt <- rd_bit (snd ini);
  if fst rt then
    do r <- next_ref (snd rt);
    (* a library cell is kept as it is, anything else is CopyRemaining: in both
       cases the value is the bits and the references of the referenced cell *)
    Ok (fst i, fst ini, true, (cell_bits (fst r), cell_refs (fst r)))
  else
    Ok (fst i, fst ini, false, (sb (snd rt), sr (snd rt))).

(* tlb.Unmarshal(c, &msg): decode() refuses a library cell, then
   Message.UnmarshalTLB hashes [c] FIRST, resets the cursors and decodes *)
Definition decode_message_body (o : oracle) (hr : res bytes) (c : cell) : res msg :=
  do h <- hr;
  do p <- parse_message o (open c);
  let '(i, ini, isref, body) := p in
  Ok (mkmsg i ini isref body h).
(* no library resolver is configured (tlb.Unmarshal, tlb.NewDecoder()): decode()
   returns "library cell decoding is not configured properly" *)
Definition decode_message_gen (o : oracle) (hr : res bytes) (c : cell) : res msg :=
  if is_library_cell c then Err ETlbMsg else decode_message_body o hr c.

(** *** Message.Hash(normalizeExternal) *)
(* a cell being written; every write appends bit by bit, stops at 1023 bits
   and reports an error, which makes the enclosing MarshalTLB return *)
Definition wst := (bits * bool)%type.
Definition wr (l : bits) (st : wst) : wst :=
  let '(b, failed) := st in
  if failed then st else
  let room := (1023 - length b)%nat in
  if (length l <=? room)%nat then (b ++ l, false) else (b ++ firstn room l, true).
Definition wfail (st : wst) : wst := (fst st, true).
Definition ignore_err (st : wst) : wst := (fst st, false).       (* `_ = ...` *)

Definition marshal_anycast (a : option (N * N)) (st : wst) : wst :=
  match a with
  | None => wr [false] st
  | Some (d, p) => wr (bits_of (N.to_nat d) p) (wr (bits_of 5 d) (wr [true] st))
  end.

Definition marshal_addr (a : addr) (st : wst) : wst :=
  match a with
  | ANone => wr [false; false] st
  | AExt l =>
      let st := wr [false; true] st in
      if (511 <? length l)%nat then wfail st
      else wr l (wr (bits_of 9 (N.of_nat (length l))) st)
  | AStd any wc a => wr a (wr (enc_int 8 wc) (marshal_anycast any (wr [true; false] st)))
  | AVar any len wc a =>
      wr a (wr (enc_int 32 wc) (wr (bits_of 9 len) (marshal_anycast any (wr [true; true] st))))
  end.

(* m.Info.ExtInMsgInfo.Dest.AddrStd.Anycast.Exists = false *)
Definition clear_std_anycast (a : addr) : addr :=
  match a with AStd _ wc x => AStd None wc x | _ => a end.

Definition zero_hash : bytes := repeat 0%N 32.

Section Hash.
Variable H : bytes -> bytes.

(* Cell.Hash() on a cell tree *)
Definition hash_cell (c : cell) : res bytes := do im <- imm_of H c; cell_hash im.

Definition norm_info_bits (dest : addr) : bits :=
  let st : wst := ([], false) in
  let st := ignore_err (wr (bits_of 2 2) st) in
  let st := ignore_err (wr (bits_of 2 0) st) in
  let st := ignore_err (marshal_addr (clear_std_anycast dest) st) in
  let st := ignore_err (wr (bits_of 4 0) st) in
  let st := ignore_err (wr [false] st) in
  let st := ignore_err (wr [true] st) in
  fst st.

(* the cell built by Hash(true); NewCellWithBits panics above 1023 bits *)
Definition norm_cell (dest : addr) (body : bits * list cell) : res cell :=
  if (1023 <? length (fst body))%nat then Panic PExplicit else
  Ok (Cell false 0 0 (norm_info_bits dest) [Cell false 0 0 (fst body) (snd body)]).

(* hash, _ := c.Hash256(): an error leaves the zero array *)
Definition msg_hash (normalize : bool) (m : msg) : res bytes :=
  if negb normalize then Ok (m_hash m) else
  match m_info m with
  | IExtIn _ dest _ =>
      do c <- norm_cell dest (m_body m);
      match hash_cell c with
      | Ok h => Ok h
      | Err _ => Ok zero_hash
      | Panic p => Panic p
      end
  | _ => Ok (m_hash m)
  end.

Definition decode_message (o : oracle) (c : cell) : res msg :=
  decode_message_gen o (hash_cell c) c.

(* what Hash(normalize) leaves in the receiver: for an external-in message
   Hash(true) executes m.Info.ExtInMsgInfo.Dest.AddrStd.Anycast.Exists = false
   (through the ExtInMsgInfo pointer, so every copy of the Message value that
   shares the pointer sees it); nothing else is written, in particular not m.hash *)
Definition clear_info_anycast (i : info) : info :=
  match i with IExtIn s d f => IExtIn s (clear_std_anycast d) f | _ => i end.
Definition after_hash (normalize : bool) (m : msg) : msg :=
  if normalize then mkmsg (clear_info_anycast (m_info m)) (m_init m) (m_body_ref m) (m_body m) (m_hash m)
  else m.

(** *** Transaction *)
Record tx := mktx {
  tx_hash : bytes;
  tx_src : cell;                 (* the cell captured by lazySourceBoc *)
  tx_account : bits; tx_lt : N; tx_prev_hash : bits; tx_prev_lt : N; tx_now : N;
  tx_outmsg_cnt : N; tx_orig : N; tx_end : N;
  tx_in_msg : option msg;        (* None: absent or pruned *)
  tx_out_msgs : option cell;
  tx_fees : N
}.

(* Maybe[Ref[Message]]: a pruned reference leaves the zero Message *)
Definition parse_in_msg (o : oracle) (hf : cell -> res bytes) (s : slc) : res (option msg * slc) :=
  do x <- rd_bit s;
  if fst x then
    do r <- next_ref (snd x);
    if is_pruned_cell (fst r) then Ok (None, snd r) else
    do m <- decode_message_gen o (hf (fst r)) (fst r);
    Ok (Some m, snd r)
  else Ok (None, snd x).

Definition decode_tx_gen (o : oracle) (hr : res bytes) (hf : cell -> res bytes) (c : cell) : res tx :=
  if is_library_cell c then Err ETlbMsg else
  do h <- hr;
  let s := open c in
  do tag <- rd_uint 4 s;
  if negb (N.eqb (fst tag) 7) then Err ETlbMsg else
  do acc <- rd 256 (snd tag);
  do lt <- rd_uint 64 (snd acc);
  do ph <- rd 256 (snd lt);
  do plt <- rd_uint 64 (snd ph);
  do now <- rd_uint 32 (snd plt);
  do cnt <- rd_uint 15 (snd now);
  do st1 <- rd_uint 2 (snd cnt);
  do st2 <- rd_uint 2 (snd st1);
  do c1 <- next_ref (snd st2);
  if is_library_cell (fst c1) then Err ETlbMsg else
  do im <- parse_in_msg o hf (open (fst c1));
  do om <- parse_dict o 2 (snd im);
  do fees <- parse_grams (snd c1);
  do ex <- parse_dict o 0 (snd fees);
  do c2 <- next_ref (snd ex);
  if is_library_cell (fst c2) then Err ETlbMsg else
  do m72 <- rd_uint 8 (open (fst c2));
  if negb (N.eqb (fst m72) 114) then Err ETlbMsg else           (* update_hashes#72 *)
  do oh <- rd 256 (snd m72);
  do nh <- rd 256 (snd oh);
  do c3 <- next_ref (snd c2);
  if is_library_cell (fst c3) then Err ETlbMsg else
  if negb (descr_ok o (fst c3)) then Err ETlbMsg else
  Ok (mktx h c (fst acc) (fst lt) (fst ph) (fst plt) (fst now) (fst cnt) (fst st1) (fst st2)
           (fst im) (fst om) (fst fees)).

Definition decode_tx (o : oracle) (c : cell) : res tx :=
  decode_tx_gen o (hash_cell c) hash_cell c.

(** *** with the caching hasher: the cell sits at index k of an array in which
    every shared cell is hashed once (boc.Hasher's cache keyed by pointer) *)
Definition cached_hash_of (imms : list (res imm)) (k : nat) : res bytes :=
  match nth_error imms k with
  | Some ri => do im <- ri; cell_hash im
  | None => Panic PNil
  end.
Definition cached_hash (cells : list node) (k : nat) : res bytes :=
  cached_hash_of (eval_dag H 0 cells) k.

End Hash.
