(** Model of boc/immutable_cell.go (newImmutableCell, Hash, Depth),
    boc/level_mask.go and the descriptor bytes of boc/cell.go, parametric in the
    hash function. *)
From Coq Require Import List NArith Arith Lia Bool.
From Tongo Require Import Lib.Bits Lib.Res Model.BocParse.
Import ListNotations.

Definition T_PRUNED : N := 1.
Definition T_LIBRARY : N := 2.
Definition T_MPROOF : N := 3.
Definition T_MUPDATE : N := 4.

Definition EDepth : N := 21.

(** level masks (uint32 in Go; only the three low bits are ever set by the
    parser, d1 >> 5) *)
Definition mask_level (m : N) : nat := N.to_nat (N.size m).       (* 32 - LeadingZeros32 *)
Definition mask_popcount (m : N) : nat := popcount3 m.             (* OnesCount32, m < 8 *)
Definition mask_apply (m : N) (level : nat) : N := N.land m (2 ^ N.of_nat level - 1).
Definition mask_significant (m : N) (level : nat) : bool :=
  match level with O => true | S l => N.testbit m (N.of_nat l) end.

(** the immutable cell: what the Go struct keeps *)
Record imm := mkimm {
  im_special : bool;
  im_type : N;              (* cellType; 0 = ordinary *)
  im_mask : N;
  im_bits : bits;           (* bitsBuf[0:bitsLen] *)
  im_nrefs : nat;
  im_hashes : list bytes;
  im_depths : list N
}.

Definition is_pruned (special : bool) (ty : N) : bool := special && N.eqb ty T_PRUNED.
Definition is_merkle (special : bool) (ty : N) : bool :=
  special && (N.eqb ty T_MPROOF || N.eqb ty T_MUPDATE).

(* bitsBuf as bytes: data bits followed by zeros (the buffer of a cell is 128
   bytes) *)
Fixpoint bits_bytes (n : nat) (l : bits) : bytes :=
  match n with
  | O => []
  | S n' => N_of_bits (firstn 8 (l ++ zeros 8)) :: bits_bytes n' (skipn 8 l)
  end.
Definition buf_bytes (l : bits) : bytes := bits_bytes 128 l.

(* Hash(level) *)
Definition imm_hash (c : imm) (level : nat) : res bytes :=
  let index := mask_popcount (mask_apply (im_mask c) level) in
  if is_pruned (im_special c) (im_type c) then
    let offset := mask_popcount (im_mask c) in
    if negb (Nat.eqb index offset) then
      Ok (firstn 32 (skipn (2 + index * 32) (buf_bytes (im_bits c))))
    else match nth_error (im_hashes c) 0 with Some h => Ok h | None => Panic PIndex end
  else match nth_error (im_hashes c) index with Some h => Ok h | None => Panic PIndex end.

(* Depth(level) *)
Definition imm_depth (c : imm) (level : nat) : res N :=
  let index := mask_popcount (mask_apply (im_mask c) level) in
  if is_pruned (im_special c) (im_type c) then
    let offset := mask_popcount (im_mask c) in
    if negb (Nat.eqb index offset) then
      match skipn (2 + 32 * offset + index * 2) (buf_bytes (im_bits c)) with
      | a :: b :: _ => Ok (a * 256 + b)%N
      | _ => Panic PIndex
      end
    else match nth_error (im_depths c) 0 with Some d => Ok d | None => Panic PIndex end
  else match nth_error (im_depths c) index with Some d => Ok d | None => Panic PIndex end.

(* d1, d2, bocReprWithoutRefs *)
Definition d1_byte (nrefs : nat) (special : bool) (mask : N) : N :=
  ((N.of_nat nrefs + (if special then 8 else 0) + 32 * mask) mod 256)%N.
Definition d2_byte (nbits : nat) : N :=
  N.of_nat ((nbits + 7) / 8 + nbits / 8).

Definition data_with_tag (l : bits) : bytes :=
  let n := length l in
  if (n mod 8 =? 0)%nat then bits_bytes (n / 8) l
  else bits_bytes ((n + 7) / 8) (l ++ [true]).

Definition repr_no_refs (nrefs : nat) (special : bool) (mask : N) (l : bits) : bytes :=
  d1_byte nrefs special mask :: d2_byte (length l) :: data_with_tag l.

Definition be16 (d : N) : bytes := [(d / 256) mod 256; d mod 256]%N.   (* uint16(childDepth) *)

Fixpoint mapM {A B} (f : A -> res B) (l : list A) : res (list B) :=
  match l with
  | [] => Ok []
  | a :: t => do b <- f a; do bs <- mapM f t; Ok (b :: bs)
  end.

Section Hash.
Variable H : bytes -> bytes.

(* the loop of newImmutableCell over i = 0..level.  State: hashIndex (+1
   encoded as nat: number of significant levels seen), hashes, depths. *)
Fixpoint build_loop (special : bool) (ty : N) (mask : N) (l : bits) (refs : list imm)
         (levels : list nat) (seen : nat) (hashes : list bytes) (depths : list N)
  : res (list bytes * list N) :=
  match levels with
  | [] => Ok (hashes, depths)
  | i :: rest =>
      if negb (mask_significant mask i) then
        build_loop special ty mask l refs rest seen hashes depths
      else
        let hashIndex := seen in          (* hashIndex after the increment *)
        let offset := if is_pruned special ty then mask_popcount mask else 0%nat in
        if (hashIndex <? offset)%nat then
          build_loop special ty mask l refs rest (S seen) hashes depths
        else
          do head <- (if (hashIndex =? offset)%nat
                      then Ok (repr_no_refs (length refs) special (mask_apply mask i) l)
                      else match nth_error hashes (hashIndex - offset - 1) with
                           | Some h => Ok (d1_byte (length refs) special (mask_apply mask i)
                                           :: d2_byte (length l) :: h)
                           | None => Panic PIndex
                           end);
          let child := if is_merkle special ty then S i else i in
          do cdepths <- mapM (fun r => imm_depth r child) refs;
          let maxd := fold_left N.max cdepths 0%N in
          if negb (Nat.eqb (length refs) 0) && (1024 <=? maxd)%N then Err EDepth else
          let depth := if Nat.eqb (length refs) 0 then 0%N else (maxd + 1)%N in
          do chashes <- mapM (fun r => imm_hash r child) refs;
          let h := H (head ++ flat_map be16 cdepths ++ concat chashes) in
          build_loop special ty mask l refs rest (S seen) (hashes ++ [h]) (depths ++ [depth])
  end.

Definition build_imm (special : bool) (ty : N) (mask : N) (l : bits) (refs : list imm) : res imm :=
  do hd <- build_loop special ty mask l refs (seq 0 (S (mask_level mask))) 0 [] [];
  let '(hs, ds) := hd in
  Ok (mkimm special ty mask l (length refs) hs ds).

(** evaluation over a parsed DAG in BOC order (references point forward):
    process cells from the last to the first; [done] holds the immutable cells
    of indices i+1..n-1. *)
Fixpoint lookup_refs (done : list (res imm)) (base : nat) (refs : list nat) : res (list imm) :=
  match refs with
  | [] => Ok []
  | r :: t =>
      match nth_error done (r - base) with
      | Some rc => do c <- rc; do cs <- lookup_refs done base t; Ok (c :: cs)
      | None => Panic PNil
      end
  end.

(* cells = nodes i..n-1; returns the immutable cell (or the failure of
   building it) for each of i..n-1; a failure propagates to the parents only *)
Fixpoint eval_dag (i : nat) (cells : list node) : list (res imm) :=
  match cells with
  | [] => []
  | c :: rest =>
      let done := eval_dag (S i) rest in
      let im := do refs <- lookup_refs done (S i) (n_refs c);
                build_imm (n_special c) (n_type c) (n_mask c) (n_bits c) refs in
      im :: done
  end.

(* Cell.Hash(): level 3 *)
Definition cell_hash (c : imm) : res bytes := imm_hash c 3.
Definition cell_depth (c : imm) : res N := imm_depth c 3.

End Hash.
