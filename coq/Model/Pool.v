(** Model of liteapi/pool/conn_pool.go — part (a): the selection rule
    (ConnPool.updateBest, findBestPingConnection, findFirstWorkingConnection).
    The wait-list protocol (part b) is in Model/PoolWait.v.
    Definitions only. *)
From Coq Require Import List NArith ZArith Bool.
Import ListNotations.

(** Strategy is a Go string; the [switch] in updateBest has no default branch,
    so any other value leaves bestConn untouched. *)
Inductive strategy := BestPing | FirstWorking | OtherStrategy.

(** What updateBest reads from one pooled connection:
    IsOK(), MasterHead().Seqno (uint32), AverageRoundTrip() (time.Duration = int64). *)
Record conn := mkConn { c_alive : bool; c_seqno : N; c_rtt : Z }.

Definition two32 : N := 4294967296.
Definition u32 (n : N) : N := (n mod two32)%N.
Definition seq32 (c : conn) : N := u32 (c_seqno c).

(**   var maxSeqno uint32
      for _, c := range p.conns { s := c.MasterHead().Seqno; if maxSeqno < s { maxSeqno = s } } *)
Definition max_step (m : N) (c : conn) : N := if (m <? seq32 c)%N then seq32 c else m.
Definition max_seqno (cs : list conn) : N := fold_left max_step cs 0%N.

(** The Go test [uint64(c.MasterHead().Seqno)+1 >= uint64(maxSeqno)]: the addition is
    done in 64 bits, so it cannot wrap (seqno+1 <= 2^32).  (Before the repair the
    addition was done in uint32 and wrapped to 0 at 2^32-1: Proofs/PoolHistory.v.)
    The comparison is monotone in the connection's seqno, so a head that advances
    between updateBest's two passes over the connections keeps the connection current. *)
Definition current_go (maxs : N) (c : conn) : bool := (maxs <=? seq32 c + 1)%N.
(** [if !c.IsOK() { continue }; if uint64(c.MasterHead().Seqno)+1 < uint64(maxSeqno) { continue }] *)
Definition usable_go (maxs : N) (c : conn) : bool := c_alive c && current_go maxs c.

(** findFirstWorkingConnection: index of the first usable connection *)
Fixpoint find_first_working (maxs : N) (cs : list conn) (i : nat) : option nat :=
  match cs with
  | [] => None
  | c :: t => if usable_go maxs c then Some i else find_first_working maxs t (S i)
  end.

(** findBestPingConnection: [bestConn == nil || c.AverageRoundTrip() < bestConn.AverageRoundTrip()];
    the accumulator is (index, rtt) of bestConn. *)
Definition better (i : nat) (c : conn) (best : option (nat * Z)) : option (nat * Z) :=
  match best with
  | None => Some (i, c_rtt c)
  | Some (_, r) => if (c_rtt c <? r)%Z then Some (i, c_rtt c) else best
  end.

Fixpoint find_best_ping (maxs : N) (cs : list conn) (i : nat) (best : option (nat * Z))
  : option (nat * Z) :=
  match cs with
  | [] => best
  | c :: t => find_best_ping maxs t (S i) (if usable_go maxs c then better i c best else best)
  end.

(** updateBest: [prev] is the index of the current bestConn in the pool ([None] = nil);
    the result is the index of the new bestConn.  updateBest reads every head TWICE: once
    for the maximum ([maxSeqno], first loop) and once more inside find* (second loop); it
    holds only the pool lock, and SetMasterHead needs only the connection lock, so a head
    can rise between the two reads.  [cs1] is what the first loop saw, [cs2] what the
    second loop sees (IsOK and AverageRoundTrip are read in the second loop only). *)
Definition update_best2 (st : strategy) (cs1 cs2 : list conn) (prev : option nat) : option nat :=
  match cs2 with
  | [] => prev                                   (* if len(p.conns) == 0 { return } *)
  | _ =>
      let m := max_seqno cs1 in
      match st with
      | BestPing =>
          match find_best_ping m cs2 0 None with Some (i, _) => Some i | None => prev end
      | FirstWorking =>
          match find_first_working m cs2 0 with Some i => Some i | None => prev end
      | OtherStrategy => prev
      end
  end.

(** no head update lands inside the call: both loops see the same heads *)
Definition update_best (st : strategy) (cs : list conn) (prev : option nat) : option nat :=
  update_best2 st cs cs prev.

(** ---- specification vocabulary (property C13, first sentence) ---- *)

(** newest head known to the pool *)
Definition newest (cs : list conn) : N := fold_right N.max 0%N (map seq32 cs).

(** alive and at most one masterchain block behind the newest head *)
Definition eligible (cs : list conn) (c : conn) : Prop :=
  c_alive c = true /\ (newest cs - seq32 c <= 1)%N.

(** the heads only rise between the two reads of updateBest (connection.masterHead is
    monotone in seqno); liveness and round-trip time are whatever the second loop observes *)
Definition heads_rose (cs1 cs2 : list conn) : Prop :=
  Forall2 (fun c1 c2 => (seq32 c1 <= seq32 c2)%N) cs1 cs2.

(** [res] is the choice the property prescribes among the connections satisfying [P] *)
Definition is_choice (st : strategy) (P : conn -> Prop) (cs : list conn)
           (prev res : option nat) : Prop :=
  match st with
  | OtherStrategy => res = prev
  | _ =>
    ((forall c, In c cs -> ~ P c) /\ res = prev) \/
    (exists i c, res = Some i /\ nth_error cs i = Some c /\ P c /\
       forall j d, nth_error cs j = Some d -> P d ->
         match st with
         | BestPing => (c_rtt c <= c_rtt d)%Z /\ (c_rtt d = c_rtt c -> i <= j)
         | _ => i <= j
         end)
  end.

(** ---- addConnection: how the pool's connection list is built ----
    [p.conns = append(p.conns, c); sort.Slice(p.conns, by ID); if len(p.conns) == 1 { p.bestConn = c }]
    InitializeConnections dials all servers concurrently and calls addConnection in the
    order the handshakes finish; the id is the index of the server in the configuration.
    Ids are pairwise different, so the result of the (unstable) sort is determined: the
    model is insertion sort on the ids. *)
Fixpoint insert_id (x : nat) (l : list nat) : list nat :=
  match l with
  | [] => [x]
  | y :: t => if Nat.leb x y then x :: l else y :: insert_id x t
  end.
Definition sort_ids (l : list nat) : list nat := fold_right insert_id [] l.
Definition add_connection (pool : list nat) (id : nat) : list nat := sort_ids (pool ++ [id]).
(** the pool after the connections arrived in the order [arrival] *)
Definition add_all (arrival : list nat) : list nat := fold_left add_connection arrival [].
(** bestConn after initialisation: the connection that arrived first *)
Definition best_after_add (arrival : list nat) : option nat := hd_error arrival.
