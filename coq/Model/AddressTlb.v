(** C17 model, part 4: TL-B MsgAddress form, anycast rewrite, JSON form.

    Anchors: tlb/messages.go (Anycast.MarshalTLB/UnmarshalTLB,
    MsgAddress.MarshalTLB/UnmarshalTLB), ton/account.go (ToMsgAddress,
    AccountIDFromTlb, MarshalJSON, UnmarshalJSON).

    A cell is its bit list here (no references are involved; every encoding
    below is shorter than 1023 bits unless the anycast depth is absurd, which
    is refused like the cell overflow it would cause).  Go's encoding/json is
    modelled for string literals without escapes only. *)
From Coq Require Import List NArith ZArith Bool.
From Tongo Require Import Lib.Bits Lib.Res Model.Address Model.Adnl.
Import ListNotations.
Local Open Scope N_scope.

(** * bit-level primitives (boc.Cell ReadUint / ReadInt / ReadBytes / ReadBits) *)
Definition take (n : nat) (l : bits) : res (bits * bits) :=
  if short n l then Err ENotEnoughBits else Ok (firstn n l, skipn n l).

(* two's complement of width [w] *)
Definition bits_of_int (w : nat) (z : Z) : bits := bits_of w (Z.to_N (z mod 2 ^ Z.of_nat w)).
Definition int_of_bits (l : bits) : Z :=
  let v := N_of_bits l in
  match l with
  | true :: _ => (Z.of_N v - 2 ^ Z.of_nat (length l))%Z
  | _ => Z.of_N v
  end.

(* bytes <-> bits, most significant bit first (regrouping of Model/Adnl.v) *)
Definition bytes_bits (bs : list N) : bits := to_bits 8 bs.
Definition bits_bytes (n : nat) (l : bits) : list N := from_bits 8 n l.

(** * tlb.MsgAddress *)
Inductive msgaddr :=
| MANone
| MAExtern (ext : bits)
| MAStd (any : option (N * N)) (wc : Z) (addr : list N)          (* anycast = (depth, rewrite_pfx) *)
| MAVar (any : option (N * N)) (len : N) (wc : Z) (a : bits).

(* Maybe Anycast: WriteLimUint(depth, 30) writes the low 5 bits of depth,
   WriteUint(pfx, depth) the low [depth] bits of pfx (zeros above bit 63) *)
Definition enc_anycast (a : option (N * N)) : res bits :=
  match a with
  | None => Ok [false]
  | Some (d, p) =>
      if 1023 <? d then Err EOverflow
      else Ok (true :: bits_of 5 d ++ bits_of (N.to_nat d) (p mod 2 ^ 64))
  end.

Definition tlb_encode (m : msgaddr) : res bits :=
  match m with
  | MANone => Ok [false; false]
  | MAExtern e =>
      if short 512 e then Ok ([false; true] ++ bits_of 9 (N.of_nat (length e)) ++ e) else Err EOther
  | MAStd any wc addr =>
      do a <- enc_anycast any;
      let r := [true; false] ++ a ++ bits_of_int 8 wc ++ bytes_bits addr in
      if short 1024 r then Ok r else Err EOverflow
  | MAVar any len wc ab =>
      do a <- enc_anycast any;
      let r := [true; true] ++ a ++ bits_of 9 len ++ bits_of_int 32 wc ++ ab in
      if short 1024 r then Ok r else Err EOverflow
  end.

(* Anycast.UnmarshalTLB: ReadLimUint(30) reads 5 bits and is not compared
   with 30; only depth 0 is refused *)
Definition dec_anycast (l : bits) : res (option (N * N) * bits) :=
  do (e, l) <- take 1 l;
  match e with
  | [true] =>
      do (d, l) <- take 5 l;
      let d := N_of_bits d in
      if d <? 1 then Err EOther
      else do (p, l) <- take (N.to_nat d) l; Ok (Some (d, N_of_bits p), l)
  | _ => Ok (None, l)
  end.

Definition tlb_decode (l : bits) : res (msgaddr * bits) :=
  do (t, l) <- take 2 l;
  match t with
  | [false; false] => Ok (MANone, l)
  | [false; true] =>
      do (n, l) <- take 9 l;
      do (e, l) <- take (N.to_nat (N_of_bits n)) l;
      Ok (MAExtern e, l)
  | [true; false] =>
      do (a, l) <- dec_anycast l;
      do (w, l) <- take 8 l;
      do (b, l) <- take 256 l;
      Ok (MAStd a (int_of_bits w) (bits_bytes 32 b), l)
  | _ =>
      do (a, l) <- dec_anycast l;
      do (n, l) <- take 9 l;
      do (w, l) <- take 32 l;
      do (b, l) <- take (N.to_nat (N_of_bits n)) l;
      Ok (MAVar a (N_of_bits n) (int_of_bits w) b, l)
  end.

(** * ToMsgAddress / AccountIDFromTlb *)
Definition int8_of_Z (z : Z) : Z := int8_of_byte (wc_byte z).      (* int8(id.Workchain) *)
Definition to_msg_address (wc : Z) (addr : list N) : msgaddr := MAStd None (int8_of_Z wc) addr.

Definition M32 : N := 2 ^ 32.
Definition shl32 (x k : N) : N := if 32 <=? k then 0 else (N.shiftl x k) mod M32.
Definition sub32 (a b : N) : N := (a + M32 - b) mod M32.
Definition be32 (bs : list N) : N := fold_left (fun acc b => acc * 256 + b) (firstn 4 bs) 0.
Definition be32_bytes (v : N) : list N :=
  [(v / 16777216) mod 256; (v / 65536) mod 256; (v / 256) mod 256; v mod 256].

(* the anycast branch of AccountIDFromTlb; depth and rewrite_pfx are uint32 *)
Definition anycast_rewrite (d p : N) (addr : list N) : list N :=
  let sh := sub32 32 (d mod M32) in
  let mask := sub32 (shl32 1 sh) 1 in
  let rewrite := shl32 (p mod M32) sh in
  be32_bytes (N.lor (N.land (be32 addr) mask) rewrite) ++ skipn 4 addr.

(* nil account for addr_none / addr_extern, error for addr_var *)
Definition account_from_tlb (m : msgaddr) : res (option (Z * list N)) :=
  match m with
  | MANone | MAExtern _ => Ok None
  | MAStd None wc addr => Ok (Some (wc, addr))
  | MAStd (Some (d, p)) wc addr => Ok (Some (wc, anycast_rewrite d p addr))
  | MAVar _ _ _ _ => Err EOther
  end.

(* bits of a cell -> AccountIDFromTlb (tlb.Unmarshal) *)
Definition account_from_tlb_bits (l : bits) : res (option (Z * list N)) :=
  do (m, _) <- tlb_decode l; account_from_tlb m.

(** * JSON form *)
Definition json_marshal (wc : Z) (addr : list N) : list N := 34 :: print_raw wc addr ++ [34].

Definition is_ws (c : N) : bool := (c =? 32) || (c =? 9) || (c =? 10) || (c =? 13).
Fixpoint drop_ws (cs : list N) : list N :=
  match cs with
  | c :: t => if is_ws c then drop_ws t else cs
  | [] => []
  end.

(* the characters up to the closing quote; a control character is invalid
   JSON; a backslash escape is NOT modelled (the model refuses it, the
   correspondence stream never contains one) *)
Fixpoint json_str_body (cs : list N) : option (list N * list N) :=
  match cs with
  | [] => None
  | c :: t =>
      if c =? 34 then Some ([], t)
      else if (c =? 92) || (c <? 32) then None
      else match json_str_body t with
           | Some (s, r) => Some (c :: s, r)
           | None => None
           end
  end.

(* UnmarshalJSON: a JSON string (surrounded by optional white space) handed to
   ParseAccountID; null leaves the empty string, every other JSON value is a
   type error: both are refused *)
Definition json_unmarshal (cs : list N) : res (Z * list N) :=
  match drop_ws cs with
  | 34 :: t =>
      match json_str_body t with
      | Some (s, r) => match drop_ws r with [] => parse_account s | _ => Err EOther end
      | None => Err EOther
      end
  | _ => Err EOther
  end.
