(** C19 — executable model of tonconnect/server.go and tonconnect/proof.go
    (TON Connect proof check), after the repair of ParseStateInit
    ("fix: ParseStateInit returns an error ..." — see Proofs/TonConnectHistory.v
    for the behaviour before the repair).

    Strings and byte slices are [list N] (one N < 256 per byte).
    Everything cryptographic or delegated to another property is a parameter:
      H       SHA-256                         (crypto/sha256)
      hmac    HMAC-SHA256 key msg             (crypto/hmac)
      verify  ed25519.Verify for a 32-byte key
      b64     base64.StdEncoding.DecodeString  (None = error)
      boc     boc.DeserializeBocBase64         (C07: parsing; cells carry their
              representation hash, C02)
      lib_ok / ext_ok  whether the dictionary hanging off a state-init /
              wallet-data cell decodes (C05)
    The clock is the parameter [now] (nanoseconds since the Unix epoch). *)
From Coq Require Import String Ascii List NArith ZArith Bool.
From Tongo Require Import Lib.Bits Lib.Res.
Import ListNotations.
Local Open Scope Z_scope.

Definition bytes := list N.

(* panic class of ed25519.Verify on a key whose length is not 32 *)
Definition PEdKeyLen : N := 5.

(** * Byte strings *)

Fixpoint beqb (a b : bytes) : bool :=
  match a, b with
  | [], [] => true
  | x :: a', y :: b' => N.eqb x y && beqb a' b'
  | _, _ => false
  end.

Fixpoint bytes_of_string (s : string) : bytes :=
  match s with
  | EmptyString => []
  | String c t => N_of_ascii c :: bytes_of_string t
  end.

Definition blen (b : bytes) : Z := Z.of_nat (length b).

Definition byte_at (u k : Z) : N := Z.to_N ((u / 2 ^ (8 * k)) mod 256).

(* binary.BigEndian.PutUint32(uint32(int32 z)) *)
Definition be32 (z : Z) : bytes :=
  let u := z mod 2 ^ 32 in [byte_at u 3; byte_at u 2; byte_at u 1; byte_at u 0].
(* binary.LittleEndian.PutUint32(uint32(n)) *)
Definition le32 (z : Z) : bytes :=
  let u := z mod 2 ^ 32 in [byte_at u 0; byte_at u 1; byte_at u 2; byte_at u 3].
(* binary.LittleEndian.PutUint64(uint64(int64 z)) *)
Definition le64 (z : Z) : bytes :=
  let u := z mod 2 ^ 64 in
  [byte_at u 0; byte_at u 1; byte_at u 2; byte_at u 3; byte_at u 4; byte_at u 5; byte_at u 6; byte_at u 7].
Definition be64 (z : Z) : bytes := rev (le64 z).

(* big-endian value of a byte string *)
Definition be_val (b : bytes) : Z := fold_left (fun a x => a * 256 + Z.of_N x) b 0.
(* int64(uint64 u) *)
Definition to_int64 (u : Z) : Z := if u <? 2 ^ 63 then u else u - 2 ^ 64.

(* big.Int.Bytes(): minimal big-endian magnitude, empty for 0 *)
Fixpoint be_min_fuel (fuel : nat) (n : N) (acc : bytes) : bytes :=
  match fuel with
  | O => acc
  | S f => if N.eqb n 0 then acc else be_min_fuel f (N.div n 256) (N.modulo n 256 :: acc)
  end.
Definition be_min (n : N) : bytes := be_min_fuel (S (N.to_nat (N.size n))) n [].

(** * encoding/hex *)

Definition nib (c : N) : option N :=
  if (N.leb 48 c && N.leb c 57)%bool then Some (c - 48)%N
  else if (N.leb 97 c && N.leb c 102)%bool then Some (c - 87)%N
  else if (N.leb 65 c && N.leb c 70)%bool then Some (c - 55)%N
  else None.

(* hex.DecodeString: None = error (odd length or a non-hex character) *)
Fixpoint hex_decode (l : bytes) : option bytes :=
  match l with
  | [] => Some []
  | [_] => None
  | a :: b :: t =>
      match nib a, nib b, hex_decode t with
      | Some x, Some y, Some r => Some ((16 * x + y)%N :: r)
      | _, _, _ => None
      end
  end.

Definition hexdigit (n : N) : N := if N.ltb n 10 then (48 + n)%N else (87 + n)%N.
Fixpoint hex_encode (l : bytes) : bytes :=
  match l with
  | [] => []
  | x :: t => hexdigit (N.div x 16) :: hexdigit (N.modulo x 16) :: hex_encode t
  end.

(** * strconv.ParseInt(s, 10, 32) *)

Definition digit (c : N) : option Z :=
  if (N.leb 48 c && N.leb c 57)%bool then Some (Z.of_N c - 48) else None.

(* value of a non-empty all-digit string; None on any other character *)
Fixpoint digits_val (acc : Z) (l : bytes) : option Z :=
  match l with
  | [] => Some acc
  | c :: t => match digit c with Some d => digits_val (acc * 10 + d) t | None => None end
  end.

Definition parse_int32 (s : bytes) : option Z :=
  let '(neg, ds) :=
    match s with
    | 43%N :: t => (false, t)      (* '+' *)
    | 45%N :: t => (true, t)       (* '-' *)
    | _ => (false, s)
    end in
  match ds with
  | [] => None
  | _ =>
    match digits_val 0 ds with
    | None => None
    | Some n =>
        (* values above 2^64-1 are a range error as well: subsumed *)
        if neg then (if n <=? 2 ^ 31 then Some (- n) else None)
        else (if n <? 2 ^ 31 then Some n else None)
    end
  end.

(** * Splitting an address at ':' (58) *)

Fixpoint split_colon (cur : bytes) (l : bytes) : list bytes :=
  match l with
  | [] => [rev cur]
  | c :: t => if N.eqb c 58 then rev cur :: split_colon [] t else split_colon (c :: cur) t
  end.

(** * Proof structures *)

Record proof := mkProof {
  p_address : bytes;      (* Proof.Address *)
  p_ts : Z;               (* Proof.Proof.Timestamp, int64 *)
  p_domain : bytes;
  p_signature : bytes;    (* base64 text *)
  p_payload : bytes;      (* text, as issued by GeneratePayload *)
  p_state_init : bytes    (* base64 BOC text, may be empty *)
}.

Record parsed := mkParsed {
  m_wc : Z;
  m_addr : bytes;
  m_ts : Z;
  m_domain : bytes;
  m_sig : bytes;
  m_payload : bytes
}.

Definition tonProofPrefix : bytes := bytes_of_string "ton-proof-item-v2/".
Definition tonConnectPrefix : bytes := bytes_of_string "ton-connect".
Definition defaultLifeTimeProof : Z := 300.
Definition defaultLifeTimePayload : Z := 300.

(* NewTonConnect: 0 means default *)
Definition lifetime_or_default (configured dflt : Z) : Z := if configured =? 0 then dflt else configured.

(** * convertTonProofMessage *)

Definition convert (b64 : bytes -> option bytes) (tp : proof) : res parsed :=
  match split_colon [] (p_address tp) with
  | [w; a] =>
      match parse_int32 w with
      | None => Err EOther
      | Some wc =>
        match hex_decode a with
        | None => Err EInvalidHex
        | Some addr =>
          match b64 (p_signature tp) with
          | None => Err EOther
          | Some sig =>
              Ok (mkParsed wc addr (p_ts tp) (p_domain tp) sig (p_payload tp))
          end
        end
      end
  | _ => Err EOther
  end.

(** * ton.ParseAccountID on a string that contains ':' : only AccountIDFromRaw can
      succeed, because base64.URLEncoding rejects ':' (AccountIDFromBase64Url). *)

Fixpoint index_colon_go (cur l : bytes) : option (bytes * bytes) :=
  match l with
  | [] => None
  | c :: t => if N.eqb c 58 then Some (rev cur, t) else index_colon_go (c :: cur) t
  end.
Definition index_colon (l : bytes) : option (bytes * bytes) := index_colon_go [] l.

Definition pad_hex64 (h : bytes) : bytes := repeat 48%N (64 - length h) ++ h.

Definition parse_account_id (s : bytes) : res (Z * bytes) :=
  match index_colon s with
  | None => Err EOther
  | Some (w, h) =>
      match parse_int32 w with
      | None => Err EOther
      | Some wc =>
          match hex_decode (pad_hex64 h) with
          | None => Err EInvalidHex
          | Some a => if Nat.eqb (length a) 32 then Ok (wc, a) else Err EOther
          end
      end
  end.

(** * createMessage *)

Definition message_layout (p : parsed) : bytes :=
  tonProofPrefix ++ be32 (m_wc p) ++ m_addr p ++ le32 (blen (m_domain p)) ++ m_domain p
  ++ le64 (m_ts p) ++ m_payload p.

Definition create_message (H : bytes -> bytes) (p : parsed) : bytes :=
  H ([255; 255]%N ++ tonConnectPrefix ++ H (message_layout p)).

(** * time.Since(time.Unix(ts, 0)) > time.Duration(lifetime) * time.Second *)

Definition unixToInternal : Z := 62135596800.
Definition wrap64 (z : Z) : Z := (z + 2 ^ 63) mod 2 ^ 64 - 2 ^ 63.
Definition clamp64 (z : Z) : Z := Z.max (- 2 ^ 63) (Z.min (2 ^ 63 - 1) z).
Definition giga : Z := 1000000000.

(* Duration returned by time.Since(time.Unix(ts,0)) when the wall clock shows now (ns) *)
Definition since (now ts : Z) : Z :=
  let s := now / giga in
  let ns := now mod giga in
  let tsi := wrap64 (ts + unixToInternal) - unixToInternal in
  clamp64 ((s - tsi) * giga + ns).

Definition expired (now ts lifetime : Z) : bool := since now ts >? wrap64 (lifetime * giga).

(** * GeneratePayload / CheckPayload *)

(* nonce: the 8 random bytes; Add(Duration(lifetime)) adds lifetime NANOseconds *)
Definition generate_payload (hmac : bytes -> bytes -> bytes) (secret nonce : bytes) (lifetime now : Z) : bytes :=
  let body := nonce ++ be64 ((now + lifetime) / giga) in
  hex_encode (firstn 32 (body ++ hmac secret body)).

(* result: Ok verified; the error value of CheckPayload is ignored by CheckProof *)
Definition check_payload (hmac : bytes -> bytes -> bytes) (secret : bytes) (lifetime now : Z)
           (payload : bytes) : res bool :=
  match hex_decode payload with
  | None => Ok false
  | Some b =>
      if negb (Nat.eqb (length b) 32) then Ok false
      else
        let mac := hmac secret (firstn 16 b) in
        if (length mac <? 16)%nat then Panic PSlice     (* computedSignature[:16] *)
        else if negb (beqb (skipn 16 b) (firstn 16 mac)) then Ok false
        else Ok (negb (expired now (to_int64 (be_val (firstn 8 (skipn 8 b)))) lifetime))
  end.

(* StaticDomain *)
Definition static_domain (d : bytes) (s : bytes) : res bool := Ok (beqb s d).

(** * get_public_key through the executor *)

Inductive stk := StTiny (z : Z) | StInt (z : Z) | StOther.
Inductive exec_result := ExErr | ExRet (code : N) (stack : list stk).

Definition key_of_int (z : Z) : option bytes :=
  let b := be_min (Z.abs_N z) in
  let l := length b in
  if ((l <? 24) || (32 <? l))%nat then None else Some (repeat 0%N (32 - l) ++ b).

Definition get_wallet_pubkey (r : exec_result) : option bytes :=
  match r with
  | ExErr => None
  | ExRet code st =>
      if negb (N.eqb code 0 || N.eqb code 1) then None
      else match st with
           | [StTiny z] => key_of_int z
           | [StInt z] => key_of_int z
           | _ => None
           end
  end.

(** * Cells as delivered by the BOC parser *)

Inductive cell := Cell (ty : N) (bits : list bool) (refs : list cell) (hash : option bytes).
Definition c_ty (c : cell) := let '(Cell t _ _ _) := c in t.
Definition c_bits (c : cell) := let '(Cell _ b _ _) := c in b.
Definition c_refs (c : cell) := let '(Cell _ _ r _) := c in r.
Definition c_hash (c : cell) := let '(Cell _ _ _ h) := c in h.

Definition TyPruned : N := 1.
Definition TyLibrary : N := 2.

(* representation hash of the empty ordinary cell (zero value of boc.Cell) *)
Definition empty_cell_hash : bytes :=
  [150;162;150;210;36;242;133;198;123;238;147;195;15;138;48;145;
   87;240;218;163;93;197;184;126;65;11;120;99;10;9;207;199]%N.
Definition zero_cell : cell := Cell 0 [] [] (Some empty_cell_hash).

Definition rd := (list bool * list cell)%type.
Definition rd_bit (r : rd) : res (bool * rd) :=
  match fst r with [] => Err ENotEnoughBits | b :: t => Ok (b, (t, snd r)) end.
Definition rd_skip (n : nat) (r : rd) : res rd :=
  if (length (fst r) <? n)%nat then Err ENotEnoughBits else Ok (skipn n (fst r), snd r).
Definition rd_ref (r : rd) : res (cell * rd) :=
  match snd r with [] => Err ENotEnoughRefs | c :: t => Ok (c, (fst r, t)) end.

(* Maybe[Ref[boc.Cell]]: a pruned branch decodes to the zero value *)
Definition rd_maybe_ref (r : rd) : res (option cell * rd) :=
  do (b, r1) <- rd_bit r;
  if b then
    do (c, r2) <- rd_ref r1;
    Ok (Some (if N.eqb (c_ty c) TyPruned then zero_cell else c), r2)
  else Ok (None, r1).

(* tlb.Unmarshal(root, &tlb.StateInit{}) : (code, data) *)
Definition parse_state_init (lib_ok : cell -> bool) (root : cell) : res (option cell * option cell) :=
  if N.eqb (c_ty root) TyLibrary then Err EOther
  else
    do (sd, r1) <- rd_bit (c_bits root, c_refs root);
    do r2 <- (if sd then rd_skip 5 r1 else Ok r1);
    do (sp, r3) <- rd_bit r2;
    do r4 <- (if sp then rd_skip 2 r3 else Ok r3);
    do (code, r5) <- rd_maybe_ref r4;
    do (data, r6) <- rd_maybe_ref r5;
    do (lb, r7) <- rd_bit r6;
    if lb then
      do (_, _) <- rd_ref r7;
      if lib_ok root then Ok (code, data) else Err EOther
    else Ok (code, data).

(* position of the public key in the wallet data, and whether a HashmapE follows it *)
Record layout := mkLayout { l_off : nat; l_dict : bool }.

Fixpoint bytes_of_bits (fuel : nat) (l : list bool) : bytes :=
  match fuel with
  | O => []
  | S f => N_of_bits (firstn 8 l) :: bytes_of_bits f (skipn 8 l)
  end.

Definition data_key (ext_ok : cell -> bool) (l : layout) (d : cell) : res bytes :=
  if N.eqb (c_ty d) TyLibrary then Err EOther
  else if (length (c_bits d) <? l_off l + 256)%nat then Err ENotEnoughBits
  else
    let key := bytes_of_bits 32 (skipn (l_off l) (c_bits d)) in
    if l_dict l then
      match skipn (l_off l + 256) (c_bits d) with
      | [] => Err ENotEnoughBits
      | false :: _ => Ok key
      | true :: _ =>
          match c_refs d with
          | [] => Err ENotEnoughRefs
          | _ => if ext_ok d then Ok key else Err EOther
          end
      end
    else Ok key.

(* knownHashes joined with the switch of ParseStateInit: code hash -> Some layout, or
   None for a version that is in knownHashes but has no case in the switch *)
Definition known_table := list (bytes * option layout).

Fixpoint lookup (h : bytes) (t : known_table) : option (option layout) :=
  match t with
  | [] => None
  | (k, v) :: t' => if beqb h k then Some v else lookup h t'
  end.

Section StateInit.
  Variable boc : bytes -> res (list cell).
  Variable lib_ok ext_ok : cell -> bool.
  Variable known : known_table.

  (* ParseStateInit (repaired) *)
  Definition parse_state_init_key (si : bytes) : res bytes :=
    do cells <- boc si;
    match cells with
    | [root] =>
        do (code, data) <- parse_state_init lib_ok root;
        match code, data with
        | Some c, Some d =>
            match c_hash c with
            | None => Err EOther
            | Some h =>
                match lookup h known with
                | None => Err EOther               (* unknown hash *)
                | Some None => Err EOther          (* unsupported wallet version *)
                | Some (Some l) => data_key ext_ok l d
                end
            end
        | _, _ => Err EOther                       (* no code or data *)
        end
    | _ => Err EOther
    end.

  (* compareStateInitWithAddress *)
  Definition compare_state_init (addr : bytes) (si : bytes) : res bool :=
    do cells <- boc si;
    match cells with
    | [root] => match c_hash root with None => Err EOther | Some h => Ok (beqb h addr) end
    | _ => Err EOther
    end.
End StateInit.

(** * ed25519.Verify *)
Definition ed_verify (verify : bytes -> bytes -> bytes -> bool) (pk msg sig : bytes) : res bool :=
  if Nat.eqb (length pk) 32 then Ok (verify pk msg sig) else Panic PEdKeyLen.

(** * CheckProof *)

Inductive key_source := FromGetMethod | FromStateInit.

Section CheckProof.
  Variable H : bytes -> bytes.
  Variable verify : bytes -> bytes -> bytes -> bool.
  Variable b64 : bytes -> option bytes.
  Variable boc : bytes -> res (list cell).
  Variable lib_ok ext_ok : cell -> bool.
  Variable known : known_table.
  Variable exec : Z * bytes -> exec_result.      (* the abi.Executor, per account *)
  Variable cp : bytes -> res bool.               (* checkPayload *)
  Variable cd : bytes -> res bool.               (* checkDomain *)
  Variable lifetime : Z.                         (* s.lifeTimeProof *)
  Variable now : Z.

  Definition wallet_key (acc : Z * bytes) (si : bytes) : res (bytes * key_source) :=
    match get_wallet_pubkey (exec acc) with
    | Some k => Ok (k, FromGetMethod)
    | None =>
        match si with
        | [] => Err EOther
        | _ =>
            do ok <- compare_state_init boc (snd acc) si;
            if negb ok then Err EOther
            else
              match parse_state_init_key boc lib_ok ext_ok known si with
              | Ok k => Ok (k, FromStateInit)
              | Err e => Err e
              | Panic p => Panic p
              end
        end
    end.

  (* Ok (pk, source) = (true, pk, nil); Err = (false, nil, err) *)
  Definition check_proof_src (tp : proof) : res (bytes * key_source) :=
    do verified <- cp (p_payload tp);
    if negb verified then Err EOther
    else
      do pm <- convert b64 tp;
      if expired now (m_ts pm) lifetime then Err EOther
      else
        do ok <- cd (m_domain pm);
        if negb ok then Err EOther
        else
          do acc <- parse_account_id (p_address tp);
          do ks <- wallet_key acc (p_state_init tp);
          do v <- ed_verify verify (fst ks) (create_message H pm) (m_sig pm);
          if v then Ok ks else Err EOther.

  Definition check_proof (tp : proof) : res bytes := res_map fst (check_proof_src tp).
End CheckProof.

(** * Histories of calls on one Server
    tonconnect.Server has no mutable state: a call is a function of the call itself, the
    configuration, the executor's answer and the clock.  A history threads a server state
    through the calls; the state of the model is [unit]. *)
Fixpoint run_history {S C R} (step : S -> C -> S * R) (st : S) (calls : list C) : S * list R :=
  match calls with
  | [] => (st, [])
  | c :: t =>
      let '(st1, r) := step st c in
      let '(st2, rs) := run_history step st1 t in
      (st2, r :: rs)
  end.

(* one call of a history: the executor's answer, the clock and the proof *)
Record call := mkCall { k_exec : Z * bytes -> exec_result; k_now : Z; k_proof : proof }.

Section ServerHistory.
  Variable H : bytes -> bytes.
  Variable verify : bytes -> bytes -> bytes -> bool.
  Variable hmac : bytes -> bytes -> bytes.
  Variable b64 : bytes -> option bytes.
  Variable boc : bytes -> res (list cell).
  Variable lib_ok ext_ok : cell -> bool.
  Variable known : known_table.
  Variable secret domain : bytes.
  Variable lt_proof lt_payload : Z.

  Definition server_call (c : call) : res bytes :=
    check_proof H verify b64 boc lib_ok ext_ok known (k_exec c)
      (check_payload hmac secret lt_payload (k_now c)) (static_domain domain) lt_proof (k_now c) (k_proof c).

  Definition server_step (st : unit) (c : call) : unit * res bytes := (st, server_call c).
  Definition server_history (calls : list call) : list (res bytes) := snd (run_history server_step tt calls).
End ServerHistory.

(** * CreateSignedProof (client side) *)

Definition create_signed_proof (H : bytes -> bytes) (sign : bytes -> bytes -> bytes)
           (b64 : bytes -> option bytes) (b64enc : bytes -> bytes)
           (sk address : bytes) (ts : Z) (domain payload state_init : bytes) : res proof :=
  let tp := mkProof address ts domain [] payload state_init in
  do pm <- convert b64 tp;
  Ok (mkProof address ts domain (b64enc (sign sk (create_message H pm))) payload state_init).

(* AccountID.ToRaw: fmt.Sprintf("%v:%x", workchain, address) *)
Fixpoint dec_digits (fuel : nat) (n : Z) (acc : bytes) : bytes :=
  match fuel with
  | O => acc
  | S f =>
      let acc' := Z.to_N (48 + n mod 10) :: acc in
      if n / 10 =? 0 then acc' else dec_digits f (n / 10) acc'
  end.
Definition print_int (z : Z) : bytes :=
  if z <? 0 then 45%N :: dec_digits 20 (- z) [] else dec_digits 20 z [].
Definition to_raw (wc : Z) (addr : bytes) : bytes := print_int wc ++ [58%N] ++ hex_encode addr.

(** * The wallet table: knownHashes (version -> code hash, from the source via the
      translator) joined with the switch of ParseStateInit (read from the source by hand
      here; Properties/C19_gen.v checks it against the translated switch). *)
Definition version_layout (v : N) : option layout :=
  if N.leb v 4 then Some (mkLayout 32 false)                 (* V1R1 V1R2 V1R3 V2R1 V2R2: DataV1V2 *)
  else if N.eqb v 5 || N.eqb v 6 then Some (mkLayout 64 false)   (* V3R1 V3R2: DataV3 *)
  else if N.eqb v 8 || N.eqb v 9 then Some (mkLayout 64 false)   (* V4R1 V4R2: DataV3 *)
  else if N.eqb v 10 then Some (mkLayout 113 true)           (* V5Beta: DataV5Beta *)
  else if N.eqb v 11 then Some (mkLayout 65 true)            (* V5R1: DataV5R1 *)
  else None.                                                 (* V3R2Lockup (7): no case *)

Definition known_of (hashes : list (N * bytes)) : known_table :=
  map (fun vh => (snd vh, version_layout (fst vh))) hashes.
