(** Histories of builder operations and serialisations over a set of named
    cells (C01).  Go cells are mutable builders: bits can be appended and
    references added to a cell that has already been serialised, and the same
    *Cell can be serialised again, alone or inside other cells.  A slot of the
    array [st] is one Go pointer (slot k = the k-th cell the harness created
    with boc.NewCell()); references point to greater slots, so at every moment
    the array is a cell array in BOC order and is all the serialiser model
    needs.

    The point of this file is what it does NOT contain: there is no component
    of the state that a serialisation writes.  [hist_run] threads the array
    only; a request (Cell.ToBoc, Cell.ToBocCustom, boc.SerializeBoc,
    Cell.ToBocCustomWithHasher with a caller-supplied hasher) is answered by
    [serialize] on the array as it is now, with the hashes [hf st] of the array
    as it is now.  [hf] is the hash supply as a function of the structure
    (Harness/H01h.v instantiates it with SHA-256 representation hashes). *)
From Coq Require Import List NArith Arith Bool.
From Tongo Require Import Lib.Bits Lib.Res Model.BocParse Model.CellHash Model.BocSer Spec.BocLayout.
Import ListNotations.

Inductive hstep :=
| HWrite (k : nat) (b : bits)                       (* cell k: WriteBit for every bit of b *)
| HRef (k j : nat)                                  (* cell k: AddRef(cell j) *)
| HType (k : nat) (special : bool) (mask : N)       (* cell k: set exotic flag (type = first data byte) and level mask *)
| HSer (api : nat) (k : nat) (idx crc cache : bool) (hasher : nat).
   (* api 0: Cell.ToBoc (no options)   1: Cell.ToBocCustom   2: boc.SerializeBoc
          3: Cell.ToBocCustomWithHasher with the caller's hasher number [hasher] *)

Definition empty_cell : node := mknode false 0 0 [] [].
Definition hist_init (K : nat) : list node := repeat empty_cell K.

Definition with_bits (nd : node) (b : bits) : node :=
  mknode (n_special nd) (n_type nd) (n_mask nd) b (n_refs nd).
Definition with_nrefs (nd : node) (r : list nat) : node :=
  mknode (n_special nd) (n_type nd) (n_mask nd) (n_bits nd) r.
Definition with_type (nd : node) (special : bool) (ty mask : N) : node :=
  mknode special ty mask (n_bits nd) (n_refs nd).

(* the builder operations; [None]: the operation is refused (more than 1023
   bits, more than 4 references, a reference that does not point forward, an
   exotic flag on a cell without a non-zero type byte, a mask above 7) *)
Definition hist_mutate (st : list node) (s : hstep) : option (list node) :=
  match s with
  | HWrite k b =>
      match nth_error st k with
      | Some nd =>
          if (length (n_bits nd) + length b <=? 1023)%nat
          then Some (set_nth k (with_bits nd (n_bits nd ++ b)) st) else None
      | None => None
      end
  | HRef k j =>
      match nth_error st k with
      | Some nd =>
          if (k <? j)%nat && (j <? length st)%nat && (length (n_refs nd) <? 4)%nat
          then Some (set_nth k (with_nrefs nd (n_refs nd ++ [j])) st) else None
      | None => None
      end
  | HType k special mask =>
      match nth_error st k with
      | Some nd =>
          if (mask <? 8)%N then
            if special then
              let ty := first_byte (n_bits nd) in
              if (8 <=? length (n_bits nd))%nat && negb (N.eqb ty 0)
              then Some (set_nth k (with_type nd true ty mask) st) else None
            else Some (set_nth k (with_type nd false 0 mask) st)
          else None
      | None => None
      end
  | HSer _ _ _ _ _ _ => Some st
  end.

Section Hist.
Variable hf : list node -> list (res bytes).    (* level-3 hashes of a cell array *)

(* one serialisation request on the array as it is *)
Definition ser_request (st : list node) (api k : nat) (idx crc cache : bool) : res bytes :=
  if Nat.eqb api 0 then serialize st (hf st) [k] false false false
  else serialize st (hf st) [k] idx crc cache.

Definition request_ok (st : list node) (s : hstep) : bool :=
  match s with
  | HSer api k _ _ _ _ => (api <=? 3)%nat && (k <? length st)%nat
  | _ => true
  end.

(* answers of the serialisation requests of a history, in order, each with the
   array it was asked on and the root slot *)
Fixpoint hist_run (st : list node) (steps : list hstep)
  : option (list node * list (list node * nat * res bytes)) :=
  match steps with
  | [] => Some (st, [])
  | s :: t =>
      if request_ok st s then
        match hist_mutate st s with
        | Some st' =>
            match hist_run st' t with
            | Some (stf, outs) =>
                match s with
                | HSer api k idx crc cache _ => Some (stf, (st, k, ser_request st api k idx crc cache) :: outs)
                | _ => Some (stf, outs)
                end
            | None => None
            end
        | None => None
        end
      else None
  end.

(* the array after a history: only the builder operations count *)
Fixpoint hist_state (st : list node) (steps : list hstep) : option (list node) :=
  match steps with
  | [] => Some st
  | s :: t => match hist_mutate st s with Some st' => hist_state st' t | None => None end
  end.

End Hist.
