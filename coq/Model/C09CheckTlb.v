(** C09, TL-B half: the decidable check run on every (declaration, generated Go
    type) pair.  [s] is the meaning of the declaration (a term of
    Spec/TlbSchema.v, written by the harness from the TL-B documentation), [d]
    the descriptor harness/tlbdesc reads off the compiled Go type by
    reflection.  [refines] makes the encoder bit-exact with the schema (C04);
    [wf_ty] makes the decoder invert the encoder (C03: tags first-match safe,
    rest-of-cell types only in tail position, widths positive).
    Definitions only; statements in Properties/C09_tlb.v. *)
From Coq Require Import List NArith Bool.
From Tongo Require Import Lib.Bits Lib.Res Model.TlbCore Spec.TlbSchema.
Import ListNotations.

Definition tlb_check_list (s : schema) (d : ty) : list bool :=
  [ refines (fuel_of [] d) s d; wf_ty [] d ].

Definition tlb_check (s : schema) (d : ty) : bool :=
  forallb (fun b : bool => b) (tlb_check_list s d).
