(** Model of the address / send side of package wallet (C15):
    wallets_common.go (generateStateInit, generateAddress), the data structs of
    every version, wallet.go (New, GenerateWalletAddress, GenerateStateInit,
    SendV2, RawSendV2 incl. the confirmation loop after the repair of its error
    test), NextMessageParams of every version.

    [code v] is the code cell of version v (translated from wallet/models.go,
    Generated/WalletCodes.v); the blockchain interface is a scripted history. *)
From Coq Require Import List NArith ZArith Arith Bool.
From Tongo Require Import Lib.Bits Lib.Res Model.BocParse Model.CellHash Spec.ReprHash Model.Wallet.
From Tongo Require Spec.Dict Model.Hashmap.
Import ListNotations.

Definition ETimeout : N := 63.      (* "waiting confirmation timeout" *)
Definition EChain : N := 64.        (* an error of the blockchain interface *)

(* int32(workchain) of a Go int *)
Definition int32_of (z : Z) : Z := ((z + 2147483648) mod 4294967296 - 2147483648)%Z.

(** *** initial data per version (seqno 0, ids, public key, empty dictionaries) *)
Definition pk_bits (w : wallet) : bits := fit 256 (w_pk w).      (* publicKeyToBits: copy *)

Definition data_bits (w : wallet) : res bits :=
  match w_ver w with
  | V1R1 | V1R2 | V1R3 | V2R1 | V2R2 => Ok (u32 0 ++ pk_bits w)
  | V3R1 | V3R2 => Ok (u32 0 ++ u32 (w_sub w) ++ pk_bits w)
  | V4R1 | V4R2 => Ok (u32 0 ++ u32 (w_sub w) ++ pk_bits w ++ [false])
  | V5Beta => Ok (bits_of 33 0 ++ u32 (w_net w) ++ u8 (Z.to_N (w_wc w mod 256)) ++ u8 0 ++
                  u32 (w_sub w) ++ pk_bits w ++ [false])
  | V5R1 => Ok ([true] ++ u32 0 ++ u32 (w_wid w) ++ pk_bits w ++ [false])
  | HLV2R2 => Ok (u32 (w_sub w) ++ u64 0 ++ pk_bits w ++ [false])
  | _ => Err EWallet
  end.

Definition data_cell (w : wallet) : res cell := do b <- data_bits w; mk b [].

(* tlb.StateInit{Code, Data}: split_depth nothing, special nothing, code just ^,
   data just ^, library empty *)
Definition stateinit_bits : bits := [false; false; true; true; false].

Section Send.
Variable code : version -> cell.
Variable chash : cell -> res bytes.

Definition state_init (w : wallet) : res cell :=
  do d <- data_cell w; mk stateinit_bits [code (w_ver w); d].

(* generateAddress: (int32(workchain), hash of the state-init cell) *)
Definition address (w : wallet) : res (Z * bytes) :=
  do si <- state_init w; do h <- chash si; Ok (int32_of (w_wc w), h).

(* wallet.New(key, ver, chain, opts...).GetAddress() with pk = key.Public() *)
Definition api_new (pk : bits) (v : version) (o : options) : res (Z * bytes) :=
  do w <- new_wallet pk v o; address w.

(* GenerateWalletAddress(key, ver, networkGlobalID, workchain, subWalletId) *)
Definition api_generate_address (pk : bits) (v : version) (net : option Z) (wc : Z) (sub : option N)
  : res (Z * bytes) :=
  do w <- new_wallet pk v (mkopt (Some wc) sub net); address w.

(* GenerateStateInit: an unsupported version gives the zero StateInit and no
   error (the error of newWallet is dropped) *)
Definition api_generate_state_init (pk : bits) (v : version) (net : option Z) (wc : Z) (sub : option N)
  : res cell :=
  match new_wallet pk v (mkopt (Some wc) sub net) with
  | Ok w => state_init w
  | _ => Ok (ocell (zeros 5) [])
  end.

(** *** mnemonic -> key (wallet/seed.go SeedToPrivateKey).  The two PBKDF2 results
    (version byte, 32-byte Ed25519 seed) are oracles; what the library decides
    itself: at least 12 space-separated words (strings.Split) and version byte 0 *)
Definition count_words (s : bytes) : nat := S (length (filter (N.eqb 32) s)).
Definition seed_accepted (s : bytes) (version_byte : N) : bool :=
  (12 <=? count_words s)%nat && N.eqb version_byte 0.
(* DefaultWalletFromSeed: the v4r2 wallet of the derived key, default options *)
Definition api_from_seed (s : bytes) (version_byte : N) (derived_pk : bits) : res (Z * bytes) :=
  if seed_accepted s version_byte then api_new derived_pk V4R2 (mkopt None None None) else Err EWallet.

(** *** account state and NextMessageParams *)
Inductive acct := ANone | AUninit | AFrozen | AActive (data : cell).

(* HashmapE[K, V] read from the rest of a data cell: the keys in the order
   Keys() returns them.  A value that is too short for V fails the whole decode
   (V = Any: 0 bits, Uint1: 1, Uint8: 8). *)
Definition dict_keys (n vbits : nat) (l : bits) (refs : list cell) : res (list bits) :=
  do b <- take 1 l;
  if nth 0 (fst b) false then
    match refs with
    | [] => Err ENotEnoughRefs
    | r :: _ =>
        match to_dict r with
        | None => Err EUnmodelled
        | Some d =>
            do kvs <- Hashmap.decode Hashmap.vdec_any n d;
            if forallb (fun kv => match snd kv with Dict.Cell vb _ => negb (short vbits vb) end) kvs
            then Ok (map fst kvs) else Err ENotEnoughBits
        end
    end
  else Ok [].

(* the fields of the version's data struct (DataV3, DataV4, DataV5Beta,
   DataV5R1, DataHighloadV2): seqno, sub-wallet / wallet id (v5 beta: the 80 bits
   of WalletV5ID), public key, signature-allowed flag (v5r1), last-cleaned
   time (highload), dictionary keys *)
Record wdata := mkwd { wd_seqno : N; wd_id : N; wd_pk : bits; wd_flag : bool; wd_extra : N;
                       wd_keys : list bits }.

Definition decode_data (v : version) (d : cell) : res wdata :=
  match v with
  | V3R1 | V3R2 =>
      do s <- take 32 (cdata d); do a <- take 32 (snd s); do k <- take 256 (snd a);
      Ok (mkwd (N_of_bits (fst s)) (N_of_bits (fst a)) (fst k) false 0 [])
  | V4R1 | V4R2 =>
      do s <- take 32 (cdata d); do a <- take 32 (snd s); do k <- take 256 (snd a);
      do ks <- dict_keys 264 0 (snd k) (crefs d);
      Ok (mkwd (N_of_bits (fst s)) (N_of_bits (fst a)) (fst k) false 0 ks)
  | V5Beta =>
      do s <- take 33 (cdata d); do a <- take 80 (snd s); do k <- take 256 (snd a);
      do ks <- dict_keys 256 8 (snd k) (crefs d);
      Ok (mkwd (N_of_bits (fst s)) (N_of_bits (fst a)) (fst k) false 0 ks)
  | V5R1 =>
      do f <- take 1 (cdata d);
      do s <- take 32 (snd f); do a <- take 32 (snd s); do k <- take 256 (snd a);
      do ks <- dict_keys 256 1 (snd k) (crefs d);
      Ok (mkwd (N_of_bits (fst s)) (N_of_bits (fst a)) (fst k) (nth 0 (fst f) false) 0 ks)
  | HLV2R2 =>
      do a <- take 32 (cdata d); do t <- take 64 (snd a); do k <- take 256 (snd t);
      do ks <- dict_keys 64 0 (snd k) (crefs d);
      Ok (mkwd 0 (N_of_bits (fst a)) (fst k) false (N_of_bits (fst t)) ks)
  | _ => Err EWallet
  end.

(* the seqno NextMessageParams takes: the whole struct must decode; v5 beta
   keeps a 33-bit field and converts with uint32(...) *)
Definition seqno_of_data (v : version) (d : cell) : res N :=
  match v with
  | V3R1 | V3R2 | V4R1 | V4R2 | V5R1 => do x <- decode_data v d; Ok (wd_seqno x)
  | V5Beta => do x <- decode_data v d; Ok (wd_seqno x mod 4294967296)%N
  | _ => Err EWallet
  end.

Definition next_params (w : wallet) (st : acct) : res (N * option cell) :=
  match w_ver w with
  | V3R1 | V3R2 | V4R1 | V4R2 | V5Beta | V5R1 =>
      match st with
      | AActive d => do s <- seqno_of_data (w_ver w) d; Ok (s, None)
      | _ => do si <- state_init w; Ok (0%N, Some si)
      end
  | HLV2R2 =>
      match st with
      | ANone | AUninit => do si <- state_init w; Ok (0%N, Some si)
      | _ => Ok (0%N, None)
      end
  | V1R1 | V1R2 | V1R3 | V2R1 | V2R2 => Panic PExplicit          (* panic("implement me") *)
  | _ => Err EWallet
  end.

(** *** the polled account record.  Applications obtain the account state by
    tlb.Unmarshal into a variable they reuse across polls.  decodeSumType sets
    the outer tag (AccountNone / Account) and decodes the chosen variant only: the
    Account variant keeps whatever an earlier poll left in it.  Account.Status()
    looks at the outer tag first, then at the state tag of the Account variant
    (an empty tag panics). *)
Record acct_var := mkav {
  av_none : bool;                 (* SumType = "AccountNone" *)
  av_inner : option acct          (* Account.Storage.State: uninit / frozen / active data; None = never decoded *)
}.
Definition fresh_var : acct_var := mkav false None.
Definition decode_into (v : acct_var) (rec : acct) : acct_var :=
  match rec with
  | ANone => mkav true (av_inner v)
  | st => mkav false (Some st)
  end.
Definition var_status (v : acct_var) : res acct :=
  if av_none v then Ok ANone
  else match av_inner v with Some st => Ok st | None => Panic PExplicit end.
Definition next_params_var (w : wallet) (v : acct_var) : res (N * option cell) :=
  do st <- var_status v; next_params w st.

(** *** confirmation loop.  A history is the list of polls: the elapsed time
    the loop condition reads before the poll, and the answer of GetSeqno (None =
    error).  The list ends where the clock passes the deadline for good. *)
Definition poll := (Z * option N)%type.

Fixpoint confirm (wait : Z) (sent : N) (h : list poll) : bool :=
  match h with
  | [] => false
  | (t, a) :: rest =>
      if (t <? wait)%Z then
        match a with
        | Some s => if (sent <? s)%N then true else confirm wait sent rest
        | None => confirm wait sent rest
        end
      else false
  end.

Section Crypto.
Variable SK : Type.
Variable sign : SK -> bytes -> bits.

(* result of a send: what SendMessage received (if it was called) and the
   returned (hash, error) *)
Definition sent := (option cell * res bytes)%type.

Definition raw_send_v2 (w : wallet) (sk : SK) (wc : Z) (addr : bits) (seqno : N) (valid : Z)
           (ms : list rawmsg) (init : option cell) (rnd : N)
           (wait : Z) (send_err : bool) (hist : list poll) : sent :=
  match raw_send_msg SK chash sign w sk wc addr seqno valid ms init rnd with
  | Ok (h, e) =>
      if send_err then (Some e, Err EChain)
      else if (wait =? 0)%Z then (Some e, Ok h)
      else match w_ver w with
           | HLV2R2 => (Some e, Err EWallet)
           | _ => if confirm wait seqno hist then (Some e, Ok h) else (Some e, Err ETimeout)
           end
  | Err x => (None, Err x)
  | Panic p => (None, Panic p)
  end.

(* SendV2; [st] = None when GetAccountState fails.  The messages are already
   cells (Sendable.ToInternal + Marshal), valid = now + lifetime *)
Definition send_v2 (w : wallet) (sk : SK) (st : option acct) (ms : list rawmsg) (valid : Z) (rnd : N)
           (wait : Z) (send_err : bool) (hist : list poll) : sent :=
  match st with
  | None => (None, Err EChain)
  | Some a =>
      match next_params w a, address w with
      | Ok (seqno, init), Ok (wc, h) =>
          raw_send_v2 w sk wc (bytes_to_bits h) seqno valid ms init rnd wait send_err hist
      | Panic p, _ => (None, Panic p)
      | Err x, _ => (None, Err x)
      | _, Err x => (None, Err x)
      | _, Panic p => (None, Panic p)
      end
  end.

(* SendV2 / Send with the clock: expiry = now + the wallet's configured lifetime *)
Definition api_send_v2 (w : wallet) (sk : SK) (life_ns now_ns : Z) (st : option acct) (ms : list rawmsg)
           (rnd : N) (wait : Z) (send_err : bool) (hist : list poll) : sent :=
  send_v2 w sk st ms (expiry now_ns life_ns) rnd wait send_err hist.

End Crypto.

(** *** one Wallet object used many times.  The object is immutable after New:
    every method computes its answer from (version, key, workchain, ids) alone and
    hands out fresh values, so what a caller does to a returned value cannot
    reach later answers.  [wop] are the calls of a history; [OMutate c] is the
    caller overwriting, in place, the state-init it was handed last with c;
    [ORekey pk] is the caller reusing the private-key buffer it gave to New (New
    took the public key by value: key.Public() copies). *)
Inductive wop :=
| OStateInit                 (* w.StateInit() *)
| OMutate (c : cell)         (* *si = ...  on the value returned last *)
| OAddress                   (* w.GetAddress() *)
| ONext (a : acct)           (* NextMessageParams(state) / the init Send attaches *)
| ORekey (pk : bits).        (* the caller overwrites the key buffer it passed to New (its public half becomes pk) *)

Inductive wans :=
| AInit (r : res cell) | ADone | AAddr (r : res (Z * bytes)) | ANextP (r : res (N * option cell)).

(* the answer of a FRESH wallet with the same parameters *)
Definition fresh_answer (w : wallet) (op : wop) : wans :=
  match op with
  | OStateInit => AInit (state_init w)
  | OMutate _ => ADone
  | OAddress => AAddr (address w)
  | ONext a => ANextP (next_params w a)
  | ORekey _ => ADone
  end.

(* an object design: what the object keeps between calls and how a call uses it *)
Record design := mkdesign {
  d_state : Type;
  d_init : d_state;
  d_step : wallet -> d_state -> wop -> d_state * wans
}.

Fixpoint run_design (D : design) (w : wallet) (st : d_state D) (ops : list wop) : list wans :=
  match ops with
  | [] => []
  | op :: t => let r := d_step D w st op in snd r :: run_design D w (fst r) t
  end.

(* the library: walletV3 / V4 / V5 / highload have no mutable field and
   generateStateInit builds a new value on every call *)
Definition library_design : design := mkdesign unit tt (fun w _ op => (tt, fresh_answer w op)).
Definition run_history (w : wallet) (ops : list wop) : list wans := run_design library_design w tt ops.

End Send.
