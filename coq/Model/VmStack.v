(** Model of tlb.VmStack (tlb/stack.go: VmStack.MarshalTLB / UnmarshalTLB,
    putStackListItems, getStackListItems) over the element codec of TlbCore:

      vm_stack#_ depth:(## 24) stack:(VmStackList depth) = VmStack;
      vm_stk_cons#_ {n:#} rest:^(VmStackList n) tos:VmStackValue = VmStackList (n + 1);
      vm_stk_nil#_ = VmStackList 0;

    The encoder takes element 0 of the Go slice as the top of the stack; the
    decoder appends the top of the stack last. *)
From Coq Require Import List NArith ZArith Arith Bool.
From Tongo Require Import Lib.Bits Lib.Res Model.TlbCore.
Import ListNotations.

Section S.
Variable env : list ty.
Variable fuel : nat.
Variable t : ty.     (* descriptor of VmStackValue *)

(* putStackListItems: AddRef(rest) first, then the top-of-stack value *)
Fixpoint put_list (vs : list value) (b : bld) : res bld :=
  match vs with
  | [] => Ok b
  | v :: rest =>
      do c <- put_list rest empty_bld;
      do b1 <- put_ref (finish c) b;
      enc env fuel t v b1
  end.

Definition enc_stack (vs : list value) (b : bld) : res bld :=
  do b0 <- put_bits (bits_of 24 (N.of_nat (length vs))) b;
  put_list vs b0.

(* getStackListItems on a whole cell *)
Fixpoint get_cell (c : ctree) (depth : N) : res (list value) :=
  match c with
  | CT b r =>
      if (depth =? 0)%N then Ok [] else
      match r with
      | [] => Err ENotEnoughRefs
      | c1 :: r' =>
          do rest <- get_cell c1 (depth - 1);
          do y <- dec env fuel t (mks b r');
          Ok (rest ++ [fst y])
      end
  end.

Definition dec_stack (s : slc) : res (list value) :=
  do x <- take_bits 24 s;
  let depth := N_of_bits (fst x) in
  if (depth =? 0)%N then Ok [] else
  match sr (snd x) with
  | [] => Err ENotEnoughRefs
  | c1 :: r' =>
      do rest <- get_cell c1 (depth - 1);
      do y <- dec env fuel t (mks (sb (snd x)) r');
      Ok (rest ++ [fst y])
  end.

End S.
