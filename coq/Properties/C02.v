(** C02 — cell hash, depth and level follow the TON representation-hash
    definition.  Statements only.  [H] is any hash function (SHA-256 in the
    executable model); the theorems never unfold it. *)
From Coq Require Import List NArith Arith Bool.
From Tongo Require Import Lib.Bits Lib.Res Spec.Sha256 Model.BocParse Model.CellHash Spec.ReprHash
  Proofs.CellHashP Proofs.BocParseP Proofs.DagP.
Import ListNotations.

(** For every cell tree over all cell types whose level masks are 0..7: if the
    implementation's hashing loop succeeds, then at EVERY level l its Hash(l)
    and Depth(l) are the hash and depth the declarative definition gives. *)
Theorem C02_impl_hash_is_spec :
  forall (H : bytes -> bytes) (c : cell) (im : imm),
  masks_ok c -> imm_of H c = Ok im ->
  forall l, imm_hash im l = Ok (ih im l) /\ imm_depth im l = Ok (idp im l) /\
            hd_at H c l = Ok (ih im l, idp im l).
Proof.
  intros H c im Hok Him l. destruct (impl_hash_is_spec H c im Hok Him) as (W & A).
  destruct (W l). auto.
Qed.
Print Assumptions C02_impl_hash_is_spec.

(** Cell.Hash() / depth (level 3) is the representation hash / depth. *)
Theorem C02_cell_hash_is_repr_hash :
  forall (H : bytes -> bytes) c im, masks_ok c -> imm_of H c = Ok im ->
  repr_hash H c = cell_hash im /\ repr_depth H c = cell_depth im.
Proof. exact cell_hash_is_repr_hash. Qed.
Print Assumptions C02_cell_hash_is_repr_hash.

(** The value does not depend on how the cell was obtained or on caching: in a
    cell array where shared cells are hashed once (the cache), every index
    yields the immutable cell of the tree it unfolds to ... *)
Theorem C02_sharing_and_cache_independent :
  forall (H : bytes -> bytes) cells i k c,
  nth_error (trees_of i cells) k = Some (Ok c) ->
  nth_error (eval_dag H i cells) k = Some (imm_of H c).
Proof. exact eval_dag_is_tree. Qed.
Print Assumptions C02_sharing_and_cache_independent.

(** ... so two arrays with different sharing/order whose roots unfold to the
    same tree give the same hashes at every level. *)
Theorem C02_same_structure_same_hash :
  forall (H : bytes -> bytes) cells1 cells2 k1 k2 c,
  nth_error (trees_of 0 cells1) k1 = Some (Ok c) ->
  nth_error (trees_of 0 cells2) k2 = Some (Ok c) ->
  nth_error (eval_dag H 0 cells1) k1 = nth_error (eval_dag H 0 cells2) k2.
Proof. exact same_tree_same_hash. Qed.

(** every array the parser returns (C07) unfolds at every index *)
Theorem C02_parsed_arrays_unfold :
  forall cells, dag_wf cells ->
  Forall (fun rc => exists c, rc = Ok c) (trees_of 0 cells).
Proof. intros cells Hwf. apply (trees_of_wf cells 0 (length cells)); [exact Hwf|reflexivity]. Qed.

(** Non-vacuity: a Merkle-proof cell over an ordinary cell with a pruned child
    (mask 1) hashes successfully, so the premises are met by a real tree. *)
Example C02_premises_satisfiable :
  let pruned := Cell true 1 1 (bits_of 8 1 ++ bits_of 8 1 ++ zeros 256 ++ bits_of 16 5) [] in
  let inner := Cell false 0 1 [true; false; true] [pruned; Cell false 0 0 [] []] in
  let proof := Cell true 3 0 (bits_of 8 3 ++ zeros 256 ++ bits_of 16 6) [inner] in
  masks_ok proof /\ exists im, imm_of sha256 proof = Ok im.
Proof. cbn zeta. split; [cbn; repeat split; reflexivity|]. vm_compute. eexists. reflexivity. Qed.
