(** C12 obligation over data translated from /repo's current source
    (Generated/ConnLocks.v: harness/cmd/translate genC12r8; Generated/ConnSends.v: genC11r8;
    both rewritten on every run): no re-entrant locking of a connection's mutex.

    Properties/C12.v treats a mutex section as an atomic step and proves that no reachable
    state has a stuck call.  sync.Mutex is not re-entrant: a function that runs while the
    receiver's mu is held and locks that mu again (itself, or through a method it calls
    synchronously on the same receiver) blocks for ever HOLDING the lock, and every later
    Send / Status / reconnect of the connection blocks behind it - a state the transition
    system does not have.  That this cannot happen is a syntactic fact about the source:

    (1) no call made with the receiver's mu held (lock state followed through the
        statements of the body) targets a method that locks mu, directly or transitively;
    (2) the same over the position-based call sites of ConnSends.v;
    (3) not vacuous: the lockers of connection.go and the held call in
        handleAuthResponse were found. *)
From Coq Require Import String List Bool NArith.
From Tongo Require Import Generated.ConnSends Generated.ConnLocks.
Import ListNotations.
Local Open Scope string_scope.

Definition locks_directly (r f : string) : bool :=
  existsb (fun p => String.eqb (fst p) r && String.eqb (snd p) f) conn_lockers.

(** (if-then-else, not || / &&: vm_compute is call by value)
    [f] (a method of [r]) acquires r's mu at some point of its synchronous execution *)
Fixpoint locks_mu (fuel : nat) (r f : string) : bool :=
  if locks_directly r f then true else
  match fuel with
  | O => false
  | S k => existsb (fun c => if String.eqb (rc_recv c) r && String.eqb (rc_func c) f
                             then locks_mu k r (rc_target c) else false) conn_recv_calls
  end.

Definition lock_fuel : nat := 8.

(* (1) *)
Definition no_reentrant_held_call : bool :=
  forallb (fun c => negb (locks_mu lock_fuel (rc_recv c) (rc_target c))) conn_held_calls.

(* (2) *)
Definition no_reentrant_site : bool :=
  forallb (fun s => if String.eqb (cs_kind s) "call" && cs_held s && negb (cs_async s)
                    then negb (locks_mu lock_fuel (cs_recv s) (cs_target s)) else true) conn_sites.

(* (3) *)
Definition lock_sections_found : bool :=
  forallb (locks_directly "Connection")
    ["Send"; "registerPing"; "processPong"; "setAverageRoundTrip"; "Status"; "reconnect"; "handleAuthResponse"] &&
  existsb (fun c => String.eqb (rc_func c) "handleAuthResponse" && String.eqb (rc_target c) "sendAuthComplete")
    conn_held_calls &&
  negb (locks_directly "Connection" "sendAuthComplete") &&
  locks_mu lock_fuel "Connection" "ping".

Definition no_reentrant_locking : bool :=
  no_reentrant_held_call && no_reentrant_site && lock_sections_found.

Theorem C12_gen_no_reentrant_locking : no_reentrant_locking = true.
Proof. vm_compute. reflexivity. Qed.

(** the individual parts, so that a failing run names the clause *)
Theorem C12_gen_no_reentrant_held_call : no_reentrant_held_call = true.
Proof. vm_compute. reflexivity. Qed.
Theorem C12_gen_no_reentrant_site : no_reentrant_site = true.
Proof. vm_compute. reflexivity. Qed.
Theorem C12_gen_lock_sections_found : lock_sections_found = true.
Proof. vm_compute. reflexivity. Qed.
