(** C08, TL side without a rate parameter.  Statements only.

    [sokw B fuel t] is the exact content of the schema condition: for the types
    reachable from [t], (1) every vector element has a non-empty wire form,
    (2) 4096 elements of every vector stay below maxAlloc, (3) the nesting fits
    the fuel.  It holds iff [sok B rate fuel t] holds for some rate.

    Relation to the C10 checker (Model/TlMatch.v): [matches_all] implies (2)
    (its [vec_ok] bounds every element by 2^36 bytes: [C08_c10_size_condition]);
    it does not check (1) (whether a vector element can have an empty wire form)
    nor (3); both are re-checked on the generated bindings in C08_gen.  (1) cannot be dropped:
    [C08_tl_empty_element_not_linear]. *)
From Coq Require Import String List NArith PArith Arith Lia Bool.
From Tongo Require Import Lib.Bits Lib.Res Spec.TlWire Model.Tl Model.TlMatch Model.TlTotal
     Proofs.TlTotalP Proofs.TlTotalP2 Proofs.FramingP Proofs.TlTotalP3 Generated.TlBindings Properties.C08_gen.
Import ListNotations.
Local Open Scope N_scope.

Theorem C08_sokw_iff :
  forall B fuel t, sokw B fuel t = true <-> exists rate, sok B rate fuel t = true.
Proof. exact sokw_iff. Qed.
Print Assumptions C08_sokw_iff.

Theorem C08_tl_decode_total_w :
  forall B fuel t, sokw B fuel t = true ->
  forall bs p, fst (tl_unmarshal B fuel t bs) <> Panic p.
Proof. exact tl_decode_total_w. Qed.

Theorem C08_tl_decode_fuel_w :
  forall B fuel t, sokw B fuel t = true ->
  forall bs, fst (tl_unmarshal B fuel t bs) <> Err EFuel.
Proof. exact tl_decode_fuel_w. Qed.

(** allocation + steps are linear in the input, with constants of the schema *)
Theorem C08_tl_decode_linear_w :
  forall B fuel t, sokw B fuel t = true -> exists a b, forall bs,
  t_alloc (snd (tl_unmarshal B fuel t bs)) + t_steps (snd (tl_unmarshal B fuel t bs))
  <= a * N.of_nat (length bs) + b.
Proof. exact tl_decode_linear_w. Qed.
Print Assumptions C08_tl_decode_linear_w.

(** condition (1) is necessary: 4 bytes of input, 65536 decode calls *)
Theorem C08_tl_empty_element_not_linear :
  sokw empty_elem_schema 3 (GSlice (GNamed "E"%string)) = false /\
  exists bs, length bs = 4%nat /\
    65536 <= t_steps (snd (tl_unmarshal empty_elem_schema 3 (GSlice (GNamed "E"%string)) bs)).
Proof. exact tl_empty_element_not_linear. Qed.

(** the element-size bound of the C10 checker is condition (2) *)
Theorem C08_c10_size_condition :
  forall B g, (gsize B g <=? esz_limit) = true -> (max_prealloc * gsize B g <=? max_alloc) = true.
Proof.
  intros B g H. apply N.leb_le in H. apply N.leb_le.
  unfold esz_limit, max_prealloc in *. rewrite max_alloc_val. lia.
Qed.

(** every generated lite-server type satisfies it *)
Theorem C08_gen_sokw :
  forall b, In b tl_bindings -> sokw tl_bindings c08_fuel (GNamed (b_name b)) = true.
Proof.
  intros b Hb. apply (sok_sokw tl_bindings c08_rate).
  pose proof C08_gen_schema_ok as H. unfold all_types_ok in H.
  rewrite forallb_forall in H. apply H. exact Hb.
Qed.
