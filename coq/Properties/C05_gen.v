(** C05 obligations over data translated from /repo's current source
    (Generated/DictKeys.v is rewritten by harness/cmd/translate on every run):
    the key types of tlb.Hashmap — every type with FixedSize/Equal/Compare in
    tlb/integers.go and tlb/address.go. *)
From Coq Require Import List NArith Arith Bool String.
From Tongo Require Import Lib.Bits Spec.Dict Generated.DictKeys.
Import ListNotations.
Local Open Scope string_scope.

(* key types with a recorded finding (known_findings.txt, C05_address_key_refuted):
   not checked here, so that an upstream repair is not an alarm *)
Definition known_bad_key_types : list string := ["AddressWithWorkchain"].

Definition kt_name (t : string * (N * (N * (N * (bool * bool))))) := fst t.
Definition kt_fixed (t : string * (N * (N * (N * (bool * bool))))) := fst (snd t).
Definition kt_enc (t : string * (N * (N * (N * (bool * bool))))) := fst (snd (snd t)).
Definition kt_dec (t : string * (N * (N * (N * (bool * bool))))) := fst (snd (snd (snd t))).
Definition kt_write_int (t : string * (N * (N * (N * (bool * bool))))) := fst (snd (snd (snd (snd t)))).
Definition kt_native_signed (t : string * (N * (N * (N * (bool * bool))))) := snd (snd (snd (snd (snd t)))).

Definition checked_key_types :=
  filter (fun t => negb (existsb (String.eqb (kt_name t)) known_bad_key_types)) dict_key_types.

(** Every key type marshals to exactly FixedSize() bits and unmarshals from
    exactly FixedSize() bits: the premise [keys_len n] of the C05 theorems holds
    for the BitStrings Hashmap.MarshalTLB hands to encodeMap. *)
Theorem C05_gen_key_widths :
  forallb (fun t => (0 <? kt_fixed t)%N && (kt_fixed t =? kt_enc t)%N && (kt_fixed t =? kt_dec t)%N)
          checked_key_types = true.
Proof. vm_compute. reflexivity. Qed.

(** Compare is the native < of a signed Go integer exactly for the keys written
    in two's complement: [signed_ltb] for those, [bits_ltb] for all others. *)
Theorem C05_gen_compare_matches_encoding :
  forallb (fun t => Bool.eqb (kt_write_int t) (kt_native_signed t)) checked_key_types = true.
Proof. vm_compute. reflexivity. Qed.

(** Every key width leaves room for values of up to 499 bits in a leaf cell
    (premise of C05_encode_ok with vmax = 499). *)
Theorem C05_gen_cells_fit :
  forallb (fun t => let n := N.to_nat (kt_fixed t) in
                    (Nat.max 16 (2 + lim_width n + n) + 499 <=? 1023)%nat)
          checked_key_types = true.
Proof. vm_compute. reflexivity. Qed.

(** The list is not empty by accident: Uint1..64, Int1..64 and the 8 BitsN. *)
Theorem C05_gen_key_types_present :
  (136 <=? List.length checked_key_types)%nat = true /\
  forallb (fun nm => existsb (fun t => String.eqb (kt_name t) nm) checked_key_types)
          ["Uint1"; "Uint8"; "Uint32"; "Uint64"; "Int1"; "Int8"; "Int32"; "Int64";
           "Bits80"; "Bits96"; "Bits256"; "Bits512"] = true.
Proof. vm_compute. split; reflexivity. Qed.
