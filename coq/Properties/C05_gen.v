(** C05 obligations over data translated from /repo's current source
    (Generated/DictKeys.v is rewritten by harness/cmd/translate on every run):
    the key types of tlb.Hashmap — every type with FixedSize/Equal/Compare in
    tlb/integers.go and tlb/address.go (UintN, IntN, BitsN, AddressWithWorkchain). *)
From Coq Require Import List NArith Arith Bool String.
From Tongo Require Import Lib.Bits Spec.Dict Generated.DictKeys.
Import ListNotations.
Local Open Scope string_scope.

Definition kt_name (t : string * (N * (N * (N * (bool * bool))))) := fst t.
Definition kt_fixed (t : string * (N * (N * (N * (bool * bool))))) := fst (snd t).
Definition kt_enc (t : string * (N * (N * (N * (bool * bool))))) := fst (snd (snd t)).
Definition kt_dec (t : string * (N * (N * (N * (bool * bool))))) := fst (snd (snd (snd t))).
Definition kt_write_int (t : string * (N * (N * (N * (bool * bool))))) := fst (snd (snd (snd (snd t)))).
Definition kt_native_signed (t : string * (N * (N * (N * (bool * bool))))) := snd (snd (snd (snd (snd t)))).

Definition casts_unsigned (t : string * (N * (N * (N * (bool * bool))))) : bool :=
  existsb (String.eqb (kt_name t)) dict_key_compare_casts_unsigned.

(** Every key type marshals to exactly FixedSize() bits and unmarshals from
    exactly FixedSize() bits: the premise [keys_len n] of the C05 theorems holds
    for the BitStrings Hashmap.MarshalTLB hands to the sort and to encodeMap.
    (Before "fix: AddressWithWorkchain.MarshalTLB" this failed with 288 / 264 / 288.) *)
Theorem C05_gen_key_widths :
  forallb (fun t => (0 <? kt_fixed t)%N && (kt_fixed t =? kt_enc t)%N && (kt_fixed t =? kt_dec t)%N)
          dict_key_types = true.
Proof. vm_compute. reflexivity. Qed.

(** Compare is a strict total order of one of the two kinds the theorems are
    instantiated with: a key written in two's complement is compared either by
    the native < of a signed Go integer ([signed_ltb], C05_key_int) or after a
    conversion to an unsigned type ([bits_ltb], C05_key_address); every other
    key is compared unsigned / bytewise ([bits_ltb], C05_key_uint, C05_key_bytes). *)
Theorem C05_gen_compare_matches_encoding :
  forallb (fun t => if kt_native_signed t then kt_write_int t && negb (casts_unsigned t)
                    else negb (kt_write_int t) || casts_unsigned t) dict_key_types = true.
Proof. vm_compute. reflexivity. Qed.

(** Every key width leaves room for values of up to 499 bits in a leaf cell
    (premise of C05_encode_ok with vmax = 499). *)
Theorem C05_gen_cells_fit :
  forallb (fun t => let n := N.to_nat (kt_fixed t) in
                    (Nat.max 16 (2 + lim_width n + n) + 499 <=? 1023)%nat)
          dict_key_types = true.
Proof. vm_compute. reflexivity. Qed.

(** The list is not empty by accident: Uint1..64, Int1..64, the 8 BitsN and the
    address key with its 288 bits. *)
Theorem C05_gen_key_types_present :
  (137 <=? List.length dict_key_types)%nat = true /\
  forallb (fun nm => existsb (fun t => String.eqb (kt_name t) nm) dict_key_types)
          ["Uint1"; "Uint8"; "Uint32"; "Uint64"; "Int1"; "Int8"; "Int32"; "Int64";
           "Bits80"; "Bits96"; "Bits256"; "Bits512"; "AddressWithWorkchain"] = true /\
  existsb (fun t => String.eqb (kt_name t) "AddressWithWorkchain" && (kt_fixed t =? 288)%N)
          dict_key_types = true.
Proof. vm_compute. repeat split; reflexivity. Qed.
