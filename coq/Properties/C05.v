(** C05 — dictionaries (Hashmap / HashmapE) preserve their key->value mapping.
    Statements only; every proof is [exact <lemma>] into Proofs/.

    Model: Model/Hashmap.v (tlb/hashmap.go transcribed over ideal bit lists and
    abstract cells, see its header) — the model of the REPAIRED code:
    Hashmap.MarshalTLB sorts the (key bits, value) pairs by key bits before
    encodeMap, and tlb.AddressWithWorkchain marshals to the 288 bits its
    FixedSize() announces (the old behaviour and its refutation witnesses are in
    Proofs/HashmapHistory.v and corpus/C05).
    Specification: Spec/Dict.v (TL-B HashmapE, written from the TON schema).

    The value codec is arbitrary (a value is some bits and some references
    appended to the leaf cell), subject to the round-trip law that appears as a
    premise ([vcodec]); because the value is the last thing in the leaf the law
    is only needed in tail position, so rest-of-cell types such as tlb.Any
    qualify.  Keys are their bit representation; a key type enters only through
    Equal/Compare ([key_order]): every statement about Put is for EVERY strict
    total order, and the orders of the library's key types (UintN, IntN, BitsN,
    AddressWithWorkchain) are shown to be instances. *)
From Coq Require Import List NArith ZArith Arith Lia Bool Sorted Permutation.
From Tongo Require Import Lib.Bits Lib.Res Spec.Dict Spec.DictAug Model.Hashmap Model.HashmapHist Model.HashmapAug
  Proofs.HashmapHistP Proofs.HashmapCtxP Proofs.HashmapAugP Proofs.HashmapFindP
  Proofs.DictP Proofs.HashmapPut Proofs.HashmapSort Proofs.HashmapKeys
  Proofs.HashmapP Proofs.HashmapP2 Proofs.HashmapHistory.
Import ListNotations.

Definition vcodec {V} (venc : V -> bits * list cell) (vdec : bits -> list cell -> option V) : Prop :=
  forall v, vdec (fst (venc v)) (snd (venc v)) = Some v.

(** ** key types *)

(** Compare/Equal on key bits satisfy what Put needs: bit order (UintN, BitsN,
    AddressWithWorkchain) and two's complement order (IntN). *)
Theorem C05_key_order_unsigned : key_order bits_eqb bits_ltb.
Proof. exact bits_key_order. Qed.
Theorem C05_key_order_signed : key_order bits_eqb signed_ltb.
Proof. exact signed_key_order. Qed.

(** ... and these are what the Go methods compute on the values: the encoding
    has FixedSize() bits, is injective, and Compare on values is the bit-level
    order above.  UintN (N = w): *)
Theorem C05_key_uint :
  forall w x y, (x < 2 ^ N.of_nat w)%N -> (y < 2 ^ N.of_nat w)%N ->
  length (uint_key w x) = w /\
  bits_ltb (uint_key w x) (uint_key w y) = (x <? y)%N /\
  (uint_key w x = uint_key w y -> x = y).
Proof. intros w x y Hx Hy. split; [apply uint_key_length|apply uint_key_order; assumption]. Qed.

(** IntN (N = w + 1), values in the two's complement range: *)
Theorem C05_key_int :
  forall w x y,
  (- 2 ^ Z.of_nat w <= x < 2 ^ Z.of_nat w)%Z -> (- 2 ^ Z.of_nat w <= y < 2 ^ Z.of_nat w)%Z ->
  length (int_key (S w) x) = S w /\
  signed_ltb (int_key (S w) x) (int_key (S w) y) = (x <? y)%Z /\
  (int_key (S w) x = int_key (S w) y -> x = y).
Proof. intros w x y Hx Hy. split; [apply int_key_length|apply int_key_order; assumption]. Qed.

(** BitsN (N = 8 * number of bytes): bytes.Compare is bit order. *)
Theorem C05_key_bytes :
  forall a b, Forall (fun x => x < 256)%N a -> Forall (fun x => x < 256)%N b -> length a = length b ->
  length (bytes_key a) = (8 * length a)%nat /\
  bits_ltb (bytes_key a) (bytes_key b) = bytes_ltb a b.
Proof. intros a b Ha Hb HL. split; [apply bytes_key_length|apply bytes_key_order; assumption]. Qed.

(** AddressWithWorkchain (after the repair): 288 bits = FixedSize(), and
    Compare (uint32(workchain), then bytes.Compare) is bit order. *)
Theorem C05_key_address :
  forall x y : Z * list N,
  (- 2 ^ 31 <= fst x < 2 ^ 31)%Z -> (- 2 ^ 31 <= fst y < 2 ^ 31)%Z ->
  Forall (fun b => b < 256)%N (snd x) -> Forall (fun b => b < 256)%N (snd y) ->
  length (snd x) = 32%nat -> length (snd y) = 32%nat ->
  length (addr_key x) = 288%nat /\
  bits_ltb (addr_key x) (addr_key y) = addr_ltb x y /\
  (addr_key x = addr_key y -> x = y).
Proof.
  intros x y Rx Ry Hx Hy Lx Ly. split; [apply addr_key_length; exact Lx|]. split.
  - apply addr_key_order; auto. congruence.
  - apply addr_key_inj; auto. congruence.
Qed.

(** FINDING addr-workchain-int8 (no small safe repair: the exported field
    AddressWithWorkchain.Workchain is int8 while the key carries an int32).  The
    key DEcoder truncates the workchain, so distinct 288-bit keys of a valid
    dictionary written by another implementation (workchain outside -128..127)
    decode to the same Go key: "decodes to the mapping it represents" fails for
    such keys at this key type.  All dictionary-level theorems are about key
    bits and are unaffected; dictionaries written by this library only hold
    int8 workchains, on which decoding inverts encoding. *)
Theorem C05_address_workchain_int8_refuted :
  let k1 := addr_key (256, repeat 0%N 32)%Z in
  let k2 := addr_key (0, repeat 0%N 32)%Z in
  length k1 = 288%nat /\ length k2 = 288%nat /\ k1 <> k2 /\ addr_unkey k1 = addr_unkey k2.
Proof. exact address_workchain_int8_refuted. Qed.

(** ** Put / Get on the slices *)

(** Folding Put over ANY list of pairs (duplicates allowed) yields a slice that
    is strictly sorted by Compare and holds the last value inserted per key. *)
Theorem C05_put_sorted :
  forall K V keq klt, key_order keq klt -> forall l : list (K * V),
  ksorted K V klt (puts keq klt l []) /\
  forall k, get keq k (puts keq klt l []) = get keq k (rev l).
Proof. exact put_sorted. Qed.
Print Assumptions C05_put_sorted.

(** for bit-ordered key types "sorted by Compare" is "ascending in bit order" *)
Theorem C05_ksorted_is_bit_sorted :
  forall V (m : list (bits * V)), ksorted bits V bits_ltb m <-> sorted m.
Proof. exact @ksorted_bits_sorted. Qed.

(** for IntN keys the slice is negative keys ascending, then non-negative keys
    ascending (each part ascending in bit order) — NOT bit order; this is why
    the encoder must not depend on the slice order *)
Theorem C05_put_sorted_signed_shape :
  forall V n (m : list (bits * V)),
  ksorted bits V signed_ltb m -> keys_len (S n) m ->
  exists L R, m = addp [true] R ++ addp [false] L /\
    sorted L /\ sorted R /\ keys_len n L /\ keys_len n R.
Proof. exact signed_split. Qed.

(** The slice depends only on the final mapping, hence not on the insertion
    order of distinct keys. *)
Theorem C05_puts_determined_by_mapping :
  forall K V keq klt, key_order keq klt -> forall l1 l2 : list (K * V),
  (forall k, get keq k (rev l1) = get keq k (rev l2)) ->
  puts keq klt l1 [] = puts keq klt l2 [].
Proof. exact puts_ext. Qed.

Theorem C05_put_order_independent :
  forall K V keq klt, key_order keq klt -> forall l1 l2 : list (K * V),
  NoDup (map fst l1) -> Permutation l1 l2 ->
  puts keq klt l1 [] = puts keq klt l2 [].
Proof. exact put_order_independent. Qed.
Print Assumptions C05_put_order_independent.

(** Get after Put, for every slice (sorted or not). *)
Theorem C05_get_put :
  forall K V keq klt, key_order keq klt -> forall (k : K) (v : V) m k',
  get keq k' (put keq klt k v m) = if keq k k' then Some v else get keq k' m.
Proof. exact get_put. Qed.

(** On a dictionary in ascending bit order (what decoding returns) Put/Get of a
    bit-ordered key type ARE update/lookup of the abstract map. *)
Theorem C05_get_put_agree :
  forall V (m : list (bits * V)) k v, sorted m ->
  put bits_eqb bits_ltb k v m = update k v m /\
  sorted (put bits_eqb bits_ltb k v m) /\
  (forall k', get bits_eqb k' m = lookup k' m) /\
  (forall k', lookup k' (update k v m) = if bits_eqb k k' then Some v else lookup k' m).
Proof. exact @get_put_agree. Qed.
Print Assumptions C05_get_put_agree.

(** ** the sort in Hashmap.MarshalTLB *)

(** a permutation; ascending when the keys are distinct; the identity on
    ascending lists; a function of the set of pairs alone *)
Theorem C05_sort :
  forall V (l : list (bits * V)),
  Permutation l (bsort l) /\
  (NoDup (map fst l) -> sorted (bsort l)) /\
  (sorted l -> bsort l = l) /\
  (forall l', NoDup (map fst l) -> Permutation l l' -> bsort l = bsort l').
Proof.
  intros V l. split; [apply bsort_perm|]. split; [apply bsort_sorted|].
  split; [apply bsort_id|]. intros l'. apply bsort_perm_eq.
Qed.

(** For EVERY key type: through the sort, Put on any slice with distinct keys
    is update of the abstract map. *)
Theorem C05_put_is_update_any_order :
  forall V klt, key_order bits_eqb klt -> forall k v (m : list (bits * V)),
  NoDup (map fst m) -> bsort (put bits_eqb klt k v m) = update k v (bsort m).
Proof. exact bsort_put. Qed.

(** ** labels *)

(** The encoder writes hml_short for labels of 0..7 bits and hml_long from 8
    bits on (never hml_same); the decoder reads back either form of any label
    that fits. *)
Theorem C05_label_choice_boundary :
  forall m lbl,
  ((length lbl < 8)%nat -> enc_label_go m lbl = hml_short lbl) /\
  ((8 <= length lbl)%nat -> enc_label_go m lbl = hml_long m lbl) /\
  (forall rest room, (length lbl <= m)%nat -> (length lbl <= room)%nat ->
     load_label m room (enc_label_go m lbl ++ rest) = Ok (lbl, rest) /\
     load_label m room (hml_short lbl ++ rest) = Ok (lbl, rest) /\
     load_label m room (hml_long m lbl ++ rest) = Ok (lbl, rest)).
Proof. exact label_choice_boundary. Qed.

(** loadLabel inverts all three forms (hml_same for constant labels). *)
Theorem C05_load_label_all_forms :
  forall f m lbl rest room,
  form_valid f lbl -> (length lbl <= m)%nat -> (length lbl <= room)%nat ->
  load_label m room (enc_label f m lbl ++ rest) = Ok (lbl, rest).
Proof. exact load_label_enc. Qed.

Theorem C05_load_label_size_all_forms :
  forall f m lbl rest, (length lbl <= m)%nat ->
  load_label_size m (enc_label f m lbl ++ rest) =
    Ok (N.of_nat (length lbl), match f with FSame _ => rest | _ => lbl ++ rest end).
Proof. exact load_label_size_enc. Qed.

(** ** dictionaries serialised by anyone *)

(** Sorted key lists and well-formed Patricia trees are the same thing. *)
Theorem C05_sorted_list_is_tree :
  forall V n (m : list (bits * V)), sorted m -> keys_len n m -> m <> [] ->
  exists t, wf_pt n t /\ tree_to_list [] t = m.
Proof. exact sorted_tree_exists. Qed.

Theorem C05_tree_is_sorted_list :
  forall V (t : pt V) n, wf_pt n t ->
  sorted (tree_to_list [] t) /\ keys_len n (tree_to_list [] t).
Proof. intros V t n H. split; [exact (ttl_sorted V t)|exact (ttl_keys_len V t n H)]. Qed.

(** For every Patricia tree with n-bit keys and EVERY choice of a valid label
    form per edge, decoding the serialisation returns exactly the tree's
    key/value list (which is ascending in bit order by the previous theorem). *)
Theorem C05_decode_any_label_form :
  forall V venc vdec, vcodec venc vdec ->
  forall n (t : apt V) c,
  wf_pt n (erase t) -> forms_valid t ->
  cells_of venc n t = Ok c ->
  decode vdec n c = Ok (tree_to_list [] (erase t)).
Proof. exact decode_any_label_form. Qed.
Print Assumptions C05_decode_any_label_form.

Theorem C05_decode_e_any_label_form :
  forall V venc vdec, vcodec venc vdec ->
  forall n (t : option (apt V)) c,
  (forall a, t = Some a -> wf_pt n (erase a) /\ forms_valid a) ->
  cells_of_e venc n t = Ok c ->
  decode_e vdec n c = Ok (match t with Some a => tree_to_list [] (erase a) | None => [] end).
Proof. exact decode_e_any_label_form. Qed.

(** ** the encoder: any key width, distinct keys of that width in ANY order *)

(** It emits the serialisation of THE Patricia tree of the bit-sorted list,
    choosing short/long by the 8-bit rule. *)
Theorem C05_encode_is_canonical :
  forall V venc n (kvs : list (bits * V)),
  NoDup (map fst kvs) -> keys_len n kvs -> kvs <> [] ->
  exists t, wf_pt n t /\ tree_to_list [] t = bsort kvs /\
            encode venc n kvs = cells_of venc n (annot_go V t).
Proof. exact encode_is_canonical. Qed.

(** It succeeds whenever the longest possible label plus a value fit a cell. *)
Theorem C05_encode_ok :
  forall V venc n vmax (kvs : list (bits * V)),
  (forall v, length (fst (venc v)) <= vmax /\ length (snd (venc v)) <= 4)%nat ->
  (Nat.max 16 (2 + lim_width n + n) + vmax <= 1023)%nat ->
  NoDup (map fst kvs) -> keys_len n kvs ->
  exists c, encode_e venc n kvs = Ok c.
Proof. exact encode_ok. Qed.

(** Round trip: decoding returns exactly the same pairs, in ascending bit order. *)
Theorem C05_encode_decode_dict :
  forall V venc vdec, vcodec venc vdec ->
  forall n (kvs : list (bits * V)) c,
  NoDup (map fst kvs) -> keys_len n kvs -> kvs <> [] ->
  encode venc n kvs = Ok c ->
  decode vdec n c = Ok (bsort kvs) /\ sorted (bsort kvs) /\ Permutation kvs (bsort kvs).
Proof.
  intros V venc vdec Hc n kvs c Hnd Hl Hne He.
  split; [exact (encode_decode_dict V venc vdec Hc n kvs c Hnd Hl Hne He)|].
  split; [exact (bsort_sorted V kvs Hnd)|exact (bsort_perm V kvs)].
Qed.
Print Assumptions C05_encode_decode_dict.

Theorem C05_encode_decode_dict_e :
  forall V venc vdec, vcodec venc vdec ->
  forall n (kvs : list (bits * V)) c,
  NoDup (map fst kvs) -> keys_len n kvs ->
  encode_e venc n kvs = Ok c ->
  decode_e vdec n c = Ok (bsort kvs) /\ sorted (bsort kvs) /\ Permutation kvs (bsort kvs).
Proof.
  intros V venc vdec Hc n kvs c Hnd Hl He.
  split; [exact (encode_decode_dict_e V venc vdec Hc n kvs c Hnd Hl He)|].
  split; [exact (bsort_sorted V kvs Hnd)|exact (bsort_perm V kvs)].
Qed.
Print Assumptions C05_encode_decode_dict_e.

(** The cells (hence bytes and hash) depend only on the set of pairs: any two
    orders of the slice give the same result, success or failure. *)
Theorem C05_encode_order_independent :
  forall V (venc : V -> bits * list cell) n (l1 l2 : list (bits * V)),
  NoDup (map fst l1) -> Permutation l1 l2 ->
  encode venc n l1 = encode venc n l2 /\ encode_e venc n l1 = encode_e venc n l2.
Proof. exact encode_perm_invariant. Qed.
Print Assumptions C05_encode_order_independent.

(** ** end to end: Put in any order, Marshal, Unmarshal — every key type *)
Theorem C05_puts_encode_decode :
  forall V venc vdec, vcodec venc vdec ->
  forall klt, key_order bits_eqb klt ->
  forall n (l : list (bits * V)) c,
  NoDup (map fst l) -> keys_len n l ->
  encode_e venc n (puts bits_eqb klt l []) = Ok c ->
  decode_e vdec n c = Ok (bsort l) /\ sorted (bsort l) /\ Permutation l (bsort l).
Proof. exact puts_encode_decode. Qed.
Print Assumptions C05_puts_encode_decode.

(** two insertion orders give the same cells (any key type) *)
Theorem C05_puts_encode_order_independent :
  forall V (venc : V -> bits * list cell) keq klt n (l1 l2 : list (bits * V)),
  key_order keq klt -> NoDup (map fst l1) -> Permutation l1 l2 ->
  encode_e venc n (puts keq klt l1 []) = encode_e venc n (puts keq klt l2 []).
Proof. exact @encode_order_independent. Qed.

(** ** Get / Put on a decoded dictionary, then Marshal / Unmarshal — every key type
    (signed and address keys included): the answers of Get are lookups in the
    updated abstract map and the re-encoded dictionary decodes to it. *)
Theorem C05_ops_agree :
  forall V venc vdec, vcodec venc vdec ->
  forall klt, key_order bits_eqb klt ->
  forall n (m0 l : list (bits * V)),
  sorted m0 -> keys_len n m0 -> keys_len n l ->
  let mf := puts bits_eqb klt l m0 in
  (forall k, get bits_eqb k mf = lookup k (updates l m0)) /\
  sorted (updates l m0) /\ keys_len n (updates l m0) /\
  (forall c, encode_e venc n mf = Ok c -> decode_e vdec n c = Ok (updates l m0)).
Proof. exact ops_agree. Qed.
Print Assumptions C05_ops_agree.

(** the same starting from the cells of ANY valid dictionary (any label forms) *)
Theorem C05_decoded_ops_agree :
  forall V venc vdec, vcodec venc vdec ->
  forall klt, key_order bits_eqb klt ->
  forall n (t : option (apt V)) c0 (l : list (bits * V)),
  (forall a, t = Some a -> wf_pt n (erase a) /\ forms_valid a) ->
  cells_of_e venc n t = Ok c0 -> keys_len n l ->
  exists m0, decode_e vdec n c0 = Ok m0 /\ sorted m0 /\ keys_len n m0 /\
    let mf := puts bits_eqb klt l m0 in
    (forall k, get bits_eqb k mf = lookup k (updates l m0)) /\
    (forall c, encode_e venc n mf = Ok c -> decode_e vdec n c = Ok (updates l m0)).
Proof. exact decoded_ops_agree. Qed.
Print Assumptions C05_decoded_ops_agree.

(** ** histories on one dictionary object: Marshal only reads it *)

(** Marshal, Items and Get leave the object (its key and value slices, as slices)
    exactly as it was; in a history without Put every Items answer is the
    initial object and every encoding is the same. *)
Theorem C05_marshal_does_not_mutate :
  forall V venc klt e n (ops : list (hop V)) (m : list (bits * V)),
  fst (hstep venc klt e n m HMarshal) = m /\
  (forallb (fun op => negb (is_put op)) ops = true ->
   fst (hrun venc klt e n m ops) = m /\
   Forall (obs_of V venc e n m) (snd (hrun venc klt e n m ops))).
Proof. intros. split; [reflexivity|apply hrun_no_put]. Qed.
Print Assumptions C05_marshal_does_not_mutate.

(** After ANY history on an object with distinct n-bit keys in any slice order
    (Puts of any keys interleaved with any number of Marshal / Items / Get),
    for every key type: Get answers by the initial mapping updated by the
    history's Puts, Marshal leaves the object unchanged and its output decodes
    to exactly that mapping. *)
Theorem C05_history_marshal_sound :
  forall V venc vdec, vcodec venc vdec ->
  forall klt, key_order bits_eqb klt ->
  forall e n (ops : list (hop V)) (m : list (bits * V)) c,
  hinv V n m -> Forall (op_ok V n) ops ->
  let mi := fst (hrun venc klt e n m ops) in
  fst (hstep venc klt e n mi HMarshal) = mi /\
  snd (hstep venc klt e n mi HMarshal) = OCell (hmarshal venc e n mi) /\
  bsort mi = updates (puts_of V ops) (bsort m) /\
  (forall k, get bits_eqb k mi = lookup k (updates (puts_of V ops) (bsort m))) /\
  (hmarshal venc e n mi = Ok c ->
   if e then decode_e vdec n c = Ok (updates (puts_of V ops) (bsort m))
   else mi <> [] -> decode vdec n c = Ok (updates (puts_of V ops) (bsort m))).
Proof. exact history_marshal_sound. Qed.
Print Assumptions C05_history_marshal_sound.

(** Decoding into an object that has been used before: the old contents are not
    an input of the result (first conjunct, trivial in the model — the content is
    the correspondence on c05.hist decode steps), and decoding any valid
    HashmapE leaves exactly its mapping, on which all history theorems apply. *)
Theorem C05_decode_overwrites_everything :
  forall V venc vdec, vcodec venc vdec ->
  forall e n (m1 m2 : list (bits * V)) c,
  hdecode vdec e n m1 c = hdecode vdec e n m2 c /\
  forall t : option (apt V), e = true ->
  (forall a, t = Some a -> wf_pt n (erase a) /\ forms_valid a) ->
  cells_of_e venc n t = Ok c ->
  let m' := match t with Some a => tree_to_list [] (erase a) | None => [] end in
  hdecode vdec e n m1 c = (m', true) /\ hinv V n m' /\ sorted m'.
Proof.
  intros V venc vdec Hc e n m1 m2 c. split; [reflexivity|].
  intros t He Hw Hcells. exact (hdecode_valid V venc vdec Hc e n m1 t c He Hw Hcells).
Qed.
Print Assumptions C05_decode_overwrites_everything.

(** ** the decoder context reaches every leaf unchanged *)

(** For every decoder context (library resolver, hasher, flags) and every value
    decoder depending on it: a valid dictionary with any label forms whose
    leaves hold raw value encodings decodes to its keys with each value decoded
    by [vdec ctx] on that leaf — exactly as outside a dictionary under the same
    context — and fails iff some leaf fails under that context. *)
Theorem C05_decoder_context_reaches_leaves :
  forall (Ctx V : Type) (vdec : Ctx -> bits -> list cell -> option V) (ctx : Ctx)
         n (t : apt (bits * list cell)) c,
  wf_pt n (erase t) -> forms_valid t -> cells_of venc_raw n t = Ok c ->
  match dec_all Ctx V vdec ctx (tree_to_list [] (erase t)) with
  | Some l => decode (vdec ctx) n c = Ok l
  | None => exists e, decode (vdec ctx) n c = Err e
  end.
Proof. exact decode_ctx. Qed.
Print Assumptions C05_decoder_context_reaches_leaves.

(** ** the size-only label parser, leaf counting, augmented dictionaries *)

(** countLeafs / hashmapAugExtraCountLeafs (BlockExtra.InMsgDescrLength,
    OutMsgDescrLength), which read only the LENGTH of every label through
    loadLabelSize: for every valid dictionary and EVERY label form per edge
    (short, long, same — valid or not as a form: only lengths matter) the count
    is the number of entries of the mapping the dictionary decodes to. *)
Theorem C05_count_leafs :
  forall V venc n (t : option (apt V)) c,
  (forall a, t = Some a -> wf_pt n (erase a)) ->
  cells_of_e venc n t = Ok c ->
  count_leafs_e n c =
    Ok (N.of_nat (length (match t with Some a => tree_to_list [] (erase a) | None => [] end))).
Proof. exact count_leafs_e_cells. Qed.
Print Assumptions C05_count_leafs.

(** HashmapAugE (decode only in the library): every valid augmented dictionary
    with any label forms and any extras decodes to its mapping (Keys()/Values()),
    and the leaf count of the same cells is the number of its entries. *)
Theorem C05_decode_aug_any_label_form :
  forall X V venc vdec xenc xdec,
  vcodec venc vdec ->
  (forall (x : X) b r, xdec (fst (xenc x) ++ b) (snd (xenc x) ++ r) = Some (x, b, r)) ->
  forall n (t : option (aapt X V)) (x : X) c,
  (forall a, t = Some a -> wf_pt n (erase_aug a) /\ forms_valid_aug a) ->
  cells_of_aug_e venc xenc n t x = Ok c ->
  decode_aug_e vdec xdec n c =
    Ok (match t with Some a => tree_to_list [] (erase_aug a) | None => [] end) /\
  count_leafs_e n c =
    Ok (N.of_nat (length (match t with Some a => tree_to_list [] (erase_aug a) | None => [] end))).
Proof. exact decode_aug_e_any_label_form. Qed.
Print Assumptions C05_decode_aug_any_label_form.

(** ** ConfigParams.CloneKeepingSubsetOfKeys *)

(** The clone of a decoded dictionary is the restriction of its mapping to the
    requested keys, again ascending; the source is not an output (in the model
    the operation is a function to the clone only: what the source answers
    afterwards is what it answered before — the content is the correspondence on
    c05.cfg histories, where source and clone are used again, also with Put). *)
Theorem C05_clone_subset :
  forall V n keys (m : list (bits * V)),
  sorted m -> keys_len n m ->
  sorted (clone_subset keys m) /\ keys_len n (clone_subset keys m) /\
  (forall k, lookup k (clone_subset keys m) =
             if existsb (bits_eqb k) keys then lookup k m else None) /\
  (forall x, In x (clone_subset keys m) <-> In x m /\ existsb (bits_eqb (fst x)) keys = true).
Proof. exact clone_subset_spec. Qed.

(** ** the other lookups of the anchor files agree with the mapping *)

(** tlb.ProveKeyInHashmap as a lookup: on every valid dictionary with any label
    forms and for EVERY key of the dictionary's width — present or absent,
    whatever bits of it lie under the root label, an inner label, the leaf label
    or at a fork — it returns exactly what the mapping holds for that key and
    fails for a key the mapping does not hold. *)
Theorem C05_prove_key_lookup_agrees :
  forall V venc vdec, vcodec venc vdec ->
  forall n (t : apt V) c key,
  wf_pt n (erase t) -> forms_valid t -> cells_of venc n t = Ok c -> length key = n ->
  find_key vdec c key =
    match lookup key (tree_to_list [] (erase t)) with Some v => Ok v | None => Err EOther end.
Proof. exact find_key_lookup. Qed.
Print Assumptions C05_prove_key_lookup_agrees.

(** ShardState.AccountBalances: every account that has a balance is reported under
    its own key with its own balance — for a split state the accounts of the
    right half too (winning over a left account with the same key) — and nothing else. *)
Theorem C05_account_balances :
  forall B split (left right : list (bits * option B)) k,
  lookup k (account_balances split left right) =
    match (if split then get bits_eqb k (rev (balances_of right)) else None) with
    | Some b => Some b
    | None => get bits_eqb k (rev (balances_of left))
    end.
Proof. exact account_balances_lookup. Qed.

(** ** the inputs that refuted the property before the repairs, now *)
Theorem C05_address_key_fixed :
  let k := addr_key (-1, repeat 0%N 32)%Z in
  length k = 288%nat /\
  exists c, encode_e venc_bit 288 [(k, true)] = Ok c /\
            decode_e vdec_bit 288 c = Ok [(k, true)].
Proof. exact address_key_fixed. Qed.

Theorem C05_signed_put_after_decode_fixed :
  exists c', encode_e venc_bit 8 (put bits_eqb signed_ltb w_k64 true w_m) = Ok c' /\
    decode_e vdec_bit 8 c' = Ok [(w_k1, false); (w_k64, true); (w_k3, true)] /\
    update w_k64 true w_m = [(w_k1, false); (w_k64, true); (w_k3, true)].
Proof. exact signed_put_after_decode_fixed. Qed.

Theorem C05_unsorted_slice_fixed :
  exists c, encode_e venc_bit 8 w_u = Ok c /\
    decode_e vdec_bit 8 c = Ok [(bits_of 8 1, true); (bits_of 8 2, true); (bits_of 8 200, false)].
Proof. exact unsorted_slice_fixed. Qed.

(** ** non-vacuity *)

(** a codec satisfying the law, a dictionary whose values carry references, a
    five-entry dictionary given in a scrambled order with a long common prefix
    (label of 9 bits: long form; labels of 0 bits: short form) that the encoder
    accepts, and a tree using all three label forms that serialises *)
Example C05_premises_satisfiable :
  vcodec venc_bit vdec_bit /\ vcodec venc_any vdec_any /\
  (let v1 := Cell [true; false] [Cell [true] []; Cell [] []] in
   let kvs := [([true; true], Cell [] []); ([false; true], v1)] in
   NoDup (map fst kvs) /\ keys_len 2 kvs /\ exists c, encode_e venc_any 2 kvs = Ok c) /\
  let p := repeat true 9 in
  let kvs := [(p ++ [true; false; false], true); (p ++ [false; false; true], false);
              (p ++ [true; true; true], false); (p ++ [false; false; false], true);
              (p ++ [false; true; true], true)] in
  keys_len 12 kvs /\ NoDup (map fst kvs) /\ ~ sorted kvs /\
  (exists c, encode_e venc_bit 12 kvs = Ok c) /\
  let t := AFork (FSame true) p
             (AFork FLong [] (ALeaf (FSame false) [false] true) (ALeaf FShort [true] false))
             (ALeaf FLong [true; true] true) in
  wf_pt 12 (erase t) /\ forms_valid t /\ exists c, cells_of venc_bit 12 t = Ok c.
Proof.
  split; [exact vcodec_bit|]. split; [exact vcodec_any|].
  split.
  { cbn zeta. split; [|split; [repeat constructor|vm_compute; eexists; reflexivity]].
    cbn [map fst]. repeat constructor; cbn; intuition discriminate. }
  cbn zeta.
  split; [|split; [|split; [|split; [|split; [|split]]]]].
  - repeat constructor.
  - cbn [map fst]. repeat constructor; cbn; intuition discriminate.
  - intros H. apply StronglySorted_inv in H. destruct H as [_ H].
    apply Forall_inv in H. vm_compute in H. discriminate.
  - vm_compute. eexists. reflexivity.
  - cbn. repeat split; lia.
  - cbn. repeat split; reflexivity.
  - vm_compute. eexists. reflexivity.
Qed.
