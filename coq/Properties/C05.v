(** C05 — dictionaries (Hashmap / HashmapE) preserve their key->value mapping.
    Statements only; every proof is [exact <lemma>] into Proofs/.

    Model: Model/Hashmap.v (tlb/hashmap.go transcribed over ideal bit lists and
    abstract cells, see its header).  Specification: Spec/Dict.v (TL-B HashmapE,
    written from the TON schema).  The value codec is arbitrary (a value is some
    bits and some references appended to the leaf cell), subject to the
    round-trip law that appears as a premise ([vcodec]); because the value is
    the last thing in the leaf the law is only needed in tail position, so
    rest-of-cell types such as tlb.Any qualify.  Keys are their bit
    representation; a key type enters only through Equal/Compare ([key_order]). *)
From Coq Require Import List NArith Arith Lia Bool Sorted Permutation.
From Tongo Require Import Lib.Bits Lib.Res Spec.Dict Model.Hashmap
  Proofs.DictP Proofs.HashmapP Proofs.HashmapPut Proofs.HashmapP2.
Import ListNotations.

Definition vcodec {V} (venc : V -> bits * list cell) (vdec : bits -> list cell -> option V) : Prop :=
  forall v, vdec (fst (venc v)) (snd (venc v)) = Some v.

(** ** Put / Get *)

(** Compare/Equal of the key types satisfy what Put needs: UintN and BitsN
    (bit order) and IntN (numeric order of the two's complement value). *)
Theorem C05_key_order_unsigned : key_order bits_eqb bits_ltb.
Proof. exact bits_key_order. Qed.
Theorem C05_key_order_signed : key_order bits_eqb signed_ltb.
Proof. exact signed_key_order. Qed.

(** Folding Put over ANY list of pairs (duplicates allowed) yields a slice that
    is strictly sorted by Compare and holds the last value inserted per key. *)
Theorem C05_put_sorted :
  forall K V keq klt, key_order keq klt -> forall l : list (K * V),
  ksorted K V klt (puts keq klt l []) /\
  forall k, get keq k (puts keq klt l []) = get keq k (rev l).
Proof. exact put_sorted. Qed.
Print Assumptions C05_put_sorted.

(** for bit-ordered key types "sorted by Compare" is "ascending in bit order" *)
Theorem C05_ksorted_is_bit_sorted :
  forall V (m : list (bits * V)), ksorted bits V bits_ltb m <-> sorted m.
Proof. exact @ksorted_bits_sorted. Qed.

(** for IntN keys the slice is negative keys ascending, then non-negative keys
    ascending (each part ascending in bit order) *)
Theorem C05_put_sorted_signed_shape :
  forall V n (m : list (bits * V)),
  ksorted bits V signed_ltb m -> keys_len (S n) m ->
  exists L R, m = addp [true] R ++ addp [false] L /\
    sorted L /\ sorted R /\ keys_len n L /\ keys_len n R.
Proof. exact signed_split. Qed.

(** The slice depends only on the final mapping, hence not on the insertion
    order of distinct keys. *)
Theorem C05_puts_determined_by_mapping :
  forall K V keq klt, key_order keq klt -> forall l1 l2 : list (K * V),
  (forall k, get keq k (rev l1) = get keq k (rev l2)) ->
  puts keq klt l1 [] = puts keq klt l2 [].
Proof. exact puts_ext. Qed.

Theorem C05_put_order_independent :
  forall K V keq klt, key_order keq klt -> forall l1 l2 : list (K * V),
  NoDup (map fst l1) -> Permutation l1 l2 ->
  puts keq klt l1 [] = puts keq klt l2 [].
Proof. exact put_order_independent. Qed.
Print Assumptions C05_put_order_independent.

(** Get after Put, for every slice (sorted or not). *)
Theorem C05_get_put :
  forall K V keq klt, key_order keq klt -> forall (k : K) (v : V) m k',
  get keq k' (put keq klt k v m) = if keq k k' then Some v else get keq k' m.
Proof. exact get_put. Qed.

(** On a dictionary in ascending bit order (what decoding returns) Put/Get of a
    bit-ordered key type are update/lookup of the abstract map. *)
Theorem C05_get_put_agree :
  forall V (m : list (bits * V)) k v, sorted m ->
  put bits_eqb bits_ltb k v m = update k v m /\
  sorted (put bits_eqb bits_ltb k v m) /\
  (forall k', get bits_eqb k' m = lookup k' m) /\
  (forall k', lookup k' (update k v m) = if bits_eqb k k' then Some v else lookup k' m).
Proof. exact @get_put_agree. Qed.
Print Assumptions C05_get_put_agree.

(** ** labels *)

(** The encoder writes hml_short for labels of 0..7 bits and hml_long from 8
    bits on (never hml_same); the decoder reads back either form of any label
    that fits. *)
Theorem C05_label_choice_boundary :
  forall m lbl,
  ((length lbl < 8)%nat -> enc_label_go m lbl = hml_short lbl) /\
  ((8 <= length lbl)%nat -> enc_label_go m lbl = hml_long m lbl) /\
  (forall rest room, (length lbl <= m)%nat -> (length lbl <= room)%nat ->
     load_label m room (enc_label_go m lbl ++ rest) = Ok (lbl, rest) /\
     load_label m room (hml_short lbl ++ rest) = Ok (lbl, rest) /\
     load_label m room (hml_long m lbl ++ rest) = Ok (lbl, rest)).
Proof. exact label_choice_boundary. Qed.

(** loadLabel inverts all three forms (hml_same for constant labels). *)
Theorem C05_load_label_all_forms :
  forall f m lbl rest room,
  form_valid f lbl -> (length lbl <= m)%nat -> (length lbl <= room)%nat ->
  load_label m room (enc_label f m lbl ++ rest) = Ok (lbl, rest).
Proof. exact load_label_enc. Qed.

Theorem C05_load_label_size_all_forms :
  forall f m lbl rest, (length lbl <= m)%nat ->
  load_label_size m (enc_label f m lbl ++ rest) =
    Ok (N.of_nat (length lbl), match f with FSame _ => rest | _ => lbl ++ rest end).
Proof. exact load_label_size_enc. Qed.

(** ** dictionaries serialised by anyone *)

(** Sorted key lists and well-formed Patricia trees are the same thing. *)
Theorem C05_sorted_list_is_tree :
  forall V n (m : list (bits * V)), sorted m -> keys_len n m -> m <> [] ->
  exists t, wf_pt n t /\ tree_to_list [] t = m.
Proof. exact sorted_tree_exists. Qed.

Theorem C05_tree_is_sorted_list :
  forall V (t : pt V) n, wf_pt n t ->
  sorted (tree_to_list [] t) /\ keys_len n (tree_to_list [] t).
Proof. intros V t n H. split; [exact (ttl_sorted V t)|exact (ttl_keys_len V t n H)]. Qed.

(** For every Patricia tree with n-bit keys and EVERY choice of a valid label
    form per edge, decoding the serialisation returns exactly the tree's
    key/value list (which is ascending in bit order by the previous theorem). *)
Theorem C05_decode_any_label_form :
  forall V venc vdec, vcodec venc vdec ->
  forall n (t : apt V) c,
  wf_pt n (erase t) -> forms_valid t ->
  cells_of venc n t = Ok c ->
  decode vdec n c = Ok (tree_to_list [] (erase t)).
Proof. exact decode_any_label_form. Qed.
Print Assumptions C05_decode_any_label_form.

Theorem C05_decode_e_any_label_form :
  forall V venc vdec, vcodec venc vdec ->
  forall n (t : option (apt V)) c,
  (forall a, t = Some a -> wf_pt n (erase a) /\ forms_valid a) ->
  cells_of_e venc n t = Ok c ->
  decode_e vdec n c = Ok (match t with Some a => tree_to_list [] (erase a) | None => [] end).
Proof. exact decode_e_any_label_form. Qed.

(** ** the encoder *)

(** On a slice in ascending bit order the encoder emits the serialisation of
    THE Patricia tree of that list, choosing short/long by the 8-bit rule. *)
Theorem C05_encode_is_canonical :
  forall V venc n (kvs : list (bits * V)),
  sorted kvs -> keys_len n kvs -> kvs <> [] ->
  exists t, wf_pt n t /\ tree_to_list [] t = kvs /\
            encode venc n kvs = cells_of venc n (annot_go V t).
Proof. exact encode_is_canonical. Qed.

(** It succeeds whenever the longest possible label plus a value fit a cell. *)
Theorem C05_encode_ok :
  forall V venc n vmax (kvs : list (bits * V)),
  (forall v, length (fst (venc v)) <= vmax /\ length (snd (venc v)) <= 4)%nat ->
  (Nat.max 16 (2 + lim_width n + n) + vmax <= 1023)%nat ->
  sorted kvs -> keys_len n kvs ->
  exists c, encode_e venc n kvs = Ok c.
Proof. exact encode_ok. Qed.

(** Round trip: strictly sorted distinct n-bit keys, any number of them. *)
Theorem C05_encode_decode_dict :
  forall V venc vdec, vcodec venc vdec ->
  forall n (kvs : list (bits * V)) c,
  sorted kvs -> keys_len n kvs -> kvs <> [] ->
  encode venc n kvs = Ok c -> decode vdec n c = Ok kvs.
Proof. exact encode_decode_dict. Qed.
Print Assumptions C05_encode_decode_dict.

Theorem C05_encode_decode_dict_e :
  forall V venc vdec, vcodec venc vdec ->
  forall n (kvs : list (bits * V)) c,
  sorted kvs -> keys_len n kvs ->
  encode_e venc n kvs = Ok c -> decode_e vdec n c = Ok kvs.
Proof. exact encode_decode_dict_e. Qed.

(** ** end to end: Put in any order, Marshal, Unmarshal *)

(** UintN / BitsN keys: the decoded dictionary is the Put slice itself, it is
    ascending in bit order and holds exactly the inserted pairs. *)
Theorem C05_puts_encode_decode :
  forall V venc vdec, vcodec venc vdec ->
  forall n (l : list (bits * V)) c,
  NoDup (map fst l) -> keys_len n l ->
  let m := puts bits_eqb bits_ltb l [] in
  encode_e venc n m = Ok c ->
  decode_e vdec n c = Ok m /\ sorted m /\ (forall k v, In (k, v) m <-> In (k, v) l).
Proof. exact puts_encode_decode. Qed.
Print Assumptions C05_puts_encode_decode.

(** IntN keys: the Put slice has the negative keys first; the decoded
    dictionary holds the same pairs with the non-negative keys first, i.e. in
    ascending bit order. *)
Theorem C05_puts_encode_decode_signed :
  forall V venc vdec, vcodec venc vdec ->
  forall n (l : list (bits * V)) c,
  NoDup (map fst l) -> keys_len (S n) l ->
  let m := puts bits_eqb signed_ltb l [] in
  encode_e venc (S n) m = Ok c ->
  (forall k v, In (k, v) m <-> In (k, v) l) /\
  exists L R, m = addp [true] R ++ addp [false] L /\ sorted L /\ sorted R /\
              decode_e vdec (S n) c = Ok (addp [false] L ++ addp [true] R).
Proof. exact puts_encode_decode_signed. Qed.
Print Assumptions C05_puts_encode_decode_signed.

(** The cells do not depend on the insertion order (any key type). *)
Theorem C05_encode_order_independent :
  forall V (venc : V -> bits * list cell) keq klt n (l1 l2 : list (bits * V)),
  key_order keq klt -> NoDup (map fst l1) -> Permutation l1 l2 ->
  encode_e venc n (puts keq klt l1 []) = encode_e venc n (puts keq klt l2 []).
Proof. exact @encode_order_independent. Qed.

(** ** findings: what the faithful model refutes *)

(** F19.  tlb.AddressWithWorkchain: FixedSize() = 288 but the encoding has 264
    bits; a one-entry dictionary encodes and then fails to decode.  Hence
    C05_encode_decode_dict cannot be instantiated at that key type (its premise
    [keys_len 288] is false for the 264-bit keys the encoder is given). *)
Theorem C05_address_key_refuted :
  let k := repeat true 8 ++ repeat false 256 in
  exists c, encode_e venc_bit 288 [(k, true)] = Ok c /\
            decode_e vdec_bit 288 c = Err ENotEnoughRefs.
Proof. exact address_key_refuted. Qed.

(** New finding.  C05_get_put_agree does NOT extend to IntN keys: a decoded
    dictionary is in bit order, which is not Compare order when both signs are
    present; Put of a new key followed by Marshal then silently corrupts the
    dictionary.  Int8 keys {1, -3}, Put(-64): key 1 comes back as -63. *)
Theorem C05_signed_put_after_decode_refuted :
  let k1 := bits_of 8 1 in let k3 := bits_of 8 253 in let k64 := bits_of 8 192 in
  let m := [(k1, false); (k3, true)] in
  sorted m /\ keys_len 8 m /\
  exists c c', encode_e venc_bit 8 m = Ok c /\ decode_e vdec_bit 8 c = Ok m /\
    encode_e venc_bit 8 (put bits_eqb signed_ltb k64 true m) = Ok c' /\
    decode_e vdec_bit 8 c' = Ok [(k64, true); (bits_of 8 193, false); (k3, true)].
Proof. exact signed_put_after_decode_refuted. Qed.

(** ** non-vacuity *)

(** a codec satisfying the law, a five-entry dictionary with a long common
    prefix (label of 9 bits: long form; labels of 0 bits: short form) that the
    encoder accepts, and a tree using all three label forms that serialises *)
Example C05_premises_satisfiable :
  vcodec venc_bit vdec_bit /\ vcodec venc_any vdec_any /\
  (let v1 := Cell [true; false] [Cell [true] []; Cell [] []] in
   let kvs := [([false; true], v1); ([true; true], Cell [] [])] in
   sorted kvs /\ keys_len 2 kvs /\ exists c, encode_e venc_any 2 kvs = Ok c) /\
  let p := repeat true 9 in
  let kvs := [(p ++ [false; false; false], true); (p ++ [false; false; true], false);
              (p ++ [false; true; true], true); (p ++ [true; false; false], true);
              (p ++ [true; true; true], false)] in
  sorted kvs /\ keys_len 12 kvs /\ NoDup (map fst kvs) /\
  (exists c, encode_e venc_bit 12 kvs = Ok c) /\
  let t := AFork (FSame true) p
             (AFork FLong [] (ALeaf (FSame false) [false] true) (ALeaf FShort [true] false))
             (ALeaf FLong [true; true] true) in
  wf_pt 12 (erase t) /\ forms_valid t /\ exists c, cells_of venc_bit 12 t = Ok c.
Proof.
  split; [exact vcodec_bit|]. split; [exact vcodec_any|].
  split; [cbn zeta; split; [repeat constructor|split; [repeat constructor|vm_compute; eexists; reflexivity]]|].
  cbn zeta.
  split; [|split; [|split; [|split; [|split; [|split]]]]].
  - repeat constructor.
  - repeat constructor.
  - cbn [map fst]. repeat constructor; cbn; intuition discriminate.
  - vm_compute. eexists. reflexivity.
  - cbn. repeat split; lia.
  - cbn. repeat split; reflexivity.
  - vm_compute. eexists. reflexivity.
Qed.
