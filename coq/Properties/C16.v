(** C16 — message and transaction identity hashes match their source cells.
    Statements only.  [H] is any hash function (SHA-256 in the executable
    model); [o] is any acceptance oracle for the decoders that are not
    transcribed (dictionary roots, TransactionDescr): every theorem holds for
    all of them.  [masks_ok] (level masks below 8) is what the BOC parser
    guarantees (C07); [bits_ok] is the 1023-bit capacity of a cell. *)
From Coq Require Import List NArith ZArith Arith Bool.
From Tongo Require Import Lib.Bits Lib.Res Spec.Sha256 Model.BocParse Model.CellHash Spec.ReprHash
  Spec.BocLayout Proofs.CellHashP Proofs.DagP Model.MsgHash Spec.MsgCanon
  Proofs.MsgHashP Proofs.MsgHashN Proofs.MsgHashD Proofs.MsgHashI Model.MsgHist Proofs.MsgHistP
  Model.BocSer Proofs.BocParseP Proofs.BocSerLayoutP2 Proofs.BocSerLayoutP5 Proofs.MsgHashS Model.MsgOracle Proofs.MsgOracleP Proofs.MsgHashHistory.
Import ListNotations.

(** The hash reported for a decoded message is the representation hash of the
    cell it was decoded from, for EVERY cell; Hash(false) returns it. *)
Theorem C16_decoded_hash_is_source :
  forall (H : bytes -> bytes) (o : oracle) (c : cell) (m : msg),
  masks_ok c -> decode_message H o c = Ok m ->
  repr_hash H c = Ok (m_hash m) /\ msg_hash H false m = Ok (m_hash m).
Proof. exact decoded_hash_is_source. Qed.
Print Assumptions C16_decoded_hash_is_source.

(** Same for transactions; the cell captured for SourceBoc is that cell. *)
Theorem C16_decoded_tx_hash_is_source :
  forall (H : bytes -> bytes) (o : oracle) (c : cell) (t : tx),
  masks_ok c -> decode_tx H o c = Ok t -> repr_hash H c = Ok (tx_hash t) /\ tx_src t = c.
Proof. exact decoded_tx_hash_is_source. Qed.
Print Assumptions C16_decoded_tx_hash_is_source.

(** ... and for the message nested in a transaction (in_msg): it is decoded
    from the first reference of the first reference, with that cell's hash. *)
Theorem C16_tx_in_msg_hash_is_source :
  forall (H : bytes -> bytes) (o : oracle) (c : cell) (t : tx) (m : msg),
  decode_tx H o c = Ok t -> tx_in_msg t = Some m ->
  exists c1 r, nth_error (cell_refs c) 0 = Some c1 /\ nth_error (cell_refs c1) 0 = Some r /\
               decode_message H o r = Ok m.
Proof. exact tx_in_msg_hash_is_source. Qed.

(** With the caching hasher, and wherever the record sits: if the cell is the
    unfolding of index k of ANY cell array (a whole block) in which shared
    cells are hashed once, decoding with the cached hash gives exactly the
    result of decoding with a fresh Cell.Hash() (by C02). *)
Theorem C16_cached_hasher_same_result :
  forall (H : bytes -> bytes) (o : oracle) (cells : list node) (k : nat) (c : cell),
  nth_error (trees_of 0 cells) k = Some (Ok c) ->
  decode_message_gen o (cached_hash H cells k) c = decode_message H o c /\
  decode_tx_gen o (cached_hash H cells k) (hash_cell H) c = decode_tx H o c.
Proof. exact cached_decode_same. Qed.
Print Assumptions C16_cached_hasher_same_result.

(** SourceBoc: every conforming bag-of-cells serialisation of the captured cell
    (any header variant, any forward order / sharing; tongo's serialiser output
    is checked to be one by C01's certificate and by this property's
    correspondence run) parses back (C01) to exactly one root whose hash is the
    reported transaction hash. *)
Theorem C16_source_boc_parses_back :
  forall (H : bytes -> bytes) (o : oracle) (c : cell) (t : tx) (v : variant) (cells : list node) (k : nat),
  decode_tx H o c = Ok t ->
  nth_error (trees_of 0 cells) k = Some (Ok (tx_src t)) ->
  layout_ok v cells [k] ->
  exists p, parse_boc (layout v cells [k]) = Ok p /\ p_roots p = [k] /\
            cached_hash H (p_cells p) k = Ok (tx_hash t).
Proof. exact source_boc_parses_back. Qed.
Print Assumptions C16_source_boc_parses_back.

(** ... and for tongo's OWN serialiser: SourceBoc is serializeBoc(c, false, false,
    false) with the hashes of the decoder's hasher (Model/BocSer.v, proved to
    emit the C01 layout of the re-ordered cells, C01_serialize.v).  For every
    cell array the captured cell sits in ([dag_wf], [node_ok]: what the parser
    returns; fewer than 2^24 cells), if equal hashes mean equal trees among the
    cells reachable from it ([collision_free], the idealisation of SHA-256 that
    C01's round trip needs, visible hypothesis): whenever the serialiser returns
    bytes, they parse to exactly one root whose hash is the reported one. *)
Theorem C16_source_boc_is_serialiser_output :
  forall (H : bytes -> bytes) (o : oracle) (c : cell) (t : tx) (cells : list node) (k : nat) (bs : bytes),
  decode_tx H o c = Ok t ->
  dag_wf cells -> Forall node_ok cells -> (N.of_nat (length cells) < 2 ^ 24)%N ->
  nth_error (trees_of 0 cells) k = Some (Ok (tx_src t)) ->
  collision_free cells (hasher_hashes H cells) [k] ->
  serialize cells (hasher_hashes H cells) [k] false false false = Ok bs ->
  exists p r', parse_boc bs = Ok p /\ p_roots p = [r'] /\ cached_hash H (p_cells p) r' = Ok (tx_hash t).
Proof. exact source_boc_model_parses_back. Qed.
Print Assumptions C16_source_boc_is_serialiser_output.

(** Hash(true) of an external-in message is the representation hash of the
    canonical re-encoding, a cell defined from (destination, body content) only
    (Spec/MsgCanon.v), whenever that cell has a hash. *)
Theorem C16_normalized_hash_spec :
  forall (H : bytes -> bytes) (m : msg) (src dest : addr) (fee : N) (h : bytes),
  m_info m = IExtIn src dest fee ->
  addr_wf dest -> (length (fst (m_body m)) <= 1023)%nat -> Forall masks_ok (snd (m_body m)) ->
  hash_cell H (canonical_cell dest (m_body m)) = Ok h ->
  msg_hash H true m = Ok h /\ repr_hash H (canonical_cell dest (m_body m)) = Ok h.
Proof. exact normalized_hash_spec. Qed.
Print Assumptions C16_normalized_hash_spec.

(** End to end, for every cell that decodes as an external-in message: the
    premises above hold, the destination is the decoded one and the body is the
    unread rest of the message cell or the content of one of its references. *)
Theorem C16_decoded_normalized_hash :
  forall (H : bytes -> bytes) (o : oracle) (c : cell) (m : msg) (src dest : addr) (fee : N) (h : bytes),
  masks_ok c -> bits_ok c ->
  decode_message H o c = Ok m -> m_info m = IExtIn src dest fee ->
  hash_cell H (canonical_cell dest (m_body m)) = Ok h ->
  msg_hash H true m = Ok h /\ repr_hash H (canonical_cell dest (m_body m)) = Ok h /\
  body_from c (m_body m) /\ addr_wf dest.
Proof. exact decoded_normalized_hash. Qed.
Print Assumptions C16_decoded_normalized_hash.

(** A decoded address is well formed and re-encodes (TL-B) to exactly the bits
    it was read from: the "destination" of the canonical cell is the one stored
    in the message. *)
Theorem C16_address_reencodes :
  forall (s : slc) (a : addr) (s' : slc),
  parse_addr s = Ok (a, s') -> sb s = addr_bits a ++ sb s' /\ sr s' = sr s /\ addr_wf a.
Proof. exact parse_addr_spec. Qed.

(** The normalised hash depends only on the destination (anycast of addr_std
    ignored) and the body CONTENT: source address, import fee, init (absent,
    inline or in a reference) and whether the body was inline or in a reference
    do not enter.  NOTE: as the code stands the anycast of an addr_var
    destination is NOT dropped ([canon_dest]). *)
Theorem C16_normalized_depends_only_on :
  forall (H : bytes -> bytes) (m1 m2 : msg) s1 d1 f1 s2 d2 f2,
  m_info m1 = IExtIn s1 d1 f1 -> m_info m2 = IExtIn s2 d2 f2 ->
  clear_std_anycast d1 = clear_std_anycast d2 ->
  m_body m1 = m_body m2 ->
  msg_hash H true m1 = msg_hash H true m2.
Proof. exact normalized_depends_only_on. Qed.
Print Assumptions C16_normalized_depends_only_on.

(** Conversely, if the hash function is collision free (idealisation, a
    hypothesis of the theorem): equal normalised hashes force the same canonical
    destination bits, the same body bits, the same number of body references,
    and the same hash/depth material contributed by those references. *)
Theorem C16_normalized_injective :
  forall (H : bytes -> bytes), (forall x y, H x = H y -> x = y) ->
  forall d1 d2 (b1 b2 : bits * list cell) h,
  (length (snd b1) <= 4)%nat -> (length (snd b2) <= 4)%nat ->
  repr_hash H (canonical_cell d1 b1) = Ok h ->
  repr_hash H (canonical_cell d2 b2) = Ok h ->
  addr_bits (canon_dest d1) = addr_bits (canon_dest d2) /\
  fst b1 = fst b2 /\ length (snd b1) = length (snd b2) /\
  exists k1 k2, kids_at H 0 (snd b1) = Ok k1 /\ kids_at H 0 (snd b2) = Ok k2 /\
                kid_material k1 = kid_material k2.
Proof. exact normalized_injective. Qed.
Print Assumptions C16_normalized_injective.

(** With ordinary trees as body references ([plain]: no exotic cell, level 0, at
    most 4 references, all the way down; with pruned branches the claim is false
    by design, a pruned branch has the hash of the cell it stands for) and a
    collision-free hash with 32-byte output: equal normalised hashes force equal
    bodies AS TREES (bits and every reference subtree). *)
Theorem C16_normalized_injective_trees :
  forall (H : bytes -> bytes), (forall x y, H x = H y -> x = y) -> (forall x, length (H x) = 32%nat) ->
  forall d1 d2 (b1 b2 : bits * list cell) h,
  (length (snd b1) <= 4)%nat -> (length (snd b2) <= 4)%nat ->
  Forall plain (snd b1) -> Forall plain (snd b2) ->
  repr_hash H (canonical_cell d1 b1) = Ok h ->
  repr_hash H (canonical_cell d2 b2) = Ok h ->
  addr_bits (canon_dest d1) = addr_bits (canon_dest d2) /\ b1 = b2.
Proof. exact normalized_injective_trees. Qed.
Print Assumptions C16_normalized_injective_trees.

(** the underlying fact: two ordinary trees with the same level-0 hash are equal *)
Theorem C16_plain_tree_hash_injective :
  forall (H : bytes -> bytes), (forall x y, H x = H y -> x = y) -> (forall x, length (H x) = 32%nat) ->
  forall c1 c2 i j h d1 d2,
  plain c1 -> plain c2 -> hd_at H c1 i = Ok (h, d1) -> hd_at H c2 j = Ok (h, d2) -> c1 = c2.
Proof. exact plain_tree_inj. Qed.

(** ... so messages with a different destination encoding, different body bits
    or a different number of body references have different Hash(true). *)
Theorem C16_normalized_distinguishes :
  forall (H : bytes -> bytes), (forall x y, H x = H y -> x = y) ->
  forall m1 m2 s1 d1 f1 s2 d2 f2 h1 h2,
  m_info m1 = IExtIn s1 d1 f1 -> m_info m2 = IExtIn s2 d2 f2 ->
  addr_wf d1 -> addr_wf d2 ->
  (length (fst (m_body m1)) <= 1023)%nat -> (length (fst (m_body m2)) <= 1023)%nat ->
  (length (snd (m_body m1)) <= 4)%nat -> (length (snd (m_body m2)) <= 4)%nat ->
  Forall masks_ok (snd (m_body m1)) -> Forall masks_ok (snd (m_body m2)) ->
  hash_cell H (canonical_cell d1 (m_body m1)) = Ok h1 ->
  hash_cell H (canonical_cell d2 (m_body m2)) = Ok h2 ->
  (addr_bits (canon_dest d1) <> addr_bits (canon_dest d2) \/
   fst (m_body m1) <> fst (m_body m2) \/
   length (snd (m_body m1)) <> length (snd (m_body m2))) ->
  msg_hash H true m1 <> msg_hash H true m2.
Proof. exact normalized_distinguishes. Qed.
Print Assumptions C16_normalized_distinguishes.

(** Internal and external-out messages: Hash(true) is Hash(false). *)
Theorem C16_normalized_non_ext_in :
  forall (H : bytes -> bytes) (m : msg),
  (forall s d f, m_info m <> IExtIn s d f) ->
  msg_hash H true m = Ok (m_hash m) /\ msg_hash H true m = msg_hash H false m.
Proof. exact normalized_non_ext_in. Qed.

(** `hash, _ := c.Hash256()`: when the canonical cell has no hash (a body
    reference of depth 1023 pushes the new root over the depth limit) Hash(true)
    silently returns 32 zero bytes. *)
Theorem C16_normalized_zero_on_error :
  forall (H : bytes -> bytes) (m : msg) src dest fee e,
  m_info m = IExtIn src dest fee ->
  addr_wf dest -> (length (fst (m_body m)) <= 1023)%nat ->
  hash_cell H (canonical_cell dest (m_body m)) = Err e ->
  msg_hash H true m = Ok zero_hash.
Proof. exact normalized_zero_on_error. Qed.

(** The transcribed decoders (Model/MsgOracle.v): with Hashmap.mapInner (label
    walk = C05's load_label) for the extra-currency, library and out_msgs
    dictionaries and TransactionDescr with all its phases written out, and no
    library resolver configured, the decoders are functions of the cell tree
    alone: [tongo_decode_message H c], [tongo_decode_tx H c].  All theorems
    above hold for them (they hold for every oracle); the main ones restated. *)
Theorem C16_tongo_decoders :
  forall (H : bytes -> bytes) (c : cell),
  masks_ok c ->
  (forall m, tongo_decode_message H c = Ok m ->
     repr_hash H c = Ok (m_hash m) /\ msg_hash H false m = Ok (m_hash m) /\
     (bits_ok c -> forall src dest fee h, m_info m = IExtIn src dest fee ->
        hash_cell H (canonical_cell dest (m_body m)) = Ok h ->
        msg_hash H true m = Ok h /\ repr_hash H (canonical_cell dest (m_body m)) = Ok h /\
        body_from c (m_body m) /\ addr_wf dest)) /\
  (forall t, tongo_decode_tx H c = Ok t ->
     repr_hash H c = Ok (tx_hash t) /\ tx_src t = c /\
     (forall m, tx_in_msg t = Some m ->
        exists c1 r, nth_error (cell_refs c) 0 = Some c1 /\ nth_error (cell_refs c1) 0 = Some r /\
                     tongo_decode_message H r = Ok m)).
Proof.
  intros H c Hm. split.
  - intros m E. destruct (decoded_hash_is_source H _ c m Hm E) as (A & B). split; [exact A|]. split; [exact B|].
    intros Hb src dest fee h Ei Hh. exact (decoded_normalized_hash H _ c m src dest fee h Hm Hb E Ei Hh).
  - intros t E. destruct (decoded_tx_hash_is_source H _ c t Hm E) as (A & B). split; [exact A|]. split; [exact B|].
    intros m Hi. exact (tx_in_msg_hash_is_source H _ c t m E Hi).
Qed.
Print Assumptions C16_tongo_decoders.

(** Library cells.  Without a resolver (tlb.Unmarshal, tlb.NewDecoder(): the
    decoders above) a library cell in decoder position is an error.  With
    Decoder.WithLibraryResolver and a library cell as the root, the record is
    decoded from the cell the resolver returns for the library cell's hash and
    reports the representation hash of THAT cell; for other roots nothing
    changes.  (Nested positions: resolved the same way by the code, not
    transcribed.) *)
Theorem C16_library_root_resolved :
  forall (H : bytes -> bytes) (resolve : bytes -> res cell) (o : oracle) (c : cell),
  (is_library_cell c = false -> decode_message_resolving H resolve o c = decode_message H o c) /\
  (forall m, is_library_cell c = true -> decode_message_resolving H resolve o c = Ok m ->
     exists h c', hash_cell H c = Ok h /\ resolve h = Ok c' /\
                  decode_message_body o (hash_cell H c') c' = Ok m /\
                  hash_cell H c' = Ok (m_hash m) /\
                  (masks_ok c' -> repr_hash H c' = Ok (m_hash m))).
Proof.
  intros H resolve o c. split; [apply resolving_without_library|].
  intros m. apply resolving_library_root.
Qed.

(** Histories on one variable (Model/MsgHist.v): a successful decode overwrites
    everything Hash / Hash(true) / SourceBoc look at.  Whatever the variable held
    before (zero value, another record, a half-written record of a failed
    decode), whatever was called on it, the state after decoding [c] is the same
    -- so every observable equals that of a fresh variable -- and it consists of
    the hasher's answer for [c], the source [c] itself and the fields of the
    pure decode function. *)
Theorem C16_decode_overwrites_everything :
  forall (S : Type) (o : oracle) (hr : res bytes) (hf : cell -> res bytes) (c : cell) (s : S)
         (v1 v2 v1' : tvar S),
  tx_assign o hr hf c s v1 = (v1', true) ->
  tx_assign o hr hf c s v2 = (v1', true) /\
  exists t, decode_tx_gen o hr hf c = Ok t /\ hr = Ok (tx_hash t) /\
            v1' = mktv (tx_hash t) (Some s) (Some t) /\ tx_src t = c.
Proof.
  intros S o hr hf c s v1 v2 v1' E. split; [eapply tx_assign_overwrites; exact E|].
  eapply tx_assign_fresh; exact E.
Qed.
Print Assumptions C16_decode_overwrites_everything.

Theorem C16_message_decode_overwrites_everything :
  forall (o : oracle) (hr : res bytes) (c : cell) (v1 v2 v1' : mvar),
  msg_assign o hr c v1 = (v1', true) ->
  msg_assign o hr c v2 = (v1', true) /\
  exists m, decode_message_gen o hr c = Ok m /\ v1' = mkmv (m_hash m) (Some m) /\ hr = Ok (m_hash m).
Proof.
  intros o hr c v1 v2 v1' E. split; [eapply msg_assign_overwrites; exact E|].
  eapply msg_assign_fresh; exact E.
Qed.

(** Accessors of a decoded block hand out the transactions the block contains:
    the harness compares the multiset of (lt, hash) of every accessor with the
    list the model computes from the transaction cells (c16.blk).  The seeded
    design that appends the address of the loop variable (C16-r6m1) returns
    k copies of the last element: not the list. *)
Theorem C16_loop_variable_alias_refuted :
  forall (A : Type) (x y : A) (l : list A),
  x <> y -> repeat (last (x :: l ++ [y]) x) (length (x :: l ++ [y])) <> x :: l ++ [y].
Proof. exact @loop_variable_alias_refuted. Qed.

(** What Hash(normalize) leaves in the receiver (Hash(true) clears the anycast
    of an addr_std destination through the shared ExtInMsgInfo pointer): the
    identity hash is never written, both hashes answer the same afterwards; the
    only change is that anycast, and nothing changes unless the message is
    external-in with an addr_std destination carrying an anycast. *)
Theorem C16_hash_calls_do_not_change_hashes :
  forall (H : bytes -> bytes) (b : bool) (m : msg) (n : bool),
  m_hash (after_hash b m) = m_hash m /\ msg_hash H n (after_hash b m) = msg_hash H n m.
Proof. exact after_hash_observables. Qed.

(** ... for any number of callers: every interleaving of Hash(false) / Hash(true)
    calls on one decoded message (each call atomic; what happens inside a call
    is a matter of the Go memory model, its observable consequence is checked by
    the concurrency oracle of the harness) answers exactly what a single call on
    the freshly decoded message answers. *)
Theorem C16_hash_calls_any_interleaving :
  forall (H : bytes -> bytes) (calls : list bool) (m : msg),
  run_hash_calls H calls m = map (fun n => msg_hash H n m) calls.
Proof. exact hash_calls_any_order. Qed.
Print Assumptions C16_hash_calls_any_interleaving.

(** Seeded designs refuted (Proofs/MsgHashHistory.v): reading the body through
    the message's own cell makes CopyRemaining's save / move / restore of the
    cursor visible: with the schedule A begins, B begins, A ends, B ends, B
    hashes an empty body and so does every later call (C16-r3m1); sizing the
    cell-count field from the largest index writes the count 256 as 0
    (C16-r3m2, the model uses byte_len of the count, C01). *)
Theorem C16_shared_cursor_design_refuted :
  forall b : bits, b <> [] ->
  let s0 := mksb b 0 in
  let '(ra, sa, s1) := copy_begin s0 in
  let '(rb, sb, s2) := copy_begin s1 in
  let s3 := copy_end sa s2 in
  let s4 := copy_end sb s3 in
  ra = b /\ rb = [] /\ fst (fst (copy_begin s4)) = [].
Proof. exact shared_cursor_design_refuted. Qed.

Theorem C16_index_width_design_refuted :
  byte_len (256 - 1)%N = 1%nat /\ be_n 1 256%N = [0%N] /\
  byte_len 256%N = 2%nat /\ be_n 2 256%N = [1%N; 0%N] /\
  byte_len (65536 - 1)%N = 2%nat /\ be_n 2 65536%N = [0%N; 0%N].
Proof. exact index_width_design_refuted. Qed.

Theorem C16_hash_true_receiver :
  forall m : msg,
  after_hash false m = m /\
  m_info (after_hash true m) = clear_info_anycast (m_info m) /\
  m_init (after_hash true m) = m_init m /\ m_body (after_hash true m) = m_body m /\
  m_body_ref (after_hash true m) = m_body_ref m /\
  ((forall s any wc x f, m_info m <> IExtIn s (AStd (Some any) wc x) f) -> after_hash true m = m).
Proof. exact after_hash_receiver. Qed.

(** The design in which SourceBoc keeps its answer inside the variable while
    UnmarshalTLB does not clear it (seeded mutant C16-r2m2) is refuted by the
    history decode A, SourceBoc, decode B, SourceBoc: the last answer is A's
    source although the hash and the captured cell are B's. *)
Theorem C16_cached_source_design_refuted :
  forall (S : Type) (o : oracle) (hf : cell -> res bytes) ca cb ha hb (a b : S) ta tb,
  decode_tx_gen o (Ok ha) hf ca = Ok ta -> decode_tx_gen o (Ok hb) hf cb = Ok tb ->
  is_library_cell ca = false -> is_library_cell cb = false ->
  let v0 := mkcv S tvar_zero None in
  let v1 := fst (cached_assign S o (Ok ha) hf ca a v0) in
  let v2 := snd (cached_source S v1) in
  let v3 := fst (cached_assign S o (Ok hb) hf cb b v2) in
  fst (cached_source S v3) = Some a /\ tv_src (cv_var S v3) = Some b /\ tv_hash (cv_var S v3) = tx_hash tb.
Proof. exact cached_source_design_refuted. Qed.

(** Non-vacuity: an external-in message (src addr_extern, dest addr_std with
    anycast, import fee 2 bytes, no init, inline body with one reference)
    decodes; its normalised hash exists and differs from its identity hash. *)
Definition ex_oracle : oracle := real_oracle (hash_cell sha256).
Definition ex_msg_cell : cell :=
  Cell false 0 0
    ([true; false]
     ++ [false; true] ++ bits_of 9 3 ++ [true; true; false]
     ++ [true; false] ++ (true :: bits_of 5 2 ++ [true; false]) ++ bits_of 8 255 ++ bits_of 256 12345
     ++ bits_of 4 2 ++ bits_of 16 999
     ++ [false] ++ [false] ++ [true; true; true])
    [Cell false 0 0 [true] []].

Example C16_premises_satisfiable :
  masks_ok ex_msg_cell /\ bits_ok ex_msg_cell /\
  exists m h dest,
    decode_message sha256 ex_oracle ex_msg_cell = Ok m /\
    m_info m = IExtIn (AExt [true; true; false]) dest 999 /\
    dest = AStd (Some (2, 2)%N) (-1) (bits_of 256 12345) /\
    hash_cell sha256 (canonical_cell dest (m_body m)) = Ok h /\
    msg_hash sha256 true m = Ok h /\ h <> m_hash m /\ m_body_ref m = false.
Proof.
  split; [cbn; repeat split; reflexivity|].
  split; [split; [vm_compute; apply Nat.leb_le; reflexivity|repeat constructor; vm_compute; apply Nat.leb_le; reflexivity]|].
  eexists. eexists. eexists.
  split; [vm_compute; reflexivity|].
  split; [vm_compute; reflexivity|].
  split; [reflexivity|].
  split; [vm_compute; reflexivity|].
  split; [vm_compute; reflexivity|].
  split; [vm_compute; discriminate|reflexivity].
Qed.
