(** C07 — printing a parsed cell terminates within the documented visit budget
    (Cell.ToString / toStringImpl, BOCSizeLimit = 65536).  Statements only. *)
From Coq Require Import List NArith ZArith Arith Lia Bool.
From Tongo Require Import Lib.Bits Lib.Res Model.BocParse Proofs.BocParseP Model.CellPrint Proofs.CellPrintP.
Import ListNotations.

(** For every byte string the parser accepts and every root, ToString prints at
    most 1 + 4 * BOCSizeLimit = 262145 lines — however many paths the shared
    sub-cells of the DAG span (4^k for k cells). *)
Theorem C07_print_bounded :
  forall bs p, Forall is_byte bs -> parse_boc bs = Ok p ->
  forall root, (to_string_lines (p_cells p) root <= 262145)%N.
Proof.
  intros bs p Hb Hp root. apply to_string_lines_bound. apply dag_wf_refs4.
  exact (proj1 (parse_sound bs p Hb Hp)).
Qed.
Print Assumptions C07_print_bounded.

(** One call of toStringImpl with budget b >= 0 on any array whose cells have
    at most four references leaves a budget b' with 0 <= b' <= b (it never
    steps over zero: once exhausted, the traversal stops for good) and prints
    at most 1 + 4 * (b - b') lines. *)
Theorem C07_print_call_bound :
  forall cells, refs_le4 cells -> forall fuel i b, (0 <= b)%Z ->
  (0 <= snd (print_at fuel cells i b) <= b)%Z /\
  (Z.of_N (fst (print_at fuel cells i b)) <= 1 + 4 * (b - snd (print_at fuel cells i b)))%Z.
Proof. exact print_at_bound. Qed.
Print Assumptions C07_print_call_bound.

(** The fuel of the model is immaterial on parsed arrays: any fuel >= n - i
    gives the same traversal, i.e. the Go recursion (which has no fuel)
    terminates and is this function. *)
Theorem C07_print_fuel_irrelevant :
  forall cells, dag_wf cells -> forall f1 f2 i b,
  (length cells - i <= f1)%nat -> (length cells - i <= f2)%nat ->
  print_at f1 cells i b = print_at f2 cells i b.
Proof. exact print_at_fuel. Qed.
Print Assumptions C07_print_fuel_irrelevant.

(** Non-vacuity: 11 cells, each referencing the next one four times (4^10
    paths, 1398101 tree nodes): the budget cuts the output at 65545 lines; the
    same chain with 60 cells (4^59 paths) prints 65697 lines. *)
Definition chain4 (k : nat) : list node :=
  map (fun i => mknode false 0 0 [] (if Nat.eqb (S i) k then [] else repeat (S i) 4)) (seq 0 k).

Example C07_print_fork_bomb :
  to_string_lines (chain4 11) 0 = 65545%N /\ to_string_lines (chain4 60) 0 = 65697%N.
Proof. vm_compute. split; reflexivity. Qed.
