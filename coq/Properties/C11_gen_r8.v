(** C11 obligation over data translated from /repo's current source
    (Generated/ConnSends.v is rewritten by harness/cmd/translate genC11r8 on every run):
    the tx cipher stream of a connection has a single writer at a time.

    Properties/C11.v proves that for every schedule of lock / encrypt / write / unlock
    steps ADMITTED BY THE CONNECTION MUTEX the wire is send_all of the packets in
    lock-acquisition order, and refutes the variant that encrypts and writes outside the
    lock (C11_early_unlock_refuted; the admitted schedules: C11_lock_serialises).  That every user of encryptedConn.send in the
    library actually is inside that mutex is a syntactic fact about the source,
    re-checked here:

    (1) the tx cipher is used (XORKeyStream) only inside encryptedConn.send and the field
        is mentioned nowhere else; conn.Write occurs only in encryptedConn.send and in
        encryptedConn.handshake;
    (2) every call of send is made with the receiver's mu held (Lock earlier at the top
        level of the same function, no Unlock in between, not in a function literal /
        go / defer), or in a function all of whose calls are made so (transitively), or
        in a session set-up function;
    (3) the session set-up functions (handshake, sendAuthRequest) are called only by
        newEncryptedConnection / Connection.setupEncryptedConnection, i.e. before the
        session is published to senders (Connection.Send refuses while the status is
        not Connected);
    (4) not vacuous: the sites of send itself and the locked call in Connection.Send
        were found. *)
From Coq Require Import String List Bool.
From Tongo Require Import Generated.ConnSends.
Import ListNotations.
Local Open Scope string_scope.

Definition is_kind (k : string) (s : conn_site) : bool := String.eqb (cs_kind s) k.
Definition in_func (r f : string) (s : conn_site) : bool :=
  String.eqb (cs_recv s) r && String.eqb (cs_func s) f.
Definition calls (t : string) : list conn_site :=
  filter (fun s => is_kind "call" s && String.eqb (cs_target s) t) conn_sites.

Definition held_here (s : conn_site) : bool := cs_held s && negb (cs_async s).

(** every call of the function named [f] is made with the lock held, directly or because the
    calling function is itself only called so; a function that is never called does not count *)
Fixpoint locked_only (fuel : nat) (f : string) : bool :=
  match fuel with
  | O => false
  | S k =>
      match calls f with
      | [] => false
      | cs => forallb (fun s => held_here s || locked_only k (cs_func s)) cs
      end
  end.

Definition fuel0 : nat := 8.

Definition setup_functions : list (string * (string * string)) :=
  [ ("handshake", ("", "newEncryptedConnection"));
    ("sendAuthRequest", ("Connection", "setupEncryptedConnection")) ].

Definition is_setup (s : conn_site) : bool :=
  existsb (fun p => String.eqb (cs_func s) (fst p)) setup_functions.

(* (1) *)
Definition tx_sites_confined : bool :=
  forallb (fun s =>
    (negb (is_kind "xor-tx" s) || in_func "encryptedConn" "send" s) &&
    negb (is_kind "tx-ref" s) &&
    (negb (is_kind "write" s) || in_func "encryptedConn" "send" s || in_func "encryptedConn" "handshake" s))
    conn_sites.

(* (2) *)
Definition send_calls_protected : bool :=
  forallb (fun s => held_here s || locked_only fuel0 (cs_func s) || is_setup s) (calls "send").

(* (3) *)
Definition setup_only_from_constructors : bool :=
  forallb (fun p =>
    forallb (fun s => in_func (fst (snd p)) (snd (snd p)) s && negb (cs_async s)) (calls (fst p)))
    setup_functions.

(* (4) *)
Definition sites_found : bool :=
  existsb (fun s => is_kind "xor-tx" s && in_func "encryptedConn" "send" s) conn_sites &&
  existsb (fun s => is_kind "write" s && in_func "encryptedConn" "send" s) conn_sites &&
  existsb (fun s => in_func "Connection" "Send" s && held_here s) (calls "send") &&
  existsb (String.eqb "connection.go") conn_source_files &&
  existsb (String.eqb "encrypted_conn.go") conn_source_files.

Definition tx_stream_single_writer : bool :=
  tx_sites_confined && send_calls_protected && setup_only_from_constructors && sites_found.

Theorem C11_gen_tx_stream_single_writer : tx_stream_single_writer = true.
Proof. vm_compute. reflexivity. Qed.

(** the individual parts, so that a failing run names the clause *)
Theorem C11_gen_tx_sites_confined : tx_sites_confined = true.
Proof. vm_compute. reflexivity. Qed.
Theorem C11_gen_send_calls_protected : send_calls_protected = true.
Proof. vm_compute. reflexivity. Qed.
Theorem C11_gen_setup_only_from_constructors : setup_only_from_constructors = true.
Proof. vm_compute. reflexivity. Qed.
