(** C20 obligations over data translated from /repo's current source
    (Generated/JsonTypes.v is rewritten by harness/cmd/translate on every run):
    every generated JSON method pair of tlb/integers.go, and Grams /
    SignedCoins of tlb/models.go, has exactly the format string, parsing
    function, literal arguments and trim cutset that Model/Json.v models for
    that type. *)
From Coq Require Import List NArith Bool String.
From Tongo Require Import Model.JsonText Model.Json Generated.JsonTypes.
Import ListNotations.
Local Open Scope N_scope.

Fixpoint nlist_eqb (a b : list N) : bool :=
  match a, b with
  | [], [] => true
  | x :: a', y :: b' => (x =? y) && nlist_eqb a' b'
  | _, _ => false
  end.

Definition fmt_d : list N := [37; 100].                  (* %d *)
Definition fmt_qd : list N := [34; 37; 100; 34].         (* quoted %d *)
Definition fmt_qs : list N := [34; 37; 115; 34].         (* quoted %s *)
Definition fmt_qx : list N := [34; 37; 120; 34].         (* quoted %x *)
Definition cut_quote : list N := [34].
Definition cut_quote_sp_nl : list N := [34; 32; 10].

(* what the model assumes of one type *)
Definition jtype_ok (t : jtype) : bool :=
  jt_both t &&
  let n := jt_n t in
  let fixed (parse : N) :=
    (* print_uint / print_int: number up to 56 bits, quoted from 57;
       parse_uint_json / parse_int_json: base 10, bit size = the type's width,
       Go storage wide enough *)
    nlist_eqb (jt_format t) (if quoted_width n then fmt_qd else fmt_d)
    && (jt_parse t =? parse) && nlist_eqb (jt_args t) [10; n]
    && nlist_eqb (jt_cutset t) cut_quote && (n <=? jt_go_bits t) in
  let big :=
    (* print_big / parse_big_json *)
    nlist_eqb (jt_format t) fmt_qs && (jt_parse t =? 2) && nlist_eqb (jt_args t) [10]
    && nlist_eqb (jt_cutset t) cut_quote in
  if jt_kind t =? 0 then (if n <=? 64 then fixed 0 else big)
  else if jt_kind t =? 1 then (if n <=? 64 then fixed 1 else big)
  else if jt_kind t =? 2 then big
  else if jt_kind t =? 3 then
    (* print_bytes_hex / parse_bytes_hex (n/8) *)
    nlist_eqb (jt_format t) fmt_qx && (jt_parse t =? 3) && nlist_eqb (jt_args t) [n / 8]
    && nlist_eqb (jt_cutset t) cut_quote && (jt_go_bits t =? n) && (n mod 8 =? 0)
  else if jt_kind t =? 4 then
    (* print_grams / parse_grams *)
    nlist_eqb (jt_format t) fmt_qd && (jt_parse t =? 0) && nlist_eqb (jt_args t) [10; 64]
    && nlist_eqb (jt_cutset t) cut_quote_sp_nl
  else if jt_kind t =? 5 then
    (* print_coins / parse_coins: ParseInt after the repair of F8 *)
    nlist_eqb (jt_format t) fmt_qd && (jt_parse t =? 1) && nlist_eqb (jt_args t) [10; 64]
    && nlist_eqb (jt_cutset t) cut_quote_sp_nl
  else false.

Theorem C20_gen_types_ok : forallb jtype_ok json_types = true.
Proof. vm_compute. reflexivity. Qed.

(* the cutsets are the ones the model trims with *)
Theorem C20_gen_cutsets :
  forallb (fun c => is_quote c) cut_quote = true /\
  forallb (fun c => is_quote_sp_nl c) cut_quote_sp_nl = true /\
  forallb (fun c => Bool.eqb (is_quote c) (existsb (N.eqb c) cut_quote)
                    && Bool.eqb (is_quote_sp_nl c) (existsb (N.eqb c) cut_quote_sp_nl))
          (map N.of_nat (seq 0 256)) = true.
Proof. vm_compute. repeat split. Qed.

(* every width 1..64 exists in both signednesses, plus the big and hash types the
   harness exercises *)
Definition has (kind n : N) : bool :=
  existsb (fun t => (jt_kind t =? kind) && (jt_n t =? n)) json_types.

Theorem C20_gen_coverage :
  forallb (fun w => has 0 w && has 1 w) (map N.of_nat (seq 1 64)) = true /\
  forallb (fun w => has 0 w && has 1 w) [128; 256; 257] = true /\
  forallb (has 2) (map N.of_nat (seq 1 32)) = true /\
  forallb (has 3) [80; 96; 128; 256; 264; 320; 352; 512] = true /\
  has 4 64 = true /\ has 5 64 = true.
Proof. vm_compute. repeat split. Qed.

(* the list is closed: every type of packages boc, tlb, ton, tl, abi that has BOTH
   MarshalJSON and UnmarshalJSON today (tlb/integers.go, Grams and SignedCoins
   are the entries of json_types above) is either a family of Model/Json.v with
   its round-trip theorem in Properties/C20.v, or one of the reflection-based
   envelopes of package abi, which the harness checks with the equal-value oracle
   on library-decoded values (c20.envdec); a type that gains the method pair
   without being put on one of the two lists fails this obligation *)
Local Open Scope string_scope.
Definition modelled_types : list string :=
  ["boc.BitString"; "boc.Cell"; "tl.Int256"; "tlb.Any"; "tlb.Magic"; "tlb.Maybe"; "tlb.MsgAddress";
   "ton.AccountID"; "ton.Bits256"].
Definition oracle_only_types : list string :=
  ["abi.ExtOutMsgBody"; "abi.InMsgBody"; "abi.JettonPayload"; "abi.NFTPayload"].
Definition mem_str (x : string) (l : list string) : bool := existsb (String.eqb x) l.

Theorem C20_gen_pairs_closed :
  forallb (fun t => mem_str t (modelled_types ++ oracle_only_types)) json_pairs = true /\
  forallb (fun t => mem_str t json_pairs) (modelled_types ++ oracle_only_types) = true.
Proof. vm_compute. split; reflexivity. Qed.
