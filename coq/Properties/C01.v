(** C01 — placeholder until Proofs/BocLayoutP.v lands. *)
From Coq Require Import List NArith.
From Tongo Require Import Lib.Res Model.BocParse Proofs.BocParseP.
Theorem C01_parsed_result_is_sound :
  forall bs p, Forall is_byte bs -> parse_boc bs = Ok p ->
  dag_wf (p_cells p) /\ Forall (fun r => r < length (p_cells p))%nat (p_roots p).
Proof. exact parse_sound. Qed.
