(** C11 obligations over data translated from /repo's current source
    (Generated/AdnlConsts.v is rewritten by harness/cmd/translate/c11.go on every
    run): the constants and slice bounds of liteclient/adnl.go and
    encrypted_conn.go are the ones of the protocol (Spec/AdnlSpec.v) and the
    ones the model (Model/AdnlT.v) computes with.  Bounds are linear forms
    (k, c) = k*L + c in the one variable length L of the function; (2, 0) is
    "to the end".  Each check applies the translated bounds to the model's
    output on probe values and compares with the intended component. *)
From Coq Require Import List NArith ZArith String Bool.
From Tongo Require Import Lib.Bits Spec.AdnlSpec Model.AdnlT Generated.AdnlConsts.
Import ListNotations.
Local Open Scope string_scope.

(* value of a bound for L = l and a sequence of n elements *)
Definition bnd (b : Z * Z) (l n : nat) : nat :=
  let '(k, c) := b in
  if Z.eqb k 2 then n else Z.to_nat (k * Z.of_nat l + c).

(* x[lo:hi] with translated bounds *)
Definition sl {A} (e : string * (Z * Z) * (Z * Z)) (l : nat) (x : list A) : list A :=
  let '(_, lo, hi) := e in slice (bnd lo l (List.length x)) (bnd hi l (List.length x)) x.

Definition names {B C} (t : list (string * B * C)) : list string := map (fun e => fst (fst e)) t.

Definition nth_e (t : list (string * (Z * Z) * (Z * Z))) (i : nat) :=
  nth i t ("", (99, 99)%Z, (99, 99)%Z).

Definition list_N_eqb (a b : list N) : bool := bytes_eqb a b.

Definition probe (n : nat) : list N := map N.of_nat (seq 0 n).
Definition probe_from (a n : nat) : list N := map N.of_nat (seq a n).

(* toy instances for evaluating the model: H tags its input List.length and first
   bytes, the cipher records key and iv and produces a zero keystream *)
Definition gH (x : list N) : list N :=
  firstn 32 (N.of_nat (List.length x) :: x ++ repeat 0%N 32).
Definition gstate := (list N * list N)%type.
Definition gnext (s : gstate) : N * gstate := (0%N, s).
Definition ginit (k iv : list N) : gstate := (k, iv).

(* ---------- session parameters ---------- *)

Theorem C11_gen_params_len : c11_params_len = N.of_nat params_len.
Proof. vm_compute. reflexivity. Qed.

Theorem C11_gen_params_accessors_names :
  names c11_params_accessors = ["rxKey"; "txKey"; "rxNonce"; "txNonce"; "padding"].
Proof. vm_compute. reflexivity. Qed.

(* rxKey/txKey/rxNonce/txNonce/padding = cipher A key, cipher B key, cipher A
   iv, cipher B iv, padding of the protocol *)
Theorem C11_gen_params_layout :
  map (fun e => let '(_, lo, hi) := e in (bnd lo 0 160, bnd hi 0 160)) c11_params_accessors
  = params_layout.
Proof. vm_compute. reflexivity. Qed.

(* the model's accessors are these slices *)
Theorem C11_gen_params_model :
  let p := probe 160 in
  sl (nth_e c11_params_accessors 0) 0 p = rx_key p /\
  sl (nth_e c11_params_accessors 1) 0 p = tx_key p /\
  sl (nth_e c11_params_accessors 2) 0 p = rx_nonce p /\
  sl (nth_e c11_params_accessors 3) 0 p = tx_nonce p.
Proof. vm_compute. repeat split. Qed.

(* cipher (sending) = AES(txKey) CTR(txNonce) = cipher B of the protocol,
   decipher = AES(rxKey) CTR(rxNonce) = cipher A; same in the model *)
Theorem C11_gen_cipher_wiring :
  c11_cipher_wiring = [("cipher", "txKey", "txNonce"); ("decipher", "rxKey", "rxNonce")].
Proof. vm_compute. reflexivity. Qed.

Theorem C11_gen_cipher_wiring_spec :
  let p := probe 160 in
  client_tx0 gstate ginit p = cipherB gstate ginit p /\
  client_rx0 gstate ginit p = cipherA gstate ginit p /\
  client_tx0 gstate ginit p = (sl (nth_e c11_params_accessors 1) 0 p, sl (nth_e c11_params_accessors 3) 0 p) /\
  client_rx0 gstate ginit p = (sl (nth_e c11_params_accessors 0) 0 p, sl (nth_e c11_params_accessors 2) 0 p).
Proof. vm_compute. repeat split. Qed.

(* ---------- key id ---------- *)

Theorem C11_gen_address_tag : c11_address_tag = pub_ed25519_tag.
Proof. vm_compute. reflexivity. Qed.

Theorem C11_gen_address_tag_model :
  address_hash (fun x => x) [] = c11_address_tag.
Proof. vm_compute. reflexivity. Qed.

(* ---------- List.length bounds of ParsePacket ---------- *)

Theorem C11_gen_parse_reject :
  c11_parse_reject = (1, Z.of_N frame_min, 3, Z.of_N frame_max)%Z /\
  c11_parse_reject = (1, Z.of_N min_packet_len, 3, Z.of_N max_packet_len)%Z.
Proof. vm_compute. split; reflexivity. Qed.

(* ---------- Packet.size / Packet.marshal ---------- *)

Theorem C11_gen_size :
  c11_size_endian = "LittleEndian" /\ c11_size_makes = [(0, 4)%Z] /\
  forallb (fun n => N.eqb (of_le32 (packet_size (repeat 0%N n)))
                          (N.of_nat (bnd c11_size_value n 0)))
          [0; 1; 5; 255; 256; 300]%nat = true.
Proof. vm_compute. repeat split. Qed.

Definition marshal_probe (n : nat) :=
  let nonce := probe_from 100 32 in
  let payload := probe_from 200 n in
  let m := marshal gH nonce payload in
  Nat.eqb (List.length m) (bnd (hd (99, 99)%Z c11_marshal_makes) n 0) &&
  list_N_eqb (sl (nth_e c11_marshal_slices 0) n m) (packet_size payload) &&
  list_N_eqb (sl (nth_e c11_marshal_slices 1) n m) nonce &&
  list_N_eqb (sl (nth_e c11_marshal_slices 3) n m) payload &&
  list_N_eqb (sl (nth_e c11_marshal_slices 4) n m) (gH (nonce ++ payload)) &&
  list_N_eqb m (frame gH nonce payload).

Theorem C11_gen_marshal :
  names c11_marshal_slices = ["b"; "b"; "p.nonce"; "b"; "b"] /\
  List.length c11_marshal_makes = 1%nat /\
  forallb marshal_probe [0; 1; 5; 40]%nat = true.
Proof. vm_compute. repeat split. Qed.

(* ---------- ParsePacket ---------- *)

Definition parse_probe (n : nat) :=
  let nonce := probe_from 100 32 in
  let payload := probe_from 200 n in
  let f := frame gH nonce payload in
  let data := skipn 4 f in
  let L := List.length data in
  match parse_packet gH gstate gnext [f] ([], []) with
  | POk _ nn pp _ _ =>
      list_N_eqb (sl (nth_e c11_parse_slices 1) L data) nn &&
      list_N_eqb (sl (nth_e c11_parse_slices 2) L data) pp &&
      list_N_eqb (sl (nth_e c11_parse_slices 3) L data) (gH (nn ++ pp)) &&
      list_N_eqb nn nonce && list_N_eqb pp payload &&
      Nat.eqb (bnd (nth 1 c11_parse_makes (99, 99)%Z) L 0) L &&
      Nat.eqb (bnd (nth 2 c11_parse_makes (99, 99)%Z) L 0) (List.length pp)
  | PErr _ _ _ => false
  end.

Theorem C11_gen_parse :
  names c11_parse_slices = ["p.nonce"; "data"; "data"; "data"] /\
  nth 0 c11_parse_makes (99, 99)%Z = (0, 4)%Z /\ List.length c11_parse_makes = 3%nat /\
  forallb parse_probe [0; 1; 5; 40]%nat = true.
Proof. vm_compute. repeat split. Qed.

(* ---------- handshake ---------- *)

Definition handshake_probe :=
  let shared := probe_from 100 32 in
  let hp := probe_from 200 32 in
  let spub := probe_from 10 32 in
  let cpub := probe_from 50 32 in
  let params := probe 160 in
  let hs := handshake_bytes gH gstate gnext ginit spub params cpub shared in
  let e i := nth_e c11_handshake_slices i in
  (* key = shared[0:16] | hash[16:32], nonce = hash[0:4] | shared[20:32] *)
  list_N_eqb (hs_key shared hp) (sl (e 0%nat) 0 shared ++ sl (e 1%nat) 0 hp) &&
  list_N_eqb (hs_nonce shared hp) (sl (e 2%nat) 0 hp ++ sl (e 3%nat) 0 shared) &&
  (* the whole parameter block is encrypted *)
  list_N_eqb (sl (e 4%nat) 0 params) params &&
  (* request layout *)
  Nat.eqb (List.length hs) (bnd (hd (99, 99)%Z c11_handshake_makes) 0 0) &&
  Nat.eqb (List.length hs) handshake_len &&
  list_N_eqb (sl (e 5%nat) 0 hs) (address_hash gH spub) &&
  list_N_eqb (sl (e 6%nat) 0 hs) cpub &&
  list_N_eqb (sl (e 7%nat) 0 hs) (gH params) &&
  list_N_eqb (sl (e 8%nat) 0 hs) params (* zero keystream *).

Theorem C11_gen_handshake :
  names c11_handshake_slices =
    ["keys.shared"; "params.hash()"; "params.hash()"; "keys.shared"; "params";
     "req"; "req"; "req"; "req"] /\
  handshake_probe = true.
Proof. vm_compute. split; reflexivity. Qed.
