(** C01 — results do not depend on what other goroutines do with other cells.
    Model/BocConc.v: [conc_answers] is what N goroutines compute, each for its
    own DAG (Cell.Hash and the bytes of the serialiser).  Immediate in the
    model, which is a pure function of the request's own DAG; the content is the
    c01.conc correspondence (N goroutines of the real package against the
    answers computed one after the other). *)
From Coq Require Import List NArith Arith Bool.
From Tongo Require Import Lib.Bits Lib.Res Model.BocParse Model.BocSer Model.BocConc.
Import ListNotations.

(** the answer for a DAG is the same whatever the other goroutines work on, and
    however many there are *)
Theorem C01_concurrent_independent :
  forall (hf : list node -> list (res bytes)) idx crc cache before after before' after' dag d,
  nth (length before) (conc_answers hf idx crc cache (before ++ dag :: after)) d
  = conc_answer hf idx crc cache dag /\
  nth (length before') (conc_answers hf idx crc cache (before' ++ dag :: after')) d
  = nth (length before) (conc_answers hf idx crc cache (before ++ dag :: after)) d.
Proof.
  intros hf idx crc cache before after before' after' dag d.
  assert (A : forall b a, nth (length b) (conc_answers hf idx crc cache (b ++ dag :: a)) d
                          = conc_answer hf idx crc cache dag).
  { intros b a. unfold conc_answers. rewrite map_app. cbn [map].
    rewrite app_nth2 by (rewrite map_length; apply le_n).
    rewrite map_length, Nat.sub_diag. reflexivity. }
  split; [apply A|]. rewrite !A. reflexivity.
Qed.
Print Assumptions C01_concurrent_independent.

(** and it is exactly the sequential answer: hash of cell 0 and [serialize] on
    the goroutine's own array *)
Theorem C01_concurrent_is_sequential :
  forall (hf : list node -> list (res bytes)) idx crc cache dag,
  conc_answer hf idx crc cache dag
  = (match nth_error (hf dag) 0 with Some h => h | None => Panic PNil end,
     serialize dag (hf dag) [0] idx crc cache).
Proof. reflexivity. Qed.
