(** C01 — the bytes emitted by the serialiser model ARE the bag-of-cells layout
    of the re-ordered cells, for every input, and the round trip
    parse (serialize roots) returns cells that unfold to the same trees.
    Statements only; proofs in Proofs/BocSerLayoutP1..P8.v.

    Vocabulary (all defined in the proof files, recalled here):
    - [dag] is a cell array in BOC order (references point forward: [dag_wf],
      at most 1023 bits and 4 references per cell) — what the parser returns;
      [hashes] gives, per cell, the outcome of the level-3 hash (sharing is
      decided by it, as in importCell); [roots] are indices into [dag].
    - [node_ok nd]: 3-bit level mask, and the type byte is consistent with the
      data (exotic: at least 8 data bits, type = first data byte, non-zero;
      ordinary: type 0).  The serialiser writes neither [n_type] nor checks it,
      so a round trip can only hold for consistent cells.
    - [imported dag hashes roots st0 m rootpos stf nl]: [import_phase] returned
      the import array [st0] and root positions [rootpos]; [import_roots]
      returned [(stf, nl, map (newidx stf) rootpos)]; [reorder_pre st0],
      [reorder_post st0 rootpos stf nl] (C01_reorder.v) and [nl] is a
      permutation of [0 .. length st0 - 1]; every entry of [st0] points to a cell
      of [dag], has as many references as that cell, its j-th reference being an
      entry whose hash equals the hash of the cell's j-th child ([IS0]); and
      [rootpos] are entries with the hashes of [roots].
    - [out_cells dag stf nl]: the emitted cells, reverse allocation order;
      [epos stf nl i = length nl - 1 - newidx stf i]: emitted position of entry i;
      [emitted_as dag st0 stf nl cells]: for every entry [i] of [st0], [cells] at
      [epos i] is the payload (special, type, mask, bits) of input cell
      [ci_node (st0 i)] with references [map epos (ci_refs (st0 i))].
    - [out_variant]: the header variant determined by the options and the sizes:
      generic magic b5ee9c72, has_idx/has_crc/has_cache_bits as requested,
      size = [byte_len] (minimal byte width) of the cell count, off_bytes =
      [byte_len] of the total cells size, absent = 0, no stored hashes, index
      bytes exactly as the model writes them (offsets doubled plus the cache
      flag when cache bits are requested, truncated to off_bytes bytes). *)
From Coq Require Import List NArith ZArith Arith Bool Lia Permutation.
From Tongo Require Import Lib.Bits Lib.Res Model.BocParse Model.CellHash Model.BocSer Spec.BocLayout
  Proofs.BocParseP Proofs.BocLayoutP Proofs.BocReorderP1 Proofs.BocReorderP3 Proofs.BocReorderP4
  Proofs.BocSerLayoutP1 Proofs.BocSerLayoutP2 Proofs.BocSerLayoutP3 Proofs.BocSerLayoutP4
  Proofs.BocSerLayoutP5 Proofs.BocSerLayoutP6 Proofs.BocSerLayoutP7 Proofs.BocSerLayoutP8.
Import ListNotations.

(** the variant of [serialize_is_layout], spelled out *)
Theorem C01_out_variant_is :
  forall dag stf nl idx hasCrc cacheBits,
  out_variant dag stf nl idx hasCrc cacheBits =
  let n := length nl in
  let size := byte_len (N.of_nat n) in
  let data := concat (map (fun c => enc_cell size c []) (out_cells dag stf nl)) in
  let off := byte_len (N.of_nat (length data)) in
  mkvariant 0 idx hasCrc cacheBits size off 0
            (s_index idx off (out_offsets dag stf nl cacheBits)) (repeat [] n).
Proof. reflexivity. Qed.

(** 1. [serialize_is_layout]: for ALL arrays, hashes, roots and the 8 option
    combinations, whenever the model returns bytes they are [layout v cells ri]
    for the variant above, the emitted cells and the emitted root positions, the
    layout satisfies [layout_ok] (premise of C01_parse_layout), and the emitted
    cells are the imported cells with references remapped.
    Hypotheses: [dag_wf] (forward references, <= 1023 bits, <= 4 refs: the
    fuel of the import and the 128-byte data bound rely on it); [node_ok]
    (see above); hashes are not model fuel failures; fewer than 2^24 cells (the
    3-bit signed size field: WriteInt(refByteSize, 3) writes 4 as 0); fewer than
    256 roots (the root count is written in [size] bytes, the serialiser does
    not check that it fits; the public entry points pass one root). *)
Theorem C01_serialize_is_layout :
  forall (dag : list node) (hashes : list (res bytes)),
  dag_wf dag -> hashes_real hashes -> Forall node_ok dag ->
  forall (roots : list nat) (idx hasCrc cacheBits : bool) (bs : bytes),
  (N.of_nat (length dag) < 2 ^ 24)%N -> length roots < 256 ->
  serialize dag hashes roots idx hasCrc cacheBits = Ok bs ->
  exists st0 m rootpos stf nl,
    imported dag hashes roots st0 m rootpos stf nl /\
    let v := out_variant dag stf nl idx hasCrc cacheBits in
    let cells := out_cells dag stf nl in
    let ri := map (epos stf nl) rootpos in
    bs = layout v cells ri /\ layout_ok v cells ri /\ emitted_as dag st0 stf nl cells.
Proof. exact serialize_is_layout. Qed.
Print Assumptions C01_serialize_is_layout.

(** the same with the bound on the number of DISTINCT (emitted) cells instead of
    the size of the input array *)
Theorem C01_serialize_is_layout_distinct :
  forall (dag : list node) (hashes : list (res bytes)),
  dag_wf dag -> hashes_real hashes -> Forall node_ok dag ->
  forall (roots : list nat) (idx hasCrc cacheBits : bool) (bs : bytes),
  length roots < 256 ->
  serialize dag hashes roots idx hasCrc cacheBits = Ok bs ->
  exists st0 m rootpos stf nl,
    imported dag hashes roots st0 m rootpos stf nl /\
    ((N.of_nat (length nl) < 2 ^ 24)%N ->
     let v := out_variant dag stf nl idx hasCrc cacheBits in
     let cells := out_cells dag stf nl in
     let ri := out_roots (length nl) (map (newidx stf) rootpos) in
     bs = layout v cells ri /\ layout_ok v cells ri /\
     emitted_as dag st0 stf nl cells /\ ri = map (epos stf nl) rootpos).
Proof. exact serialize_is_layout_gen. Qed.

(** what [imported] gives about the count: every input cell is imported at most
    once, every imported cell is emitted exactly once *)
Theorem C01_imported_count :
  forall dag hashes roots st0 m rootpos stf nl,
  imported dag hashes roots st0 m rootpos stf nl ->
  length nl = length st0 /\ length st0 <= length dag.
Proof. exact imported_count. Qed.

(** 2. outcomes.  (a) The size limit, exactly: after a successful import the
    result is [Err ESer] iff the layout without its CRC trailer is longer than
    the capacity (1023 + 32*4 + 32*3) * cellCount bits of the output bit string,
    and otherwise it is the layout. *)
Theorem C01_serialize_capacity :
  forall (dag : list node) (hashes : list (res bytes)),
  dag_wf dag -> hashes_real hashes -> Forall node_ok dag ->
  forall roots idx hasCrc cacheBits stf nl rootidx,
  (N.of_nat (length dag) < 2 ^ 24)%N ->
  import_roots dag hashes roots = Ok (stf, nl, rootidx) ->
  let v := out_variant dag stf nl idx hasCrc cacheBits in
  let cells := out_cells dag stf nl in
  let ri := out_roots (length nl) rootidx in
  serialize dag hashes roots idx hasCrc cacheBits =
  if (s_capacity (length nl) <? 8 * N.of_nat (body_len v cells ri))%N then Err ESer
  else Ok (layout v cells ri).
Proof. exact serialize_capacity. Qed.

(** (b) No panic of its own and no other error: on a well-formed array with a
    hash entry per cell and roots inside the array the only errors are the
    depth limit of importCell, the output capacity, or an error of the hasher;
    a panic can only be a panic of the hasher. *)
Theorem C01_serialize_outcomes :
  forall (dag : list node) (hashes : list (res bytes)),
  dag_wf dag -> length dag <= length hashes -> hashes_real hashes ->
  forall roots idx hasCrc cacheBits,
  Forall (fun r => r < length dag) roots ->
  match serialize dag hashes roots idx hasCrc cacheBits with
  | Ok _ => True
  | Err e => e = EDepth \/ e = ESer \/ exists c, nth_error hashes c = Some (Err e)
  | Panic p => exists c, nth_error hashes c = Some (Panic p)
  end.
Proof. exact serialize_outcomes. Qed.

(** (c) [serialize_succeeds]: every cell hashed ([all_hashed]), 1..8 roots
    inside the array, no reference path from a root longer than 1024
    ([depth_ok]: a rank decreasing along references, at most 1024 on the
    roots), fewer than 2^24 cells: the model returns bytes.  In particular the
    capacity is never exceeded with up to 8 roots (with zero roots, or with many
    duplicate roots over few small cells, it is: [Err ESer]). *)
Theorem C01_serialize_succeeds :
  forall dag hashes roots idx hasCrc cacheBits,
  dag_wf dag -> Forall node_ok dag -> all_hashed dag hashes ->
  (N.of_nat (length dag) < 2 ^ 24)%N ->
  Forall (fun r => r < length dag) roots -> 1 <= length roots <= 8 ->
  depth_ok dag roots ->
  exists bs, serialize dag hashes roots idx hasCrc cacheBits = Ok bs.
Proof. exact serialize_succeeds_ok. Qed.
Print Assumptions C01_serialize_succeeds.

(** 3. [boc_roundtrip_model].  [collision_free]: on the cells reachable from
    the roots, equal hashes imply equal unfolded trees (the idealisation of
    SHA-256; a visible hypothesis).  Then the parser accepts the emitted bytes,
    returns exactly the emitted cells and root positions, and every parsed root
    unfolds ([unfold_at], BocParseP.v) to the SAME tree as the corresponding
    input root: same bits, exotic flag, type, level mask, references in order,
    recursively — "structurally identical". *)
Theorem C01_boc_roundtrip_model :
  forall (dag : list node) (hashes : list (res bytes)) (roots : list nat),
  dag_wf dag -> Forall node_ok dag -> hashes_real hashes ->
  (N.of_nat (length dag) < 2 ^ 24)%N -> length roots < 256 ->
  collision_free dag hashes roots ->
  forall (idx hasCrc cacheBits : bool) (bs : bytes),
  serialize dag hashes roots idx hasCrc cacheBits = Ok bs ->
  exists p st0 m rootpos stf nl,
    parse_boc bs = Ok p /\
    imported dag hashes roots st0 m rootpos stf nl /\
    p_cells p = out_cells dag stf nl /\ p_roots p = map (epos stf nl) rootpos /\
    dag_wf (p_cells p) /\
    Forall2 (fun r' r => exists t, unfold_at (length dag) dag r = Some t /\
                                   unfold_at (length (p_cells p)) (p_cells p) r' = Some t)
            (p_roots p) roots.
Proof. exact boc_roundtrip_model. Qed.
Print Assumptions C01_boc_roundtrip_model.

(** every imported cell, not only the roots: the emitted position of entry [i]
    unfolds to the tree of its input cell *)
Theorem C01_emitted_same_tree :
  forall (dag : list node) (hashes : list (res bytes)) (roots : list nat),
  collision_free dag hashes roots ->
  forall (P Q : Prop) st0 m stf nl cells,
  IS2 dag hashes (dreach dag roots) P Q st0 m -> reorder_pre st0 ->
  emitted_as dag st0 stf nl cells ->
  forall i, i < length st0 -> forall t,
  unf dag (nodeix st0 i) t -> unf cells (epos stf nl i) t.
Proof. exact emitted_same_tree. Qed.

(** "shared sub-trees are stored once": if moreover equal trees have equal
    hashes ([hash_functional]: the hash is a function of the structure), the
    parsed (= emitted) cells are as many as the DISTINCT hashes of the cells
    reachable from the roots: [hs] lists those hashes without repetition. *)
Theorem C01_stored_once :
  forall (dag : list node) (hashes : list (res bytes)) (roots : list nat),
  dag_wf dag -> Forall node_ok dag -> hashes_real hashes ->
  (N.of_nat (length dag) < 2 ^ 24)%N -> length roots < 256 ->
  collision_free dag hashes roots ->
  forall (idx hasCrc cacheBits : bool) (bs : bytes),
  hash_functional dag hashes roots ->
  serialize dag hashes roots idx hasCrc cacheBits = Ok bs ->
  exists p hs,
    parse_boc bs = Ok p /\ NoDup hs /\ length hs = length (p_cells p) /\
    (forall c, dreach dag roots c -> exists h, hash_of hashes c h /\ In h hs) /\
    (forall h, In h hs -> exists c, dreach dag roots c /\ hash_of hashes c h).
Proof. exact stored_once. Qed.
Print Assumptions C01_stored_once.

(** end to end, total form: under the hypotheses of 2(c) and 3 the model
    serialises, the parser accepts, and the roots unfold to the same trees *)
Theorem C01_boc_roundtrip_total :
  forall dag hashes roots idx hasCrc cacheBits,
  dag_wf dag -> Forall node_ok dag -> all_hashed dag hashes ->
  (N.of_nat (length dag) < 2 ^ 24)%N ->
  Forall (fun r => r < length dag) roots -> 1 <= length roots <= 8 ->
  depth_ok dag roots -> collision_free dag hashes roots ->
  exists bs p,
    serialize dag hashes roots idx hasCrc cacheBits = Ok bs /\ parse_boc bs = Ok p /\
    dag_wf (p_cells p) /\
    Forall2 (fun r' r => exists t, unfold_at (length dag) dag r = Some t /\
                                   unfold_at (length (p_cells p)) (p_cells p) r' = Some t)
            (p_roots p) roots.
Proof. exact boc_roundtrip_total. Qed.
Print Assumptions C01_boc_roundtrip_total.

(** *** Non-vacuity.  Four cells; cells 1 and 2 have the same structure (and
    the same hash) but are different array entries; cell 3 is an exotic
    (library-type) cell shared by 1, 2 and the root.  The serialiser stores
    three cells. *)
Definition exs_dag : list node :=
  [ mknode false 0 0 [true] [1; 2; 3];
    mknode false 0 0 [false] [3];
    mknode false 0 0 [false] [3];
    mknode true 2 0 (bits_of 8 2 ++ [true; false]) [] ].
Definition exs_hashes : list (res bytes) := [Ok [0%N]; Ok [1%N]; Ok [1%N]; Ok [3%N]].

Lemma exs_wf : dag_wf exs_dag.
Proof.
  unfold dag_wf, exs_dag. cbn [dag_wf_from length]. unfold node_wf. cbn [n_bits n_refs length].
  repeat split; try lia; repeat constructor; lia.
Qed.

Lemma exs_ok : Forall node_ok exs_dag.
Proof.
  unfold exs_dag, node_ok. repeat constructor; cbn [n_mask n_special n_type n_bits]; try lia;
    try reflexivity.
Qed.

Lemma exs_all : all_hashed exs_dag exs_hashes.
Proof. split; [cbn; lia|]. repeat constructor; eexists; reflexivity. Qed.

Lemma exs_real : hashes_real exs_hashes.
Proof.
  intros cell e Hc. do 4 (destruct cell as [|cell]; [discriminate|]). destruct cell; discriminate.
Qed.

Lemma exs_depth : depth_ok exs_dag [0].
Proof.
  exists (fun c => 4 - c). split.
  - intros c nd r Hc Hr.
    do 4 (destruct c as [|c]; [injection Hc as <-; cbn in Hr; intuition lia|]).
    destruct c; discriminate.
  - intros r [<-|[]]. lia.
Qed.

Lemma exs_cf : collision_free exs_dag exs_hashes [0].
Proof.
  intros a b h _ _ Ha Hb t Ht. unfold hash_of in Ha, Hb.
  assert (Hca : a < length exs_hashes) by (apply nth_error_Some; congruence).
  assert (Hcb : b < length exs_hashes) by (apply nth_error_Some; congruence).
  change (length exs_hashes) with 4 in Hca, Hcb.
  apply (unf_full exs_dag a t exs_wf Hca) in Ht. exists 4. rewrite <- Ht. clear Ht.
  destruct a as [|[|[|[|a]]]]; try lia; destruct b as [|[|[|[|b]]]]; try lia;
    cbn in Ha, Hb; rewrite <- Ha in Hb; try discriminate; vm_compute; reflexivity.
Qed.

Lemma exs_hf : hash_functional exs_dag exs_hashes [0].
Proof.
  intros a b t h _ _ Hta Htb Ha. unfold hash_of in *.
  assert (Hca : a < length exs_hashes) by (apply nth_error_Some; congruence).
  assert (Hcb : b < length exs_dag).
  { destruct (unf_inv _ _ _ Htb) as (c & ts & Ec & _). apply nth_error_Some. congruence. }
  change (length exs_hashes) with 4 in Hca. change (length exs_dag) with 4 in Hcb.
  apply (unf_full exs_dag a t exs_wf Hca) in Hta. apply (unf_full exs_dag b t exs_wf Hcb) in Htb.
  rewrite <- Hta in Htb. clear Hta.
  destruct a as [|[|[|[|a]]]]; try lia; destruct b as [|[|[|[|b]]]]; try lia;
    vm_compute in Htb; try discriminate; exact Ha.
Qed.

(** plain options, and index + CRC + cache bits: the bytes, and what the parser
    returns for them (computed) *)
Example C01_serialize_example_plain :
  serialize exs_dag exs_hashes [0] false false false
  = Ok [181; 238; 156; 114; 1; 1; 3; 1; 0; 14; 0;
        3; 1; 192; 1; 1; 2; 1; 1; 64; 2; 8; 3; 2; 160]%N /\
  (exists p, (do b <- serialize exs_dag exs_hashes [0] false false false; parse_boc b) = Ok p /\
     p_roots p = [0] /\
     p_cells p = [ mknode false 0 0 [true] [1; 1; 2];
                   mknode false 0 0 [false] [2];
                   mknode true 2 0 (bits_of 8 2 ++ [true; false]) [] ] /\
     unfold_at 3 (p_cells p) 0 = unfold_at 4 exs_dag 0).
Proof.
  split; [vm_compute; reflexivity|]. eexists. split; [vm_compute; reflexivity|].
  cbn [p_roots p_cells]. repeat split; vm_compute; reflexivity.
Qed.

Example C01_serialize_example_idx_crc_cache :
  serialize exs_dag exs_hashes [0] true true true
  = Ok [181; 238; 156; 114; 225; 1; 3; 1; 0; 14; 0;
        12; 21; 29; 3; 1; 192; 1; 1; 2; 1; 1; 64; 2; 8; 3; 2; 160; 35; 47; 163; 124]%N /\
  (exists p, (do b <- serialize exs_dag exs_hashes [0] true true true; parse_boc b) = Ok p /\
     p_roots p = [0] /\
     unfold_at 3 (p_cells p) 0 = unfold_at 4 exs_dag 0).
Proof.
  split; [vm_compute; reflexivity|]. eexists. split; [vm_compute; reflexivity|].
  cbn [p_roots p_cells]. repeat split; vm_compute; reflexivity.
Qed.

(** two roots (one of them the shared inner cell 2, emitted as the entry of
    cell 1), index and cache bits without CRC *)
Example C01_serialize_example_two_roots :
  serialize exs_dag exs_hashes [0; 2] true false true
  = Ok [181; 238; 156; 114; 161; 1; 3; 2; 0; 14; 0; 1;
        12; 21; 29; 3; 1; 192; 1; 1; 2; 1; 1; 64; 2; 8; 3; 2; 160]%N.
Proof. vm_compute. reflexivity. Qed.

(** the hypotheses of all theorems above hold for this example *)
Example C01_serialize_premises :
  dag_wf exs_dag /\ Forall node_ok exs_dag /\ hashes_real exs_hashes /\ all_hashed exs_dag exs_hashes /\
  (N.of_nat (length exs_dag) < 2 ^ 24)%N /\ depth_ok exs_dag [0] /\
  collision_free exs_dag exs_hashes [0] /\ hash_functional exs_dag exs_hashes [0].
Proof.
  split; [exact exs_wf|]. split; [exact exs_ok|]. split; [exact exs_real|]. split; [exact exs_all|].
  split; [vm_compute; reflexivity|]. split; [exact exs_depth|]. split; [exact exs_cf|exact exs_hf].
Qed.

(** the variant computed by the theorem for the second example: one-byte
    references and offsets, index bytes 12 21 29 *)
Example C01_serialize_example_variant :
  exists stf nl,
    import_roots exs_dag exs_hashes [0] = Ok (stf, nl, [2]) /\
    out_variant exs_dag stf nl true true true
      = mkvariant 0 true true true 1 1 0 [12; 21; 29]%N [[]; []; []] /\
    layout (out_variant exs_dag stf nl true true true) (out_cells exs_dag stf nl) [0]
      = [181; 238; 156; 114; 225; 1; 3; 1; 0; 14; 0;
         12; 21; 29; 3; 1; 192; 1; 1; 2; 1; 1; 64; 2; 8; 3; 2; 160; 35; 47; 163; 124]%N.
Proof.
  eexists. eexists. split; [vm_compute; reflexivity|]. split; vm_compute; reflexivity.
Qed.
