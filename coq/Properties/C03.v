(** C03 — TL-B values survive encode/decode for every type the library ships.

    Model: Model/TlbCore.v — descriptors [ty] (what the reflect walk of the Go
    struct definitions yields), untyped values, the reflection walker of
    tlb/encoder.go and tlb/decoder.go ([enc] / [dec]), the hand-written
    primitive codecs, and the declarative TL-B meaning [spec].
    All statements quantify over every descriptor, every value and every
    builder state; the only static premises are the decidable [wf_ty]
    (re-checked on today's Go types in C03_gen.v) and the value being in the
    domain of the type.  The fuel of the walkers bounds the nesting depth of
    the *descriptor* only and is covered by [wf_ty]. *)
From Coq Require Import List NArith ZArith Bool.
From Tongo Require Import Lib.Bits Lib.Res Model.TlbCore Proofs.TlbCoreP Proofs.TlbCoreC Model.VmStack Proofs.VmStackP
  Model.TlbExt Proofs.TlbExtP Proofs.TlbExtP2 Proofs.TlbNoEncP.
Import ListNotations.

(** The encoder writes exactly the bits and references the declarative TL-B
    semantics prescribes, after what the builder already held. *)
Theorem C03_encoder_is_spec : forall env fuel t v b b',
  enc env fuel t v b = Ok b' ->
  exists bs rs, spec env fuel t v = Some (bs, rs) /\ bb b' = bb b ++ bs /\ br b' = br b ++ rs.
Proof. exact enc_is_spec. Qed.

(** Codec prefix law (tail law for types ending in a rest-of-cell codec). *)
Theorem C03_prefix_law : forall env fuel t v b b',
  wf env fuel t = true -> has_type env fuel t v = true ->
  enc env fuel t v b = Ok b' ->
  exists bs rs,
    bb b' = bb b ++ bs /\ br b' = br b ++ rs /\
    forall tb tr, (tail env fuel t = false \/ (tb = [] /\ tr = [])) ->
      dec env fuel t (mks (bs ++ tb) (rs ++ tr)) = Ok (v, mks tb tr).
Proof. exact prefix_law. Qed.

(** Main theorem: if encoding succeeds, decoding the produced cell returns the
    same value — the same constructor of every tagged union, since the
    constructor index is part of the value — and nothing is left over. *)
Theorem C03_generic_roundtrip : forall env t v c,
  wf_ty env t = true -> in_domain env t v = true ->
  encode env t v = Ok c ->
  decode env t c = Ok (v, mks [] []).
Proof. exact generic_roundtrip. Qed.
Print Assumptions C03_generic_roundtrip.

Theorem C03_same_constructor : forall env alts k x c,
  wf_ty env (TSum alts) = true -> in_domain env (TSum alts) (VSum k x) = true ->
  encode env (TSum alts) (VSum k x) = Ok c ->
  exists x' rest, decode env (TSum alts) c = Ok (VSum k x', rest) /\ x' = x.
Proof. exact same_constructor. Qed.

(** Encoding the decoded value again gives the same cell, hence the same hash
    under any hash function. *)
Theorem C03_reencode_same_hash : forall env t v c v' rest,
  wf_ty env t = true -> in_domain env t v = true ->
  encode env t v = Ok c ->
  decode env t c = Ok (v', rest) ->
  encode env t v' = Ok c /\
  forall (A : Type) (H : ctree -> A) c', encode env t v' = Ok c' -> H c' = H c.
Proof. exact reencode_same_cell. Qed.
Print Assumptions C03_reencode_same_hash.

(** An encoder that succeeds stays within a cell: <= 1023 bits, <= 4 references. *)
Theorem C03_encoder_capacity : forall env fuel t v b b',
  enc env fuel t v b = Ok b' ->
  (length (bb b) <= 1023)%nat -> (length (br b) <= 4)%nat ->
  (length (bb b') <= 1023)%nat /\ (length (br b') <= 4)%nat.
Proof. exact enc_capacity. Qed.

(** A cell given as a value is placed in the reference as it is (no copy of its
    bits into a fresh cell), and the references of an [Any] are appended as they
    are: exotic cells keep their type, level mask and hash. *)
Theorem C03_cell_passthrough : forall env fuel c b b',
  enc env (S fuel) TCellRef (VCell c) b = Ok b' -> bb b' = bb b /\ br b' = br b ++ [c].
Proof. exact cell_passthrough. Qed.

Theorem C03_any_refs_passthrough : forall env fuel l r b b',
  enc env (S fuel) TAny (VAny l r) b = Ok b' -> bb b' = bb b ++ l /\ br b' = br b ++ r.
Proof. exact any_refs_passthrough. Qed.

(** Primitive laws, all widths. *)
Theorem C03_uint_law : forall w n tb,
  (n < 2 ^ N.of_nat w)%N ->
  length (bits_of w n) = w /\ N_of_bits (bits_of w n) = n /\
  N_of_bits (firstn w (bits_of w n ++ tb)) = n.
Proof. exact uint_law. Qed.

Theorem C03_int_law : forall w z,
  (1 <= w)%nat -> (- 2 ^ (Z.of_nat w - 1) <= z < 2 ^ (Z.of_nat w - 1))%Z ->
  length (enc_int_bits w z) = w /\ dec_int_bits (enc_int_bits w z) = z.
Proof. exact int_law. Qed.

Theorem C03_varuint_minimal_length : forall x,
  (x < 2 ^ N.of_nat (8 * byte_len x))%N /\
  (x <> 0%N -> (2 ^ N.of_nat (8 * (byte_len x - 1)) <= x)%N) /\
  (x = 0%N -> byte_len x = 0%nat).
Proof. exact varuint_minimal. Qed.

Theorem C03_msgaddress_law : forall a rest,
  addr_ok a = true -> addr_parse (addr_bits a ++ rest) = Ok (a, rest).
Proof. exact msgaddress_law. Qed.

(** VM stacks follow the documented list convention: the encoder takes element
    0 of the slice as the top of the stack (arguments are listed top-first), the
    decoder returns the top of the stack last (results are bottom-first): decoding
    an encoded stack yields the reversed list, for every element codec that
    satisfies the static conditions. *)
Theorem C03_vmstack_convention : forall env fuel t vs b,
  wf env fuel t = true ->
  Forall (fun v => has_type env fuel t v = true) vs ->
  (N.of_nat (length vs) < 2 ^ 24)%N ->
  enc_stack env fuel t vs empty_bld = Ok b ->
  dec_stack env fuel t (open (finish b)) = Ok (rev vs).
Proof. intros env fuel t vs b Hwf. exact (vmstack_convention env fuel t Hwf vs b). Qed.
Print Assumptions C03_vmstack_convention.

(** VM cell slices (tlb.VmCellSlice: ^Cell st_bits:(## 10) end_bits:(## 10)
    st_ref:(#<= 4) end_ref:(#<= 4)) round-trip for every window, in particular
    the empty ones (st_bits = end_bits, st_ref = end_ref). *)
Theorem C03_vmcellslice_roundtrip : forall c sb eb sr er cell,
  (sb < 1024)%N -> (eb < 1024)%N -> (sr < 8)%N -> (er < 8)%N ->
  let d := TStruct [TCellRef; TUint 10; TUint 10; TUint 3; TUint 3] in
  let v := VStruct [VCell c; VN sb; VN eb; VN sr; VN er] in
  encode [] d v = Ok cell -> decode [] d cell = Ok (v, mks [] []).
Proof.
  intros c sb eb sr er cell H1 H2 H3 H4 d v He.
  apply generic_roundtrip; [reflexivity| |exact He].
  apply N.ltb_lt in H1. apply N.ltb_lt in H2. apply N.ltb_lt in H3. apply N.ltb_lt in H4.
  unfold in_domain, d, v. cbn [fuel_of ty_depth fold_right Nat.max Nat.add has_type].
  change (2 ^ N.of_nat 10)%N with 1024%N. change (2 ^ N.of_nat 3)%N with 8%N.
  rewrite H1, H2, H3, H4. reflexivity.
Qed.

(** ** Extension layer (Model/TlbExt.v): snake data (SnakeData, Bytes, Text,
    TextComment: the rest of the cell continued in a chain of cells hanging off
    the last reference, so the serialisation depends on how full the cell already
    is) and length-prefixed bytes (FixedLengthText), under the same combinators.
    [XBase] embeds every descriptor of the base layer. *)

(** the encoder writes the declarative serialisation at the builder's fill level *)
Theorem C03_ext_encoder_is_spec : forall fuel t v b b',
  xenc fuel t v b = Ok b' ->
  exists bs rs, xspec fuel t v (length (bb b)) = Some (bs, rs) /\
                bb b' = bb b ++ bs /\ br b' = br b ++ rs.
Proof. exact xenc_is_spec. Qed.

Theorem C03_ext_prefix_law : forall fuel t v b b',
  xwf fuel t = true -> xhas_type fuel t v = true ->
  xenc fuel t v b = Ok b' ->
  exists bs rs,
    bb b' = bb b ++ bs /\ br b' = br b ++ rs /\
    forall tb tr, (xtail fuel t = false \/ (tb = [] /\ tr = [])) ->
      xdec fuel t (mks (bs ++ tb) (rs ++ tr)) = Ok (v, mks tb tr).
Proof. exact xprefix_law. Qed.

Theorem C03_ext_generic_roundtrip : forall t v c,
  xwf_ty t = true -> xin_domain t v = true ->
  xencode t v = Ok c ->
  xdecode t c = Ok (v, mks [] []).
Proof. exact xgeneric_roundtrip. Qed.
Print Assumptions C03_ext_generic_roundtrip.

(** a snake chain carries every bit string, whatever its length *)
Theorem C03_snake_roundtrip : forall l c,
  xencode XSnake (VBits l) = Ok c -> xdecode XSnake c = Ok (VBits l, mks [] []).
Proof. exact snake_roundtrip. Qed.

Theorem C03_snake_chain_inverse : forall n l, (length l <= n)%nat -> snake_read (snake_chain n l) = l.
Proof. exact snake_read_chain. Qed.

(** non-vacuity: a struct with a 32-bit op, a reference holding length-prefixed
    text, and 1500 bits of snake data (two cells) round-trips *)
Example C03_ext_premises_satisfiable :
  let t := XStruct [XBase (TMagic 32 0); XRef (XStruct [XLenBytes 8; XLenBytes 8]); XSnake] in
  let v := VStruct [VUnit; VStruct [VBits (repeat true 16); VBits []]; VBits (repeat false 1500)] in
  xwf_ty t = true /\ xin_domain t v = true /\
  exists c, xencode t v = Ok c /\ length (ct_refs c) = 2%nat /\ length (ct_bits c) = 1023%nat.
Proof. vm_compute. repeat split. eexists. repeat split. Qed.

(** Decode-side only by theorem: a descriptor satisfying the decidable [never_encodes]
    (some mandatory part is a construct the encoder rejects for all values - the empty
    union -, through structs, references and all constructors of a union) is never encoded,
    for any value and any builder: the "encoding fails with an error" branch of the property. *)
Theorem C03_never_encodes : forall fuel t,
  never_encodes fuel t = true -> forall env v b b', enc env fuel t v b <> Ok b'.
Proof. intros fuel t H env v b b'. exact (never_encodes_sound fuel t H env v b b'). Qed.

(** What first-match decoding needs: without pairwise prefix-freeness the
    round trip is false — the decoder selects the earlier constructor. *)
Theorem C03_shadowed_tag_refuted :
  let t := TSum [(1%nat, 1%N, TUint 1); (2%nat, 3%N, TStruct [])] in
  wf_ty [] t = false /\
  in_domain [] t (VSum 1 (VStruct [])) = true /\
  exists c, encode [] t (VSum 1 (VStruct [])) = Ok c /\
            decode [] t c = Ok (VSum 0 (VN 1), mks [] []).
Proof. vm_compute. repeat split. eexists. split; reflexivity. Qed.

(** Non-vacuity: a message-like descriptor (union with tags $0 / $10 / $11,
    addresses with anycast, Grams, Maybe, Either-ref with a rest-of-cell
    body, a reference) is well-formed, the value is in its domain and encodes. *)
Example C03_premises_satisfiable :
  let info := TSum [(1%nat, 0%N, TStruct [TBool; TAddr; TAddr; TVarUInt 16; TUint 64]);
                    (2%nat, 2%N, TStruct [TAddr; TAddr; TVarUInt 16]);
                    (2%nat, 3%N, TStruct [TAddr; TAddr; TUint 64; TUint 32])] in
  let t := TStruct [info; TMaybe (TEitherRef (TStruct [TMaybe (TUint 5); TMaybeRef TAny]));
                    TRef (TInt 257); TEitherRef TAny] in
  let a := AStd (Some (3, 5)%N) (-1)%Z (repeat true 256) in
  let v := VStruct [VSum 1 (VStruct [VAddr ANone; VAddr a; VN 1000000]);
                    VMaybe (Some (VEither true (VStruct [VMaybe (Some (VN 31)); VMaybe None])));
                    VZ (- 2 ^ 256); VEither false (VAny [true; false; true] [CT [] []])] in
  wf_ty [] t = true /\ in_domain [] t v = true /\ exists c, encode [] t v = Ok c.
Proof. vm_compute. repeat split. eexists. reflexivity. Qed.
