(** C04 — TL-B encodings are bit-exact with the TON schemas.

    Spec/TlbSchema.v gives the meaning of a TL-B schema subset (written from the
    TL-B documentation), Spec/BlockTlb.v transcribes the core of block.tlb.
    [refines schema descriptor] is a decidable check; C04_gen.v evaluates it on
    the descriptors of today's Go types.  For every descriptor that passes, the
    model of tlb.Marshal (Model/TlbCore.v, tied to the Go code by the C03/C04
    correspondence runs) writes exactly the bits and references of the schema,
    for all values and all builder states. *)
From Coq Require Import List NArith ZArith Bool.
From Tongo Require Import Lib.Bits Lib.Res Model.TlbCore Spec.TlbSchema Spec.BlockTlb
  Proofs.TlbCoreP Proofs.TlbCoreC Proofs.TlbSchemaP Proofs.TlbSchemaX Model.TlbLib Model.TlbExt Proofs.TlbExtP Proofs.TlbExtP2.
Import ListNotations.

Theorem C04_refines_sound : forall fuel s d env v x,
  refines fuel s d = true -> spec env fuel d v = Some x -> spec_encode s v = Some x.
Proof. exact refines_sound. Qed.

(** Main theorem: whatever the encoder appends to a builder is what the schema prescribes. *)
Theorem C04_encode_is_schema : forall fuel s d env v b b',
  refines fuel s d = true ->
  enc env fuel d v b = Ok b' ->
  exists bs rs, spec_encode s v = Some (bs, rs) /\ bb b' = bb b ++ bs /\ br b' = br b ++ rs.
Proof. exact encode_is_schema. Qed.
Print Assumptions C04_encode_is_schema.

(** Consequently decoding a cell and encoding the result reproduces the cell
    (hence its hash) whenever the cell is the schema's serialisation of the
    decoded value — which fails only where TL-B itself allows several
    serialisations of one value: non-minimal VarUInteger lengths, the three
    dictionary label forms.  (Dictionary bodies are uninterpreted cells here
    and are reproduced verbatim.) *)
Theorem C04_reencode_reproduces_cell : forall fuel s d env v bs rs b',
  refines fuel s d = true ->
  spec_encode s v = Some (bs, rs) ->
  enc env fuel d v empty_bld = Ok b' ->
  finish b' = CT bs rs.
Proof.
  intros fuel s d env v bs rs b' Hr Hs He.
  destruct (encode_is_schema _ _ _ _ _ _ _ Hr He) as (bs' & rs' & Hs' & Hb & Hrf).
  rewrite Hs in Hs'. injection Hs' as <- <-. unfold finish. rewrite Hb, Hrf. reflexivity.
Qed.

(** A library resolver configured on the decoder (Decoder.WithLibraryResolver) can only
    change what is decoded at TYPED positions: a library cell met where the target is a
    raw cell (boc.Cell behind ^ / Ref, StateInit code and data) or an Any is kept as it
    is under every decoder configuration, so decode -> encode reproduces its hash.
    (Model of the prologue of tlb/decoder.go: decode; tied to the code by the
    decoder-configuration family of the C03/C04 generators.) *)
Theorem C04_library_resolver_scope : forall tgt r1 r2 lib,
  tgt <> TgtTyped -> lib_step tgt r1 lib = LibKeep lib /\ lib_step tgt r1 lib = lib_step tgt r2 lib.
Proof. exact lib_resolver_scope. Qed.

(** Length-prefixed text (FixedLengthText: len:uint8 text:(len * 8 bits)): the prefix is the
    number of BYTES that follow - not of characters -, then the bytes themselves; with
    C03_ext_encoder_is_spec this is what the encoder writes. *)
Theorem C04_lenbytes_counts_bytes : forall fuel w l u,
  (length l mod 8 = 0)%nat ->
  xspec (S fuel) (XLenBytes w) (VBits l) u = Some (numeral w (N.of_nat (length l / 8)) ++ l, []).
Proof. exact lenbytes_exact. Qed.

(** Primitive exactness. *)
Theorem C04_numeral_exact : forall n x l,
  (x < 2 ^ N.of_nat n)%N -> (length l = n /\ N_of_bits l = x <-> l = numeral n x).
Proof. exact numeral_exact. Qed.

Theorem C04_twos_complement_exact : forall n z,
  (1 <= n)%nat -> (- 2 ^ (Z.of_nat n - 1) <= z < 2 ^ (Z.of_nat n - 1))%Z ->
  length (twos n z) = n /\
  Z.of_N (N_of_bits (twos n z)) = (z mod 2 ^ Z.of_nat n)%Z /\
  dec_int_bits (twos n z) = z.
Proof. exact twos_exact. Qed.

Theorem C04_varuint_minimal_length : forall x,
  (x < 2 ^ N.of_nat (8 * min_bytes x))%N /\
  (x <> 0%N -> (2 ^ N.of_nat (8 * (min_bytes x - 1)) <= x)%N) /\
  (x = 0%N -> min_bytes x = 0%nat).
Proof. exact varuint_minimal. Qed.

(** #<= b (WriteLimUint) is written in N.size b bits, which hold every value <= b. *)
Theorem C04_limuint_width : forall b x, (x <= b)%N -> (x < 2 ^ N.of_nat (le_width b))%N.
Proof. exact le_width_exact. Qed.

(** The envelope built by ton.CreateExternalMessage, bit by bit. *)
Theorem C04_create_external_message_layout : forall wc addr fee body,
  spec_encode s_Message (ext_in_value wc addr fee None body) =
  Some ([true; false] ++ [false; false] ++ [true; false] ++ [false] ++ twos 8 wc ++ addr
        ++ fee_bits fee ++ [false] ++ [true],
        [CT (ct_bits body) (ct_refs body)]).
Proof. exact create_external_message_layout. Qed.

Theorem C04_create_external_message_layout_init : forall wc addr fee si ib ir body,
  spec_encode s_StateInit si = Some (ib, ir) ->
  spec_encode s_Message (ext_in_value wc addr fee (Some si) body) =
  Some ([true; false] ++ [false; false] ++ [true; false] ++ [false] ++ twos 8 wc ++ addr ++ fee_bits fee
        ++ [true; true] ++ [true],
        [CT ib ir; CT (ct_bits body) (ct_refs body)]).
Proof. exact create_external_message_layout_init. Qed.

(** Non-vacuity: the transcription of Message is implemented by a descriptor,
    and an internal message with an anycast address, a state-init and an
    inline body has a schema serialisation. *)
Example C04_premises_satisfiable :
  let d_cc := TStruct [TVarUInt 16; TStruct [TMaybeRef TAny]] in
  let d_info := TSum [(1%nat, 0%N, TStruct [TBool; TBool; TBool; TAddr; TAddr; d_cc; TVarUInt 16; TVarUInt 16; TUint 64; TUint 32]);
                      (2%nat, 2%N, TStruct [TAddr; TAddr; TVarUInt 16]);
                      (2%nat, 3%N, TStruct [TAddr; TAddr; TUint 64; TUint 32])] in
  let d_si := TStruct [TMaybe (TUint 5); TMaybe (TStruct [TBool; TBool]); TMaybe TCellRef; TMaybe TCellRef; TMaybeRef TAny] in
  let d_msg := TStruct [d_info; TMaybe (TEitherRef d_si); TEitherRef TAny] in
  let a := AStd (Some (3, 5)%N) (-1)%Z (repeat true 256) in
  let v := VStruct [VSum 0 (VStruct [VBool true; VBool false; VBool false; VAddr a; VAddr a;
                                     VStruct [VN 1000000000; VStruct [VMaybe None]]; VN 0; VN 255; VN 42; VN 7]);
                    VMaybe (Some (VEither false (VStruct [VMaybe (Some (VN 31)); VMaybe None;
                                                          VMaybe (Some (VCell (CT [true] []))); VMaybe None; VMaybe None])));
                    VEither false (VAny [true; false] [])] in
  refines 64 s_Message d_msg = true /\
  exists x b, spec_encode s_Message v = Some x /\ enc [] 64 d_msg v empty_bld = Ok b /\ finish b = CT (fst x) (snd x).
Proof. vm_compute. split; [reflexivity|]. do 2 eexists. repeat split. Qed.
