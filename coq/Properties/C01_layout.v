(** C01 — the parser inverts the bag-of-cells byte layout.  Statement only. *)
From Coq Require Import List NArith Arith Lia Bool.
From Tongo Require Import Lib.Bits Lib.Res Model.BocParse Spec.BocLayout Proofs.BocLayoutP.
Import ListNotations.

(** For every header variant (three magics, index / CRC / cache bits, any size
    and offset widths that fit, stored hashes present or not per cell, any index
    bytes, any absent counter), every list of cells in an order in which
    references point forward, and every root list, parsing the byte string of
    Spec/BocLayout.v returns exactly these cells and roots.  The extra premise
    bounds the number of roots by the parser's uint64 counter; it follows from
    [layout_ok] whenever the reference size is at most 8 bytes
    ([parse_layout_size8]), in particular for the generic magic. *)
Theorem C01_parse_layout :
  forall (v : variant) (cells : list node) (roots : list nat),
  layout_ok v cells roots ->
  (N.of_nat (length roots) < 2 ^ 64)%N ->
  exists p, parse_boc (layout v cells roots) = Ok p /\ p_cells p = cells /\ p_roots p = roots.
Proof. exact parse_layout. Qed.
Print Assumptions C01_parse_layout.

(** Non-vacuity: a generic-magic BOC with index and CRC, one-byte references,
    an ordinary cell referring to an exotic cell that carries stored hashes. *)
Definition ex_variant : variant :=
  mkvariant 0 true true false 1 1 0 [0; 7]%N [[]; repeat 0%N 34].
Definition ex_cells : list node :=
  [ mknode false 0 0 [true; false; true] [1%nat];
    mknode true 1 0 [false; false; false; false; false; false; false; true; true] [] ].
Definition ex_roots : list nat := [0%nat].

Example C01_layout_ok_example :
  layout_ok ex_variant ex_cells ex_roots /\ (N.of_nat (length ex_roots) < 2 ^ 64)%N.
Proof.
  split; [|vm_compute; reflexivity].
  unfold layout_ok. cbv zeta.
  repeat match goal with |- _ /\ _ => split end.
  - vm_compute. lia.
  - vm_compute. lia.
  - vm_compute. lia.
  - vm_compute. lia.
  - vm_compute. reflexivity.
  - vm_compute. reflexivity.
  - vm_compute. reflexivity.
  - vm_compute. reflexivity.
  - repeat constructor.
  - cbn [cells_ok ex_cells ex_variant v_stored v_size]. unfold cell_ok.
    cbn [n_bits n_refs n_mask n_special n_type].
    repeat match goal with |- _ /\ _ => split end;
      try exact I; try (cbn [length]; lia); try (vm_compute; reflexivity);
      try (repeat constructor; fail).
  - intros _. reflexivity.
  - repeat constructor.
Qed.
