(** C15 obligations over the data translated from wallet/*.go
    (Generated/WalletCodes.v): re-checked by vm_compute on every run. *)
From Coq Require Import List NArith ZArith Arith Bool String.
From Tongo Require Import Lib.Bits Lib.Res Spec.Sha256 Model.BocParse Model.CellHash Spec.ReprHash
  Proofs.CellHashP Model.Wallet Model.WalletCode Model.WalletSend Proofs.WalletSendP Generated.WalletCodes.
Import ListNotations.

(* the versions newWallet accepts *)
Definition data_versions : list version :=
  [V1R1; V1R2; V1R3; V2R1; V2R2; V3R1; V3R2; V4R1; V4R2; V5Beta; V5R1; HLV2R2].

Lemma has_data_in v : has_data v <-> In v data_versions.
Proof.
  split.
  - destruct v; cbn; intros H; try contradiction; tauto.
  - intros H. cbn in H. repeat destruct H as [<-|H]; try exact I. contradiction.
Qed.

(** the Version constants are in the order the model numbers them *)
Example C15_gen_version_order :
  wallet_versions = ["V1R1"; "V1R2"; "V1R3"; "V2R1"; "V2R2"; "V3R1"; "V3R2"; "V3R2Lockup"; "V4R1"; "V4R2";
                     "V5Beta"; "V5R1"; "HighLoadV1R1"; "HighLoadV1R2"; "HighLoadV2"; "HighLoadV2R1";
                     "HighLoadV2R2"]%string
  /\ map ver_index all_versions = map N.of_nat (seq 0 17).
Proof. split; vm_compute; reflexivity. Qed.

(** every accepted version has a code BOC that the (proved) parser model reads
    as exactly one root *)
Example C15_gen_codes_parse :
  forallb (fun v => match code_opt v with Some _ => true | None => false end) data_versions = true.
Proof. vm_compute. reflexivity. Qed.

(** the code hashes (representation hash, SHA-256) are pairwise distinct *)
Definition code_hash (v : version) : res bytes := do im <- imm_of sha256 (code_of v); cell_hash im.

Fixpoint nodupb (l : list (res bytes)) : bool :=
  match l with
  | [] => true
  | x :: t =>
      negb (existsb (fun y => match x, y with Ok a, Ok b => bytes_eqb a b | _, _ => true end) t) && nodupb t
  end.

Lemma bytes_eqb_refl a : bytes_eqb a a = true.
Proof.
  unfold bytes_eqb. rewrite Nat.eqb_refl. cbn [andb].
  induction a as [|x t IH]; [reflexivity|]. cbn [combine forallb fst snd]. rewrite N.eqb_refl. exact IH.
Qed.

Lemma nodupb_sound l : nodupb l = true -> NoDup l.
Proof.
  induction l as [|x t IH]; cbn [nodupb]; intros H; [constructor|].
  apply andb_true_iff in H. destruct H as (H1 & H2). constructor; [|apply IH, H2].
  intros Hin. apply negb_true_iff in H1.
  assert (E : existsb (fun y => match x, y with Ok a, Ok b => bytes_eqb a b | _, _ => true end) t = true).
  { apply existsb_exists. exists x. split; [exact Hin|]. destruct x; [apply bytes_eqb_refl|reflexivity|reflexivity]. }
  congruence.
Qed.

Example C15_gen_code_hashes_distinct :
  nodupb (map code_hash data_versions) = true /\
  forallb (fun v => is_ok (code_hash v)) data_versions = true.
Proof. split; vm_compute; reflexivity. Qed.

Lemma nodup_map_inj {A B} (f : A -> B) l x y :
  NoDup (map f l) -> In x l -> In y l -> f x = f y -> x = y.
Proof.
  induction l as [|a t IH]; cbn [map In]; intros Hn Hx Hy E; [contradiction|].
  inversion Hn as [|? ? Hnot Hn']; subst.
  destruct Hx as [<-|Hx], Hy as [<-|Hy]; auto.
  - exfalso. apply Hnot. rewrite E. apply in_map, Hy.
  - exfalso. apply Hnot. rewrite <- E. apply in_map, Hx.
Qed.

(** hence distinct versions have distinct code cells: the premise of
    C15_address_injective for the shipped codes *)
Theorem C15_gen_codes_distinct : codes_distinct code_of.
Proof.
  intros v1 v2 H1 H2 E. apply has_data_in in H1. apply has_data_in in H2.
  apply (nodup_map_inj code_hash data_versions v1 v2); auto.
  - apply nodupb_sound. exact (proj1 C15_gen_code_hashes_distinct).
  - unfold code_hash. rewrite E. reflexivity.
Qed.

(** constants of the source = constants of the model *)
Example C15_gen_constants :
  c_DefaultSubWallet = default_subwallet /\ c_MainnetGlobalID = mainnet_global_id /\
  Z.to_N c_V5MsgTypeSignedInternal = op_signed_internal /\
  Z.to_N c_V5MsgTypeSignedExternal = op_signed_external /\
  Z.to_N c_V5MsgTypeExtensionAction = op_extension_action /\
  c_W5SendMessageAction_magic = action_magic.
Proof. repeat split; reflexivity. Qed.

(** message limits: maxMessageNumber of every wallet type and the limits of the
    payload codecs *)
Example C15_gen_limits :
  wallet_max_messages =
    [("walletV1V2", 4); ("walletV3", 4); ("walletV4", 4); ("walletV5Beta", 254); ("walletV5R1", 255);
     ("walletHighloadV2", 254)]%string%N /\
  map (fun v => N.of_nat (max_messages v)) [V1R1; V3R1; V4R2; V5Beta; V5R1; HLV2R2] = [4; 4; 4; 254; 255; 254]%N /\
  wallet_payload_limits = [("PayloadV1toV4", 4); ("PayloadHighload", 254)]%string%N.
Proof. repeat split; reflexivity. Qed.
