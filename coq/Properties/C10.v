(** C10 — lite-server API bindings speak exactly the wire format of lite_api.tl.

    Spec/TlWire.v defines the TL wire format for an arbitrary schema (written
    from the TL specification); Model/Tl.v is the model of tl/encoder.go,
    tl/decoder.go and of the generated MarshalTL/UnmarshalTL bodies and request
    methods, run on the terms the translator extracts from generated.go;
    Model/TlMatch.v is the checker [matches_all].  Statements only; proofs in
    Proofs/TlWireP.v, TlGoP.v, TlMatchP.v, TlSoundP.v, TlApiP.v.  The
    obligations on today's schema and bindings are in Properties/C10_gen.v. *)
From Coq Require Import String List NArith Arith Bool.
From Tongo Require Import Lib.Bits Lib.Res Spec.TlWire Model.Tl Model.TlMatch Model.TlHand
     Proofs.TlWireP Proofs.TlGoP Proofs.TlMatchP Proofs.TlSoundP Proofs.TlApiP Proofs.TlHandP.
Import ListNotations.
Local Open Scope N_scope.

(** * 1. The wire format itself (any schema with distinct constructor ids per type) *)

(* decode (encode v ++ rest) = (v, rest), every type, every value, every rest *)
Theorem C10_tl_roundtrip : forall nm sch, ids_distinct sch = true ->
  forall t v e rest, tl_encode nm sch t v = Some e -> tl_decode nm sch t (e ++ rest) = Some (v, rest).
Proof.
  intros nm sch H t v e rest He. rewrite tl_decode_eq. rewrite tl_encode_eq in He.
  exact (roundtrip nm sch H tl_fuel t v e rest He).
Qed.

(* ... at every nesting bound, not only the one the executable definition uses *)
Theorem C10_tl_roundtrip_any_depth : forall nm sch, ids_distinct sch = true ->
  forall fuel t v e rest, enc nm sch fuel t v = Some e -> dec nm sch fuel t (e ++ rest) = Some (v, rest).
Proof. exact roundtrip. Qed.

(* two encodings of one type followed by anything coincide only if everything coincides *)
Theorem C10_tl_prefix_free : forall nm sch, ids_distinct sch = true ->
  forall fuel t v1 v2 e1 e2 r1 r2,
  enc nm sch fuel t v1 = Some e1 -> enc nm sch fuel t v2 = Some e2 ->
  e1 ++ r1 = e2 ++ r2 -> v1 = v2 /\ e1 = e2 /\ r1 = r2.
Proof. exact prefix_free. Qed.

(* a result does not depend on the nesting bound *)
Theorem C10_tl_depth_irrelevant : forall nm sch k k' t v e, (k <= k')%nat ->
  enc nm sch k t v = Some e -> enc nm sch k' t v = Some e.
Proof. exact enc_fuel_mono. Qed.

(* requests: function id, then the arguments; the decoder of that function inverts it *)
Theorem C10_tl_request_roundtrip : forall nm sch, ids_distinct sch = true ->
  forall f v e rest, tl_request nm sch f v = Some e ->
  tl_request_decode nm sch f (e ++ rest) = Some (v, rest).
Proof. exact request_roundtrip. Qed.

Theorem C10_request_starts_with_id : forall nm sch f v e,
  tl_request nm sch f v = Some e -> firstn 4 e = le_bytes 4 (did f) /\ did f < two32.
Proof. exact request_starts_with_id. Qed.

Theorem C10_boxed_starts_with_id : forall nm sch fuel T c fs e,
  enc nm sch fuel (TBoxed T) (VRec c fs) = Some e ->
  exists d, In d (ctors_of sch T) /\ xlbl nm d = c /\ firstn 4 e = le_bytes 4 (did d).
Proof. exact boxed_starts_with_id. Qed.

(** * 2. Layout of the primitives *)

(* little-endian: k bytes, value n mod 256^k *)
Theorem C10_int_little_endian : forall k n,
  length (le_bytes k n) = k /\ le_num (le_bytes k n) = n mod 256 ^ N.of_nat k /\
  all_bytes (le_bytes k n) = true.
Proof. intros k n. split; [apply le_bytes_length|split; [apply le_num_le_bytes|apply le_bytes_are_bytes]]. Qed.

(* byte strings: a multiple of 4 bytes; 1-byte length below 254, 0xfe + 3 bytes from 254 on;
   header + data + at most 3 zero bytes *)
Theorem C10_bytes_layout : forall b, N.of_nat (length b) < two24 ->
  N.of_nat (length (enc_bytes b)) mod 4 = 0 /\
  (hd 0 (enc_bytes b) = 254 <-> 254 <= N.of_nat (length b)) /\
  (N.of_nat (length b) < 254 -> hd 0 (enc_bytes b) = N.of_nat (length b)) /\
  (254 <= N.of_nat (length b) -> firstn 4 (enc_bytes b) = 254 :: le_bytes 3 (N.of_nat (length b))) /\
  (let h := if N.of_nat (length b) <? 254 then 1%nat else 4%nat in
   (h + length b <= length (enc_bytes b) <= h + length b + 3)%nat) /\
  forall rest, dec_bytes (enc_bytes b ++ rest) = Some (b, rest).
Proof.
  intros b H. split; [apply enc_bytes_aligned|].
  destruct (enc_bytes_escape b H) as (H1 & H2 & H3). repeat split; try apply H1; auto.
  - apply (enc_bytes_length b).
  - apply (enc_bytes_length b).
  - intros rest. apply dec_enc_bytes; exact H.
Qed.

(* an optional field occupies bytes exactly when its mode bit is set *)
Theorem C10_optional_iff_mode_bit : forall nm E f fields fs m n mv env,
  fcond f = Some (m, n) -> assoc m env = Some mv -> is_true_ty (fty f) = false ->
  enc_fields nm E (f :: fields) fs env =
    if N.testbit mv n then
      match fs with
      | (l, v) :: fs' =>
          if String.eqb l (lbl nm (fname f)) then
            opt a <- E (fty f) v; opt b <- enc_fields nm E fields fs' (env_add f v env); Some (a ++ b)
          else None
      | [] => None
      end
    else enc_fields nm E fields fs env.
Proof. exact optional_field_present. Qed.

(** * 3. The model of tl.Marshal / tl.Unmarshal on the primitive kinds is the spec *)
Theorem C10_go_bytes_is_tl_bytes : forall b,
  go_bytes b = enc_bytes b /\ go_encode_length (N.of_nat (length b)) = bytes_header (N.of_nat (length b)).
Proof. intros b. split; [apply go_bytes_spec|apply go_encode_length_spec]. Qed.

(* readByteSlice returns what the strict TL reader returns (it accepts more: see C10_gaps) *)
Theorem C10_go_read_bytes_refines : forall bs b rest,
  dec_bytes bs = Some (b, rest) ->
  forall a p, exists a' p', read_byte_slice (mkst bs a p) = (Ok b, mkst rest a' p').
Proof. exact read_byte_slice_refines. Qed.

(** * 4. matches_sound: a schema and a set of bindings that pass the checker *)
Section Checked.
  Variables (S F : list decl) (B : bindings).
  Hypothesis Hmatch : matches_all S F B = true.
  Hypothesis Hids : ids_distinct S = true.
  Let nm := go_naming S.

  (* tl_codec_refines_spec: for every type expression served by B and every value, MarshalTL
     produces the spec's bytes, and UnmarshalTL returns what the spec's reader returns *)
  Theorem C10_marshal_refines_spec : forall t g v e,
    ty_ok S B t = true -> goty t = Some g ->
    tl_encode nm S t v = Some e -> go_marshal B g v = Ok e.
  Proof. exact (marshal_refines S F B Hmatch). Qed.

  Theorem C10_unmarshal_refines_spec : forall t g bs v rest,
    ty_ok S B t = true -> goty t = Some g ->
    tl_decode nm S t bs = Some (v, rest) ->
    exists st, go_unmarshal B g bs = (Ok v, st) /\ inp st = rest.
  Proof. exact (unmarshal_refines S F B Hmatch). Qed.

  (* matches_sound: marshal = tl_encode, and unmarshal inverts it leaving the rest *)
  Theorem C10_matches_sound : forall t g v e,
    ty_ok S B t = true -> goty t = Some g -> tl_encode nm S t v = Some e ->
    go_marshal B g v = Ok e /\
    forall rest, exists st, go_unmarshal B g (e ++ rest) = (Ok v, st) /\ inp st = rest.
  Proof. intros t g v e. exact (binding_roundtrip S F B Hmatch t g v e Hids). Qed.

  (* request methods: the payload handed to the connection is the spec's request *)
  Theorem C10_request_sound : forall f m v e,
    In f F -> matches_method S f m = true -> tl_request nm S f v = Some e ->
    go_request B m (match dfields f with [] => None | _ => Some v end) = Ok e /\
    firstn 4 e = le_bytes 4 (did f).
  Proof.
    intros f m v e Hf Hm He. split; [exact (request_refines S F B Hmatch f m v e Hf Hm He)|].
    exact (proj1 (request_starts_with_id nm S f v e He)).
  Qed.

  (* the server side of the same request (LiteapiRequestDecoder's per-function decoder) *)
  Theorem C10_request_args_sound : forall f bs v rest, In f F ->
    dec_args nm S tl_fuel f bs = Some (v, rest) ->
    exists st, go_unmarshal B (GNamed (camel (dname f) ++ "Request")) bs = (Ok v, st) /\ inp st = rest.
  Proof. exact (request_args_refines S F B Hmatch). Qed.

  (* responses: a boxed value of the declared result type is returned as the result ... *)
  Theorem C10_response_result_sound : forall f m v e,
    In f F -> matches_method S f m = true ->
    tl_encode nm S (TBoxed (dres f)) v = Some e -> go_response B m e = Ok (RResult v).
  Proof. intros f m v e. exact (response_result S F B Hmatch f m v e Hids). Qed.

  (* ... and a boxed liteServer.error as the error *)
  Theorem C10_response_error_sound : forall f m v e e0,
    matches_method S f m = true -> find_ctor S "liteServer.error" = Some e0 ->
    tl_encode nm S (TBoxed (dres e0)) v = Some e -> go_response B m e = Ok (RError v).
  Proof. intros f m v e e0 Hm. exact (response_error S F B Hmatch f m v e Hids Hm e0). Qed.
End Checked.

(** * 5. Hand-written TL codecs outside generated.go (Model/TlHand.v): they write the layout of
    the lite_api.tl declaration they stand for; their readers invert them.  The premises
    about the schema (the declaration exists with these fields) are discharged for today's
    lite_api.tl in Properties/C10_gen.v. *)

(* ton.AccountID.MarshalTL = liteServer.accountId workchain:int id:int256 *)
Theorem C10_hand_account_id_layout : forall sch d w a,
  find_ctor sch "liteServer.accountId" = Some d -> dfields d = fields_account_id ->
  w < two32 -> hash_ok a ->
  tl_encode (go_naming sch) sch (TBare "liteServer.accountId") (val_account_id w a)
    = Some (hand_account_marshal w a).
Proof. exact hand_account_layout. Qed.

Theorem C10_hand_account_id_roundtrip : forall w a rest, w < two32 -> length a = 32%nat ->
  hand_account_unmarshal (hand_account_marshal w a ++ rest) = Some (w, a, rest).
Proof. exact hand_account_roundtrip. Qed.

(* tl.Marshal(ton.BlockID) (reflection walk) = tonNode.blockId workchain:int shard:long seqno:int *)
Theorem C10_hand_block_id_layout : forall sch d w sh sq,
  find_ctor sch "tonNode.blockId" = Some d -> dfields d = fields_block_id ->
  w < two32 -> sh < two64 -> sq < two32 ->
  tl_encode (go_naming sch) sch (TBare "tonNode.blockId") (val_block_id w sh sq)
    = Some (hand_blockid_marshal w sh sq).
Proof. exact hand_block_id_layout. Qed.

Theorem C10_hand_block_id_roundtrip : forall w sh sq rest, w < two32 -> sh < two64 -> sq < two32 ->
  hand_blockid_unmarshal (hand_blockid_marshal w sh sq ++ rest) = Some (w, sh, sq, rest).
Proof. exact hand_block_id_roundtrip. Qed.

(* ton.BlockIDExt.MarshalTL = tonNode.blockIdExt ... root_hash:int256 file_hash:int256 *)
Theorem C10_hand_block_id_ext_layout : forall sch d w sh sq rh fh,
  find_ctor sch "tonNode.blockIdExt" = Some d -> dfields d = fields_block_id_ext ->
  w < two32 -> sh < two64 -> sq < two32 -> hash_ok rh -> hash_ok fh ->
  tl_encode (go_naming sch) sch (TBare "tonNode.blockIdExt") (val_block_id_ext w sh sq rh fh)
    = Some (hand_blockidext_marshal w sh sq rh fh).
Proof. exact hand_block_id_ext_layout. Qed.

Theorem C10_hand_block_id_ext_roundtrip : forall w sh sq rh fh,
  w < two32 -> sh < two64 -> sq < two32 -> length rh = 32%nat -> length fh = 32%nat ->
  hand_blockidext_unmarshal (hand_blockidext_marshal w sh sq rh fh) = Some (w, sh, sq, rh, fh).
Proof. exact hand_block_id_ext_roundtrip. Qed.

(* tlb.VmStack.MarshalTL / UnmarshalTL: the stack's BOC as a TL byte string (framing only) *)
Theorem C10_hand_vmstack_layout : forall boc e, all_bytes boc = true ->
  (hand_vmstack_frame boc = Ok e <-> enc schema_naming [] 1 TBytes (VBytes boc) = Some e).
Proof. exact hand_vmstack_layout. Qed.

Theorem C10_hand_vmstack_roundtrip : forall boc e rest, hand_vmstack_frame boc = Ok e ->
  exists s, hand_vmstack_unframe (e ++ rest) = (Ok boc, s) /\ inp s = rest.
Proof. exact hand_vmstack_roundtrip. Qed.

(** * 6. liteclient's own framing (liteclient/client.go): the package-private copies of the TL
    length prefix and alignment, and the frames assembled by hand around every query *)

(* encodeLength is the TL length prefix; the 0xfe form starts exactly at 254 *)
Theorem C10_lc_encode_length : forall n, lc_encode_length n = bytes_header n.
Proof. exact lc_encode_length_spec. Qed.
Theorem C10_lc_encode_length_boundary :
  lc_encode_length 253 = [253] /\ lc_encode_length 254 = [254; 254; 0; 0] /\
  lc_encode_length 255 = [254; 255; 0; 0].
Proof. exact lc_encode_length_boundary. Qed.

(* decodeLength reads every TL length prefix back, whatever follows *)
Theorem C10_lc_decode_length : forall n rest, n < two24 ->
  lc_decode_length (bytes_header n ++ rest) = Ok (n, rest).
Proof. exact lc_decode_length_roundtrip. Qed.

(* Client.Request writes adnl.message.query: id, query id, query as a TL byte string *)
Theorem C10_lc_request_layout : forall id q, length id = 32%nat ->
  lc_request_payload id q = le_bytes 4 magic_adnl_query ++ id ++ enc_bytes q.
Proof. exact lc_request_layout. Qed.

(* ... which is the schema's boxed adnl.Message constructor (premises discharged in C10_gen.v) *)
Theorem C10_lc_request_is_adnl_query : forall sch d id q,
  find (fun d => String.eqb "AdnlMessageQuery" (xlbl (go_naming sch) d)) (ctors_of sch "adnl.Message") = Some d ->
  did d = magic_adnl_query -> dfields d = fields_adnl_query ->
  hash_ok id -> all_bytes q = true -> N.of_nat (length q) < two24 ->
  tl_encode (go_naming sch) sch (TBoxed "adnl.Message") (val_adnl_query id q) = Some (lc_request_payload id q).
Proof. exact lc_request_is_adnl_query. Qed.

(* liteServerRequest: liteServer.query id, the request as a TL byte string *)
Theorem C10_lc_ls_query_layout : forall q, lc_ls_query q = le_bytes 4 magic_ls_query ++ enc_bytes q.
Proof. exact lc_ls_query_layout. Qed.

(* processQueryAnswer hands the waiting request exactly the answer bytes of adnl.message.answer *)
Theorem C10_lc_answer_roundtrip : forall id resp, length id = 32%nat -> N.of_nat (length resp) < two24 ->
  lc_process_answer (le_bytes 4 magic_adnl_answer ++ id ++ enc_bytes resp) = Ok resp.
Proof. exact lc_answer_roundtrip. Qed.

(** * 7. Bool is a boxed type: the decoder accepts exactly its two constructor ids *)
Theorem C10_bool_decoder_exact : forall B bs v,
  fst (go_unmarshal B GBool bs) = Ok v <->
  exists w r, split_at 4 bs = Some (w, r) /\
    ((le_num w = bool_true_id /\ v = VBool true) \/ (le_num w = bool_false_id /\ v = VBool false)).
Proof. exact go_bool_exact. Qed.

(* a decoder that reads every other word as false (the simplification `tag == boolTrue`) accepts
   bytes that are the encoding of no Bool: refuted as a design *)
Definition lenient_bool (bs : bytes) : option bool :=
  opt (w, _) <- split_at 4 bs; Some (le_num w =? bool_true_id).
Theorem C10_lenient_bool_refuted :
  exists bs, lenient_bool bs = Some false /\
    forall nm sch fuel v, enc nm sch fuel TBool v <> Some bs.
Proof.
  exists [0x99; 0x72; 0x75; 0xb5]. split; [reflexivity|].
  intros nm sch fuel v H. destruct fuel; [discriminate|]. destruct v; try discriminate.
  cbn [enc] in H. destruct b; vm_compute in H; discriminate.
Qed.

(** * 8. Truncated and foreign input *)
(* a byte string whose data ends before the announced length is refused, below and above the
   4096-byte threshold of readN alike *)
Theorem C10_bytes_truncated_refused : forall n d a p, n < two24 -> N.of_nat (length d) < n ->
  fst (read_byte_slice (mkst (bytes_header n ++ d) a p)) = Err EEof.
Proof. exact read_byte_slice_truncated. Qed.

(* a reader that hands back whatever arrived (io.ReadAll over a LimitReader) accepts a byte string
   shorter than its own prefix, which the wire format does not: refuted as a design *)
Definition lenient_read_bytes (bs : bytes) : option bytes :=
  match bs with
  | 254 :: b1 :: b2 :: b3 :: d => Some (firstn (N.to_nat (le_num [b1; b2; b3])) d)
  | _ => None
  end.
Theorem C10_lenient_readN_refuted :
  exists bs, lenient_read_bytes bs = Some [] /\ dec_bytes bs = None /\
             fst (read_byte_slice (st0 bs)) = Err EEof.
Proof. exists [254; 1; 16; 0]. vm_compute. repeat split; reflexivity. Qed.

(* an answer under a constructor id that is neither liteServer.error's nor the result's is refused
   (the generated methods and, by correspondence, WaitMasterchainBlock / WaitMasterchainSeqno) *)
Theorem C10_response_foreign_id_refused : forall B m resp, short 4 resp = false ->
  le_num (firstn 4 resp) <> m_err_id m -> ~ In (le_num (firstn 4 resp)) (m_resp_ids m) ->
  go_response B m resp = Err EInvalid.
Proof. exact go_response_foreign. Qed.

Print Assumptions C10_bytes_truncated_refused.
Print Assumptions C10_lc_request_is_adnl_query.
Print Assumptions C10_bool_decoder_exact.
Print Assumptions C10_hand_account_id_layout.
Print Assumptions C10_hand_block_id_ext_layout.
Print Assumptions C10_tl_roundtrip.
Print Assumptions C10_tl_prefix_free.
Print Assumptions C10_bytes_layout.
Print Assumptions C10_matches_sound.
Print Assumptions C10_request_sound.
Print Assumptions C10_response_result_sound.
Print Assumptions C10_response_error_sound.

(** * What is NOT claimed (gaps)
    - the theorems speak about values in the domain of the wire-format spec (numbers below
      2^32 / 2^64, byte strings below 2^24 bytes, records whose optional fields are present
      exactly when the mode bit is set, nesting depth below tl_fuel = 64; lite_api.tl nests 5 deep);
    - the Go reader is more liberal than the spec's strict reader (non-zero padding, the 0xfe form
      for short strings): only "spec accepts => Go returns the same" is proved;
    - the translator (Go source -> terms) and the semantics of the mini-language are trusted by
      correspondence (harness/cmd/run/c10.go: every binding type and every request method);
    - the models of the hand-written codecs (section 5) are tied to ton/account.go, ton/block.go and
      tlb/stack.go by correspondence (kind c10.hand) and by cross-checking them against the generated
      codecs of the same declarations; of tlb.VmStack only the TL framing is in scope here;
    - the generator -> artifact pair (re-running generator.go and comparing bytes) is not part of
      this file. *)
Definition C10_gaps := tt.

(** * Example: the premises are satisfiable by a non-trivial schema and value *)
Definition ex_S : schema :=
  [mkdecl "t.inner" 0xaabbccdd [mkfield "a" None TInt] "t.Inner";
   mkdecl "t.pair" 0x11223344
     [mkfield "mode" None TNat; mkfield "lt" (Some ("mode"%string, 1)) TLong;
      mkfield "data" None TBytes; mkfield "xs" None (TVector (TBare "t.inner"))] "t.Pair"].
Definition ex_F : list decl := [mkdecl "t.get" 0x01020304 [mkfield "n" None TInt] "t.Pair"].
Definition ex_B : bindings :=
  flat_map (fun d => match expected_for ex_S d with Some b => [b] | None => [] end) ex_S ++
  flat_map (fun f => match expected_request f with Some b => [b] | None => [] end) ex_F.
Definition ex_v : value :=
  VRec "" [("Mode"%string, VNum 2); ("Lt"%string, VNum 5); ("Data"%string, VBytes [1; 2; 3]);
           ("Xs"%string, VVec [VRec "" [("A"%string, VNum 7)]])].

Example C10_example_premises :
  matches_all ex_S ex_F ex_B = true /\ ids_distinct ex_S = true /\
  ty_ok ex_S ex_B (TBare "t.pair") = true /\
  tl_encode (go_naming ex_S) ex_S (TBare "t.pair") ex_v
    = Some [2;0;0;0; 5;0;0;0;0;0;0;0; 3;1;2;3; 1;0;0;0; 7;0;0;0] /\
  go_marshal ex_B (GNamed "TPairC") ex_v
    = Ok [2;0;0;0; 5;0;0;0;0;0;0;0; 3;1;2;3; 1;0;0;0; 7;0;0;0].
Proof. vm_compute. repeat split; reflexivity. Qed.
