(** C19 — TON Connect proofs are accepted only for the key controlling the address.

    Statements only; proofs in Proofs/TonConnectP.v (accepted_implies, totality, message layout),
    Proofs/TonConnectQ.v (honest proofs, rejections, lifetimes, payload), Proofs/TonConnectA.v
    (address text), Proofs/TonConnectHistory.v (behaviour before the two repairs).

    Parameters of every statement (never axioms): SHA-256 [H], HMAC [hmac], Ed25519 [verify]/[sign],
    base64 [b64]/[b64enc], the BOC parser with cell hashes [boc] (C07/C02), dictionary
    decodability [lib_ok]/[ext_ok] (C05), the executor [exec], the clock [now] (ns). *)
From Coq Require Import String Ascii List NArith ZArith Bool.
From Tongo Require Import Lib.Bits Lib.Res Model.TonConnect
     Proofs.TonConnectP Proofs.TonConnectQ Proofs.TonConnectA Proofs.TonConnectS Proofs.TonConnectHistory.
Import ListNotations.
Local Open Scope Z_scope.

(** accepted  =>  payload check passed /\ not expired /\ domain allowed /\ the signature verifies
    under pk over the message built from the proof's own fields /\ pk came from the account's
    get-method, or (the get-method failed and) the state-init is one cell hashing to the address
    whose code hash is a known wallet with a data layout and pk is the key in its data. *)
Theorem C19_accepted_implies :
  forall H verify b64 boc lib_ok ext_ok known exec cp cd lifetime now tp pk,
    check_proof H verify b64 boc lib_ok ext_ok known exec cp cd lifetime now tp = Ok pk ->
    exists src,
      cp (p_payload tp) = Ok true /\
      exists pm acc,
        convert b64 tp = Ok pm /\
        expired now (m_ts pm) lifetime = false /\
        cd (m_domain pm) = Ok true /\
        parse_account_id (p_address tp) = Ok acc /\
        match src with
        | FromGetMethod => get_wallet_pubkey (exec acc) = Some pk
        | FromStateInit =>
            get_wallet_pubkey (exec acc) = None /\ p_state_init tp <> [] /\
            exists root code data h l,
              boc (p_state_init tp) = Ok [root] /\ c_hash root = Some (snd acc) /\
              parse_state_init lib_ok root = Ok (Some code, Some data) /\
              c_hash code = Some h /\ lookup h known = Some (Some l) /\
              data_key ext_ok l data = Ok pk
        end /\
        length pk = 32%nat /\
        verify pk (create_message H pm) (m_sig pm) = true.
Proof. exact accepted_implies. Qed.
Print Assumptions C19_accepted_implies.

(** the payload check and the domain check are callbacks: whatever the application supplies, a
    refusal — (false, nil) the way StaticDomain reports it, or an error — is never an accepted
    proof (the boolean verdict decides, not only the error). *)
Theorem C19_callback_refusal_rejects :
  forall H verify b64 boc lib_ok ext_ok known exec cp cd lifetime now tp,
    cp (p_payload tp) <> Ok true \/
    (forall pm, convert b64 tp = Ok pm -> cd (m_domain pm) <> Ok true) ->
    forall pk, check_proof H verify b64 boc lib_ok ext_ok known exec cp cd lifetime now tp <> Ok pk.
Proof.
  intros H verify b64 boc lib_ok ext_ok known exec cp cd lifetime now tp Href pk Hacc.
  destruct (accepted_implies _ _ _ _ _ _ _ _ _ _ _ _ _ _ Hacc) as [src [Hcp [pm [acc [Hconv [_ [Hcd _]]]]]]].
  destruct Href as [Hp | Hd]; [exact (Hp Hcp) | exact (Hd pm Hconv Hcd)].
Qed.

(** the same for the server as deployed (s.CheckPayload, StaticDomain): the payload was issued
    under the server's secret and has not expired, the domain is the configured one *)
Theorem C19_server_accepted_implies :
  forall H verify hmac b64 boc lib_ok ext_ok known exec secret domain lt_proof lt_payload now tp pk,
    server_check_proof H verify hmac b64 boc lib_ok ext_ok known exec secret domain lt_proof lt_payload now tp = Ok pk ->
    (exists b, hex_decode (p_payload tp) = Some b /\ length b = 32%nat /\
       skipn 16 b = firstn 16 (hmac secret (firstn 16 b)) /\
       expired now (to_int64 (be_val (firstn 8 (skipn 8 b)))) lt_payload = false) /\
    exists src pm acc,
      convert b64 tp = Ok pm /\ expired now (m_ts pm) lt_proof = false /\ m_domain pm = domain /\
      parse_account_id (p_address tp) = Ok acc /\
      key_from boc lib_ok ext_ok known exec acc (p_state_init tp) pk src /\
      length pk = 32%nat /\ verify pk (create_message H pm) (m_sig pm) = true.
Proof. exact server_accepted_implies. Qed.

(** the account whose key is looked up is the address inside the signed message, zero-padded on
    the left to 32 bytes (AccountIDFromRaw pads short hex); longer addresses are rejected *)
Theorem C19_account_is_signed_address :
  forall b64 tp pm, convert b64 tp = Ok pm ->
    parse_account_id (p_address tp) =
      if (length (m_addr pm) <=? 32)%nat
      then Ok (m_wc pm, repeat 0%N (32 - length (m_addr pm)) ++ m_addr pm) else Err EOther.
Proof. exact convert_account_agree. Qed.

(** a proof made by CreateSignedProof with sk, for an address whose key (by get-method or by
    state-init) is pk = pub sk, is accepted and yields pk *)
Theorem C19_honest_proof_accepted :
  forall H verify b64 boc lib_ok ext_ok known exec cp cd lifetime now
         sign b64enc sk pk,
    (forall m, verify pk m (sign sk m) = true) -> length pk = 32%nat ->
    (forall x, b64 (b64enc x) = Some x) -> b64 [] = Some [] ->
    forall address ts domain payload si tp acc src,
      create_signed_proof H sign b64 b64enc sk address ts domain payload si = Ok tp ->
      cp payload = Ok true -> expired now ts lifetime = false -> cd domain = Ok true ->
      parse_account_id address = Ok acc ->
      key_from boc lib_ok ext_ok known exec acc si pk src ->
      check_proof H verify b64 boc lib_ok ext_ok known exec cp cd lifetime now tp = Ok pk.
Proof. exact honest_proof_accepted. Qed.
Print Assumptions C19_honest_proof_accepted.

(** the signed byte string determines workchain, address, domain, timestamp and payload —
    for addresses of equal length (there is no length prefix on the address) *)
Theorem C19_message_injective :
  forall p1 p2, fields_in_range p1 -> fields_in_range p2 ->
    length (m_addr p1) = length (m_addr p2) ->
    message_layout p1 = message_layout p2 -> same_fields p1 p2.
Proof. exact message_layout_injective. Qed.

(* ... and without that premise it does not (28- vs 32-byte address) *)
Theorem C19_message_ambiguous_without_address_length :
  message_layout amb1 = message_layout amb2 /\ fields_in_range amb1 /\ fields_in_range amb2 /\
  m_addr amb1 <> m_addr amb2 /\ m_ts amb1 <> m_ts amb2 /\ m_payload amb1 <> m_payload amb2.
Proof. exact message_layout_ambiguous. Qed.

(* ... but a shortened spelling of the SAME account collides only for the all-zero address *)
Theorem C19_short_address_collision_only_zero :
  forall p1 p2, length (m_addr p1) = 32%nat -> (length (m_addr p2) < 32)%nat ->
    m_addr p1 = repeat 0%N (32 - length (m_addr p2)) ++ m_addr p2 ->
    message_layout p1 = message_layout p2 -> m_addr p1 = repeat 0%N 32.
Proof. exact short_address_collision_only_zero. Qed.

(* the double hash binds the layout unless SHA-256 collides *)
Theorem C19_message_binding :
  forall H p1 p2, create_message H p1 = create_message H p2 ->
    message_layout p1 = message_layout p2 \/ (exists x y, x <> y /\ H x = H y).
Proof. exact create_message_binding. Qed.

(** rejections under an ideal signature scheme *)
Theorem C19_other_key_rejected :
  forall H verify b64 boc lib_ok ext_ok known exec cp cd lifetime now (Signed : bytes -> bytes -> Prop),
    (forall k m s, verify k m s = true -> Signed k m) ->
    forall tp,
      (forall pm acc k src, convert b64 tp = Ok pm -> parse_account_id (p_address tp) = Ok acc ->
         key_from boc lib_ok ext_ok known exec acc (p_state_init tp) k src -> ~ Signed k (create_message H pm)) ->
      forall k, check_proof H verify b64 boc lib_ok ext_ok known exec cp cd lifetime now tp <> Ok k.
Proof. exact not_signed_by_account_key_rejected. Qed.

Theorem C19_changed_field_rejected :
  forall H verify b64 boc lib_ok ext_ok known exec cp cd lifetime now (Signed : bytes -> bytes -> Prop),
    (forall k m s, verify k m s = true -> Signed k m) ->
    forall tp pm pm0,
      (forall x y, H x = H y -> x = y) ->
      convert b64 tp = Ok pm ->
      fields_in_range pm -> fields_in_range pm0 -> length (m_addr pm) = length (m_addr pm0) ->
      ~ same_fields pm pm0 ->
      (forall acc k src, parse_account_id (p_address tp) = Ok acc ->
         key_from boc lib_ok ext_ok known exec acc (p_state_init tp) k src ->
         forall m, Signed k m -> m = create_message H pm0) ->
      forall k, check_proof H verify b64 boc lib_ok ext_ok known exec cp cd lifetime now tp <> Ok k.
Proof. exact changed_field_rejected. Qed.
Print Assumptions C19_changed_field_rejected.

Theorem C19_expired_rejected :
  forall H verify b64 boc lib_ok ext_ok known exec cp cd lifetime now tp pm k,
    convert b64 tp = Ok pm -> expired now (m_ts pm) lifetime = true ->
    check_proof H verify b64 boc lib_ok ext_ok known exec cp cd lifetime now tp <> Ok k.
Proof. exact expired_rejected. Qed.

Theorem C19_payload_check_failed_rejected :
  forall H verify b64 boc lib_ok ext_ok known exec cp cd lifetime now tp k,
    cp (p_payload tp) <> Ok true ->
    check_proof H verify b64 boc lib_ok ext_ok known exec cp cd lifetime now tp <> Ok k.
Proof. exact payload_check_failed_rejected. Qed.

Theorem C19_foreign_payload_rejected :
  forall hmac secret lifetime now payload b,
    hex_decode payload = Some b -> skipn 16 b <> firstn 16 (hmac secret (firstn 16 b)) ->
    check_payload hmac secret lifetime now payload <> Ok true.
Proof. exact foreign_payload_rejected. Qed.

Theorem C19_wrong_length_payload_rejected :
  forall hmac secret lifetime now payload b,
    hex_decode payload = Some b -> length b <> 32%nat ->
    check_payload hmac secret lifetime now payload <> Ok true.
Proof. exact wrong_length_payload_rejected. Qed.

Theorem C19_domain_not_allowed_rejected :
  forall H verify b64 boc lib_ok ext_ok known exec cp cd lifetime now tp pm k,
    convert b64 tp = Ok pm -> cd (m_domain pm) <> Ok true ->
    check_proof H verify b64 boc lib_ok ext_ok known exec cp cd lifetime now tp <> Ok k.
Proof. exact domain_not_allowed_rejected. Qed.

Theorem C19_state_init_not_hashing_to_address_rejected :
  forall H verify b64 boc lib_ok ext_ok known exec cp cd lifetime now tp acc k,
    parse_account_id (p_address tp) = Ok acc -> get_wallet_pubkey (exec acc) = None ->
    (forall root, boc (p_state_init tp) = Ok [root] -> c_hash root <> Some (snd acc)) ->
    check_proof H verify b64 boc lib_ok ext_ok known exec cp cd lifetime now tp <> Ok k.
Proof. exact state_init_not_hashing_to_address_rejected. Qed.

Theorem C19_unknown_wallet_code_rejected :
  forall H verify b64 boc lib_ok ext_ok known exec cp cd lifetime now tp acc k,
    parse_account_id (p_address tp) = Ok acc -> get_wallet_pubkey (exec acc) = None ->
    (forall root code data h, boc (p_state_init tp) = Ok [root] ->
       parse_state_init lib_ok root = Ok (Some code, Some data) -> c_hash code = Some h ->
       forall l, lookup h known <> Some (Some l)) ->
    check_proof H verify b64 boc lib_ok ext_ok known exec cp cd lifetime now tp <> Ok k.
Proof. exact unknown_wallet_code_rejected. Qed.

(** never a crash: for every proof (any strings), every executor answer, every clock *)
Theorem C19_check_proof_total :
  forall H verify b64 boc lib_ok ext_ok known exec cp cd lifetime now tp,
    (forall s, is_panic (cp s) = false) -> (forall s, is_panic (cd s) = false) ->
    (forall s, is_panic (boc s) = false) ->
    is_panic (check_proof H verify b64 boc lib_ok ext_ok known exec cp cd lifetime now tp) = false.
Proof. exact check_proof_total. Qed.
Print Assumptions C19_check_proof_total.

Theorem C19_server_check_proof_total :
  forall H verify hmac b64 boc lib_ok ext_ok known exec secret domain lt_proof lt_payload now tp,
    (forall k m, (16 <= length (hmac k m))%nat) -> (forall s, is_panic (boc s) = false) ->
    is_panic (server_check_proof H verify hmac b64 boc lib_ok ext_ok known exec secret domain
                                 lt_proof lt_payload now tp) = false.
Proof. exact server_check_proof_total. Qed.

(** lifetimes, to the nanosecond (used for the proof and for the payload) *)
Theorem C19_expired_spec :
  forall now ts lifetime,
    0 <= now < 2 ^ 33 * giga -> 0 <= ts < 2 ^ 33 -> 0 <= lifetime <= 9223372036 ->
    expired now ts lifetime = (now >? (ts + lifetime) * giga).
Proof. exact expired_spec. Qed.

Theorem C19_lifetime_boundary :
  forall ts lifetime ns,
    0 <= ts -> ts + lifetime + 1 < 2 ^ 33 -> 0 <= lifetime <= 9223372036 -> 0 <= ns < giga ->
    expired ((ts + lifetime) * giga) ts lifetime = false /\
    expired ((ts + lifetime) * giga + 1) ts lifetime = true /\
    (1 <= lifetime -> expired ((ts + lifetime - 1) * giga + ns) ts lifetime = false) /\
    expired ((ts + lifetime + 1) * giga + ns) ts lifetime = true.
Proof. exact lifetime_boundary. Qed.

(** histories on one Server: the answer to a call is the answer to that call alone, whatever
    calls (logins, forged proofs, replays, reused payloads) were made before or after it.
    Trivial in the model (the model of Server has no state); its content is the
    correspondence kind c19.hist, which runs 2..6 calls sequentially and concurrently on ONE
    tonconnect.Server value and compares each result with the model's result for the call alone. *)
Theorem C19_history_independent :
  forall H verify hmac b64 boc lib_ok ext_ok known secret domain lt_proof lt_payload before c after,
    nth_error (server_history H verify hmac b64 boc lib_ok ext_ok known secret domain lt_proof lt_payload
                              (before ++ c :: after)) (length before)
    = Some (server_call H verify hmac b64 boc lib_ok ext_ok known secret domain lt_proof lt_payload c).
Proof. exact history_independent. Qed.
Print Assumptions C19_history_independent.

Theorem C19_rejected_alone_rejected_in_history :
  forall H verify hmac b64 boc lib_ok ext_ok known secret domain lt_proof lt_payload before c after k,
    server_call H verify hmac b64 boc lib_ok ext_ok known secret domain lt_proof lt_payload c <> Ok k ->
    nth_error (server_history H verify hmac b64 boc lib_ok ext_ok known secret domain lt_proof lt_payload
                              (before ++ c :: after)) (length before) <> Some (Ok k).
Proof. exact rejected_alone_rejected_in_history. Qed.

(* a cache of verified state-inits keyed by the state-init text only (not by the address) is
   refuted: own login, then the same state-init for a victim's address *)
Theorem C19_addressless_cache_refuted :
  (snd (w_cached_step [] w_forged) = Err EOther) /\
  (w_stateless w_forged = Err EOther) /\
  (w_stateless w_login = Ok w_attacker_key) /\
  (snd (run_history w_cached_step [] (w_login :: w_forged :: nil)) = (Ok w_attacker_key :: Ok w_attacker_key :: nil)) /\
  (map w_stateless (w_login :: w_forged :: nil) = (Ok w_attacker_key :: Err EOther :: nil)).
Proof. exact addressless_cache_refuted. Qed.

(** the payload is bound to the FULL secret (of any length; [hmac] is keyed with the secret as
    given): CheckPayload of any server s2 on the payload GeneratePayload made under s1 succeeds
    exactly when the 16-byte MACs under s1 and s2 agree and the payload has not expired *)
Theorem C19_check_generated_payload :
  forall hmac, (forall k m, Forall is_byte (hmac k m)) -> (forall k m, (16 <= length (hmac k m))%nat) ->
  forall s1 s2 nonce lt1 now1 lt2 now2,
    length nonce = 8%nat -> Forall is_byte nonce ->
    check_payload hmac s2 lt2 now2 (generate_payload hmac s1 nonce lt1 now1) =
      if beqb (firstn 16 (hmac s1 (payload_body nonce lt1 now1))) (firstn 16 (hmac s2 (payload_body nonce lt1 now1)))
      then Ok (negb (expired now2 (to_int64 (((now1 + lt1) / giga) mod 2 ^ 64)) lt2))
      else Ok false.
Proof. exact check_generated_payload. Qed.

Theorem C19_payload_of_other_secret_rejected :
  forall hmac, (forall k m, Forall is_byte (hmac k m)) -> (forall k m, (16 <= length (hmac k m))%nat) ->
  forall s1 s2 nonce lt1 now1 lt2 now2,
    length nonce = 8%nat -> Forall is_byte nonce ->
    firstn 16 (hmac s1 (payload_body nonce lt1 now1)) <> firstn 16 (hmac s2 (payload_body nonce lt1 now1)) ->
    check_payload hmac s2 lt2 now2 (generate_payload hmac s1 nonce lt1 now1) = Ok false.
Proof. exact payload_of_other_secret_rejected. Qed.

Theorem C19_generated_payload_accepted :
  forall hmac, (forall k m, Forall is_byte (hmac k m)) -> (forall k m, (16 <= length (hmac k m))%nat) ->
  forall s nonce lt now1 now2,
    length nonce = 8%nat -> Forall is_byte nonce ->
    0 <= lt <= 9223372036 -> 0 <= now1 -> now1 + lt < 2 ^ 33 * giga -> 0 <= now2 < 2 ^ 33 * giga ->
    now2 <= ((now1 + lt) / giga + lt) * giga ->
    check_payload hmac s lt now2 (generate_payload hmac s nonce lt now1) = Ok true.
Proof. exact generated_payload_accepted. Qed.
Print Assumptions C19_generated_payload_accepted.

(* ... and only for that long: the configured lifetime is counted once *)
Theorem C19_generated_payload_rejected_after_lifetime :
  forall hmac, (forall k m, Forall is_byte (hmac k m)) -> (forall k m, (16 <= length (hmac k m))%nat) ->
  forall s nonce lt now1 now2,
    length nonce = 8%nat -> Forall is_byte nonce ->
    0 <= lt <= 9223372036 -> 0 <= now1 -> now1 + lt < 2 ^ 33 * giga -> 0 <= now2 < 2 ^ 33 * giga ->
    now1 + lt + lt * giga < now2 ->
    check_payload hmac s lt now2 (generate_payload hmac s nonce lt now1) = Ok false.
Proof. exact generated_payload_rejected_after_lifetime. Qed.

(* a GeneratePayload that stores now + lifetime seconds (CheckPayload unchanged) is refuted *)
Theorem C19_lifetime_counted_twice_refuted :
  (check_payload w_mac w_secret_a 300 (1450 * giga) (generate_payload w_mac w_secret_a w_nonce 300 (1000 * giga)) = Ok false) /\
  (check_payload w_mac w_secret_a 300 (1450 * giga) (generate_payload_seconds w_mac w_secret_a w_nonce 300 (1000 * giga)) = Ok true) /\
  (check_payload w_mac w_secret_a 300 (1250 * giga) (generate_payload w_mac w_secret_a w_nonce 300 (1000 * giga)) = Ok true).
Proof. exact lifetime_counted_twice_refuted. Qed.

(** every text the server accepts as a payload is exactly 64 hexadecimal digits: a genuine payload
    followed or preceded by anything (a digit, a non-hex character, white space, NUL) is rejected *)
Theorem C19_accepted_payload_text_exact :
  forall hmac secret lifetime now payload,
    check_payload hmac secret lifetime now payload = Ok true ->
    length payload = 64%nat /\ Forall is_hex_digit payload.
Proof. exact accepted_payload_text_exact. Qed.

Theorem C19_payload_with_tail_rejected :
  forall hmac secret lifetime now payload tail,
    length payload = 64%nat -> tail <> [] ->
    check_payload hmac secret lifetime now (payload ++ tail) <> Ok true /\
    check_payload hmac secret lifetime now (tail ++ payload) <> Ok true.
Proof. exact payload_with_tail_rejected. Qed.

(* a CheckPayload that ignores the hex-decoding error when 32 bytes were decoded is refuted *)
Theorem C19_lenient_hex_refuted :
  (check_payload w_mac w_secret_a 300 (1000 * giga) w_payload = Ok true) /\
  (check_payload w_mac w_secret_a 300 (1000 * giga) (w_payload ++ [48%N]) = Ok false) /\
  (check_payload w_mac w_secret_a 300 (1000 * giga) (w_payload ++ [33%N]) = Ok false) /\
  (check_payload w_mac w_secret_a 300 (1000 * giga) (w_payload ++ [48; 103]%N) = Ok false) /\
  (check_payload_lenient w_mac w_secret_a 300 (1000 * giga) (w_payload ++ [48%N]) = Ok true) /\
  (check_payload_lenient w_mac w_secret_a 300 (1000 * giga) (w_payload ++ [33%N]) = Ok true) /\
  (check_payload_lenient w_mac w_secret_a 300 (1000 * giga) (w_payload ++ [48; 103]%N) = Ok true).
Proof. exact lenient_hex_refuted. Qed.

(* a server that keys the MAC with the secret cut (or padded) to the 64-byte HMAC block is refuted *)
Theorem C19_block_key_design_refuted :
  (check_payload w_mac w_secret_b 300 0 (generate_payload w_mac w_secret_a w_nonce 300 0) = Ok false) /\
  (check_payload w_mac w_secret_a 300 0 (generate_payload w_mac w_secret_a w_nonce 300 0) = Ok true) /\
  (check_payload w_mac (block_key w_secret_b) 300 0
     (generate_payload w_mac (block_key w_secret_a) w_nonce 300 0) = Ok true) /\
  (check_payload w_mac (block_key w_secret_a) 300 0 (generate_payload w_mac w_secret_a w_nonce 300 0) = Ok false).
Proof. exact block_key_design_refuted. Qed.

(** the defects repaired in ParseStateInit (model of the old code in TonConnectHistory.v) *)
Theorem C19_F16_panicked_before_fix :
  check_proof_before_fix (fun x => x) (fun _ _ _ => false) (fun _ => Some []) (fun _ => Ok [w_root_empty])
    (fun _ => true) (fun _ => true) [] (fun _ => ExErr) w_yes w_yes 300 0 w_proof = Panic PEdKeyLen.
Proof. exact F16_panics_before_fix. Qed.

Theorem C19_F22_zero_key_accepted_before_fix :
  check_proof_before_fix (fun x => x) w_verify_zero (fun _ => Some []) (fun _ => Ok [w_root_lockup])
    (fun _ => true) (fun _ => true) w_known (fun _ => ExErr) w_yes w_yes 300 0 w_proof = Ok (repeat 0%N 32).
Proof. exact F22_zero_key_accepted_before_fix. Qed.

(** the premises are satisfiable: an honest proof for the account 0:1111..11 whose get-method
    answers the key 0909..09, with a toy signature scheme (sign sk m = m, verify = equality) *)
Example C19_honest_example :
  let sign := fun (_ m : bytes) => m in
  let verify := fun (_ m s : bytes) => beqb m s in
  let pk := repeat 9%N 32 in
  let exec := fun (_ : Z * bytes) => ExRet 0 [StInt (be_val pk)] in
  exists tp,
    create_signed_proof (fun x => x) sign Some (fun x => x) [] w_address 1000 [100%N] [7%N] [] = Ok tp /\
    check_proof (fun x => x) verify Some (fun _ => Err EOther) (fun _ => false) (fun _ => false) []
                exec w_yes w_yes 300 (1100 * giga) tp = Ok pk /\
    check_proof (fun x => x) verify Some (fun _ => Err EOther) (fun _ => false) (fun _ => false) []
                exec w_yes w_yes 300 (1300 * giga + 1) tp = Err EOther.
Proof. eexists. split; [vm_compute; reflexivity|]. split; vm_compute; reflexivity. Qed.
