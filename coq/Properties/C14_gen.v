(** C14 obligations over the data translated from wallet/*.go
    (Generated/WalletCodes.v): message limits, opcodes and the action magic of
    today's source are the ones of the model. *)
From Coq Require Import List NArith ZArith Arith Bool String.
From Tongo Require Import Lib.Bits Lib.Res Model.Wallet Generated.WalletCodes Model.TlbCore Model.WalletTransfer
  Generated.TlbTypes.
Import ListNotations.

(** maxMessageNumber of every wallet type and the own limits of the payload
    codecs (PayloadV1toV4 / PayloadHighload MarshalTLB) *)
Example C14_gen_limits :
  wallet_max_messages =
    [("walletV1V2", 4); ("walletV3", 4); ("walletV4", 4); ("walletV5Beta", 254); ("walletV5R1", 255);
     ("walletHighloadV2", 254)]%string%N /\
  map (fun v => N.of_nat (max_messages v)) [V1R1; V3R1; V3R2; V4R1; V4R2; V5Beta; V5R1; HLV2R2]
    = [4; 4; 4; 4; 4; 254; 255; 254]%N /\
  wallet_payload_limits = [("PayloadV1toV4", 4); ("PayloadHighload", 254)]%string%N.
Proof. repeat split; reflexivity. Qed.

(** v5 opcodes and the magic of W5SendMessageAction *)
Example C14_gen_opcodes :
  Z.to_N c_V5MsgTypeSignedInternal = op_signed_internal /\
  Z.to_N c_V5MsgTypeSignedExternal = op_signed_external /\
  Z.to_N c_V5MsgTypeExtensionAction = op_extension_action /\
  c_W5SendMessageAction_magic = action_magic.
Proof. repeat split; reflexivity. Qed.

(** the Version constants are numbered as the harness and the model number them *)
Example C14_gen_version_order :
  wallet_versions = ["V1R1"; "V1R2"; "V1R3"; "V2R1"; "V2R2"; "V3R1"; "V3R2"; "V3R2Lockup"; "V4R1"; "V4R2";
                     "V5Beta"; "V5R1"; "HighLoadV1R1"; "HighLoadV1R2"; "HighLoadV2"; "HighLoadV2R1";
                     "HighLoadV2R2"]%string.
Proof. reflexivity. Qed.

(** the descriptor the transfer model encodes with is the one the translator
    derives from today's tlb.Message (and its parts); C03_gen proves it well-formed *)
Example C14_gen_message_descriptor :
  d_tlb_Message = msg_ty /\ d_tlb_StateInit = stateinit_ty /\ d_tlb_CommonMsgInfo = msginfo_ty.
Proof. repeat split; reflexivity. Qed.
