(** C04 obligations over the descriptors of today's Go types: each core type of
    packages tlb / wallet implements its block.tlb definition (Spec/BlockTlb.v,
    transcribed by hand from the TON schema).  By C04_refines_sound this makes
    the encoder bit-exact with the schema for every value of these types. *)
From Coq Require Import List NArith Bool String.
From Tongo Require Import Model.TlbCore Spec.TlbSchema Spec.BlockTlb Generated.TlbTypes.
Import ListNotations.

Definition ok (s : schema) (d : ty) : bool := refines 64 s d.

Theorem C04_gen_core_types_refine_block_tlb :
  forallb (fun p => ok (fst p) (snd p))
    [(s_MsgAddress, d_tlb_MsgAddress); (s_Grams, d_tlb_Grams); (s_Grams, d_tlb_VarUInteger16);
     (s_ExtraCurrencyCollection, d_tlb_ExtraCurrencyCollection); (s_CurrencyCollection, d_tlb_CurrencyCollection);
     (s_CommonMsgInfo, d_tlb_CommonMsgInfo); (s_TickTock, d_tlb_TickTock); (s_SimpleLib, d_tlb_SimpleLib);
     (s_StateInit, d_tlb_StateInit); (s_Message, d_tlb_Message);
     (s_AccountStatus, d_tlb_AccountStatus); (s_AccStatusChange, d_tlb_AccStatusChange);
     (s_ComputeSkipReason, d_tlb_ComputeSkipReason); (s_HashUpdate, d_tlb_HashUpdate);
     (s_StorageUsedShort, d_tlb_StorageUsed); (s_TrStoragePhase, d_tlb_TrStoragePhase);
     (s_TrCreditPhase, d_tlb_TrCreditPhase); (s_TrComputePhase, d_tlb_TrComputePhase);
     (s_TrActionPhase, d_tlb_TrActionPhase); (s_TrBouncePhase, d_tlb_TrBouncePhase);
     (s_SplitMergeInfo, d_tlb_SplitMergeInfo); (s_TransactionDescr, d_tlb_TransactionDescr);
     (s_Transaction, d_tlb_Transaction); (s_SignedMsgBody, d_wallet_SignedMsgBody)] = true.
Proof. vm_compute. reflexivity. Qed.

(* the checker discriminates: swapped fields, a wrong width, a wrong tag and a
   missing reference are all rejected *)
Theorem C04_gen_checker_rejects :
  ok s_TickTock (TStruct [TBool]) = false /\
  ok s_HashUpdate (TStruct [TMagic 8 0x73; TBits 256; TBits 256]) = false /\
  ok s_SplitMergeInfo (TStruct [TUint 6; TUint 5; TBits 256; TBits 256]) = false /\
  ok s_SimpleLib (TStruct [TCellRef; TBool]) = false /\
  ok (SMaybe (SRef s_Message)) (TMaybe d_tlb_Message) = false.
Proof. vm_compute. repeat split. Qed.
