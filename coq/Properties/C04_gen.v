(** C04 obligations over the descriptors of today's Go types: each core type of
    packages tlb / wallet implements its block.tlb definition (Spec/BlockTlb.v,
    transcribed by hand from the TON schema).  By C04_refines_sound this makes
    the encoder bit-exact with the schema for every value of these types. *)
From Coq Require Import List NArith Bool String.
From Tongo Require Import Model.TlbCore Spec.TlbSchema Spec.BlockTlb Generated.TlbTypes.
Import ListNotations.

Definition ok (s : schema) (d : ty) : bool := refines 64 s d.

Theorem C04_gen_core_types_refine_block_tlb :
  forallb (fun p => ok (fst p) (snd p))
    [(s_MsgAddress, d_tlb_MsgAddress); (s_Grams, d_tlb_Grams); (s_Grams, d_tlb_VarUInteger16);
     (s_ExtraCurrencyCollection, d_tlb_ExtraCurrencyCollection); (s_CurrencyCollection, d_tlb_CurrencyCollection);
     (s_CommonMsgInfo, d_tlb_CommonMsgInfo); (s_TickTock, d_tlb_TickTock); (s_SimpleLib, d_tlb_SimpleLib);
     (s_StateInit, d_tlb_StateInit); (s_Message, d_tlb_Message);
     (s_AccountStatus, d_tlb_AccountStatus); (s_AccStatusChange, d_tlb_AccStatusChange);
     (s_ComputeSkipReason, d_tlb_ComputeSkipReason); (s_HashUpdate, d_tlb_HashUpdate);
     (s_StorageUsedShort, d_tlb_StorageUsed); (s_TrStoragePhase, d_tlb_TrStoragePhase);
     (s_TrCreditPhase, d_tlb_TrCreditPhase); (s_TrComputePhase, d_tlb_TrComputePhase);
     (s_TrActionPhase, d_tlb_TrActionPhase); (s_TrBouncePhase, d_tlb_TrBouncePhase);
     (s_SplitMergeInfo, d_tlb_SplitMergeInfo); (s_TransactionDescr, d_tlb_TransactionDescr);
     (s_Transaction, d_tlb_Transaction); (s_SignedMsgBody, d_wallet_SignedMsgBody)] = true.
Proof. vm_compute. reflexivity. Qed.

Local Open Scope string_scope.

(* message envelopes, in/out message descriptors, accounts, block-level and configuration records *)
Definition more_obligations : list (string * (schema * ty)) := [
  ("tlb.IntermediateAddress", (s_IntermediateAddress, d_tlb_IntermediateAddress));
  ("tlb.MsgMetadata", (s_MsgMetadata, d_tlb_MsgMetadata)); ("tlb.MsgEnvelope", (s_MsgEnvelope, d_tlb_MsgEnvelope));
  ("tlb.InMsg", (s_InMsg, d_tlb_InMsg)); ("tlb.OutMsg", (s_OutMsg, d_tlb_OutMsg)); ("tlb.EnqueuedMsg", (s_EnqueuedMsg, d_tlb_EnqueuedMsg));
  ("tlb.AccountState", (s_AccountState, d_tlb_AccountState)); ("tlb.AccountStorage", (s_AccountStorage, d_tlb_AccountStorage));
  ("tlb.StorageExtraInfo", (s_StorageExtraInfo, d_tlb_StorageExtraInfo)); ("tlb.StorageInfo", (s_StorageInfo, d_tlb_StorageInfo));
  ("tlb.ExistedAccount", (s_ExistedAccount, d_tlb_ExistedAccount)); ("tlb.Account", (s_Account, d_tlb_Account));
  ("tlb.ShardAccount", (s_ShardAccount, d_tlb_ShardAccount)); ("tlb.DepthBalanceInfo", (s_DepthBalanceInfo, d_tlb_DepthBalanceInfo));
  ("tlb.ExtBlkRef", (s_ExtBlkRef, d_tlb_ExtBlkRef)); ("tlb.BlkMasterInfo", (s_BlkMasterInfo, d_tlb_BlkMasterInfo));
  ("tlb.ShardIdent", (s_ShardIdent, d_tlb_ShardIdent)); ("tlb.BlockIdExt", (s_BlockIdExt, d_tlb_BlockIdExt));
  ("tlb.GlobalVersion", (s_GlobalVersion, d_tlb_GlobalVersion)); ("tlb.ImportFees", (s_ImportFees, d_tlb_ImportFees));
  ("tlb.ShardFeeCreated", (s_ShardFeeCreated, d_tlb_ShardFeeCreated)); ("tlb.KeyExtBlkRef", (s_KeyExtBlkRef, d_tlb_KeyExtBlkRef));
  ("tlb.KeyMaxLt", (s_KeyMaxLt, d_tlb_KeyMaxLt)); ("tlb.ValidatorInfo", (s_ValidatorInfo, d_tlb_ValidatorInfo));
  ("tlb.ValidatorBaseInfo", (s_ValidatorBaseInfo, d_tlb_ValidatorBaseInfo)); ("tlb.Counters", (s_Counters, d_tlb_Counters));
  ("tlb.CreatorStats", (s_CreatorStats, d_tlb_CreatorStats)); ("tlb.ProcessedUpto", (s_ProcessedUpto, d_tlb_ProcessedUpto));
  ("tlb.IhrPendingSince", (s_IhrPendingSince, d_tlb_IhrPendingSince)); ("tlb.SigPubKey", (s_SigPubKey, d_tlb_SigPubKey));
  ("tlb.CryptoSignatureSimple", (s_CryptoSignatureSimple, d_tlb_CryptoSignatureSimple));
  ("tlb.ValidatorDescr", (s_ValidatorDescr, d_tlb_ValidatorDescr)); ("tlb.ValidatorTempKey", (s_ValidatorTempKey, d_tlb_ValidatorTempKey));
  ("tlb.Certificate", (s_Certificate, d_tlb_Certificate)); ("tlb.StoragePrices", (s_StoragePrices, d_tlb_StoragePrices));
  ("tlb.MsgForwardPrices", (s_MsgForwardPrices, d_tlb_MsgForwardPrices)); ("tlb.ParamLimits", (s_ParamLimits, d_tlb_ParamLimits));
  ("tlb.BlockLimits", (s_BlockLimits, d_tlb_BlockLimits)); ("tlb.BlockCreateFees", (s_BlockCreateFees, d_tlb_BlockCreateFees));
  ("tlb.ComplaintPricing", (s_ComplaintPricing, d_tlb_ComplaintPricing)); ("tlb.WorkchainFormat1", (s_WorkchainFormat1, d_tlb_WorkchainFormat1));
  ("tlb.WorkchainFormat0", (s_WorkchainFormat0, d_tlb_WorkchainFormat0)); ("tlb.WcSplitMergeTimings", (s_WcSplitMergeTimings, d_tlb_WcSplitMergeTimings));
  ("tlb.PrecompiledSmc", (s_PrecompiledSmc, d_tlb_PrecompiledSmc)); ("tlb.CatchainConfig", (s_CatchainConfig, d_tlb_CatchainConfig));
  (* configuration parameters, block_info *)
  ("tlb.ConfigParam0", (s_ConfigParamAddr, d_tlb_ConfigParam0));
  ("tlb.ConfigParam1", (s_ConfigParamAddr, d_tlb_ConfigParam1));
  ("tlb.ConfigParam2", (s_ConfigParamAddr, d_tlb_ConfigParam2));
  ("tlb.ConfigParam3", (s_ConfigParamAddr, d_tlb_ConfigParam3));
  ("tlb.ConfigParam4", (s_ConfigParamAddr, d_tlb_ConfigParam4));
  ("tlb.BurningConfig", (s_BurningConfig, d_tlb_BurningConfig));
  ("tlb.ConfigParam5", (s_ConfigParam5, d_tlb_ConfigParam5));
  ("tlb.ConfigParam6", (s_ConfigParam6, d_tlb_ConfigParam6));
  ("tlb.ConfigParam7", (s_ConfigParam7, d_tlb_ConfigParam7));
  ("tlb.ConfigParam8", (s_ConfigParam8, d_tlb_ConfigParam8));
  ("tlb.ConfigProposalSetup", (s_ConfigProposalSetup, d_tlb_ConfigProposalSetup));
  ("tlb.ConfigVotingSetup", (s_ConfigVotingSetup, d_tlb_ConfigVotingSetup));
  ("tlb.ConfigParam11", (s_ConfigParam11, d_tlb_ConfigParam11));
  ("tlb.ConfigProposal", (s_ConfigProposal, d_tlb_ConfigProposal));
  ("tlb.ConfigParam13", (s_ConfigParam13, d_tlb_ConfigParam13));
  ("tlb.ConfigParam14", (s_ConfigParam14, d_tlb_ConfigParam14));
  ("tlb.ConfigParam15", (s_ConfigParam15, d_tlb_ConfigParam15));
  ("tlb.ConfigParam16", (s_ConfigParam16, d_tlb_ConfigParam16));
  ("tlb.ConfigParam17", (s_ConfigParam17, d_tlb_ConfigParam17));
  ("tlb.ConfigParam22", (s_ConfigParamBlockLimits, d_tlb_ConfigParam22));
  ("tlb.ConfigParam23", (s_ConfigParamBlockLimits, d_tlb_ConfigParam23));
  ("tlb.ConfigParam24", (s_ConfigParamFwdPrices, d_tlb_ConfigParam24));
  ("tlb.ConfigParam25", (s_ConfigParamFwdPrices, d_tlb_ConfigParam25));
  ("tlb.ConfigParam28", (s_ConfigParam28, d_tlb_ConfigParam28));
  ("tlb.ConsensusConfig", (s_ConsensusConfig, d_tlb_ConsensusConfig));
  ("tlb.ConfigParam29", (s_ConfigParam29, d_tlb_ConfigParam29));
  ("tlb.MisbehaviourPunishmentConfig", (s_MisbehaviourPunishmentConfig, d_tlb_MisbehaviourPunishmentConfig));
  ("tlb.ConfigParam40", (s_ConfigParam40, d_tlb_ConfigParam40));
  ("tlb.SizeLimitsConfig", (s_SizeLimitsConfig, d_tlb_SizeLimitsConfig));
  ("tlb.ConfigParam43", (s_ConfigParam43, d_tlb_ConfigParam43));
  ("tlb.JettonBridgePrices", (s_JettonBridgePrices, d_tlb_JettonBridgePrices));
  ("tlb.OracleBridgeParams", (s_OracleBridgeParams, d_tlb_OracleBridgeParams));
  ("tlb.PrecompiledContractsConfig", (s_PrecompiledContractsConfig, d_tlb_PrecompiledContractsConfig));
  ("tlb.SuspendedAddressList", (s_SuspendedAddressList, d_tlb_SuspendedAddressList));
  ("tlb.AccountDispatchQueue", (s_AccountDispatchQueue, d_tlb_AccountDispatchQueue));
  ("tlb.BlockInfoPart", (s_BlockInfoPart, d_tlb_BlockInfoPart));
  (* added after round 7: dictionary-valued and bridge parameters, proposal status, implemented prefixes *)
  ("tlb.ConfigParam12", (s_ConfigParam12, d_tlb_ConfigParam12));
  ("tlb.ConfigParam31", (s_ConfigParam31, d_tlb_ConfigParam31));
  ("tlb.ConfigParam44", (s_ConfigParam44, d_tlb_ConfigParam44));
  ("tlb.ConfigParam45", (s_ConfigParam45, d_tlb_ConfigParam45));
  ("tlb.ConfigParam71", (s_ConfigParamOracleBridge, d_tlb_ConfigParam71));
  ("tlb.ConfigParam72", (s_ConfigParamOracleBridge, d_tlb_ConfigParam72));
  ("tlb.ConfigParam73", (s_ConfigParamOracleBridge, d_tlb_ConfigParam73));
  ("tlb.JettonBridgeParams", (s_JettonBridgeParams, d_tlb_JettonBridgeParams));
  ("tlb.ConfigParam79", (s_ConfigParamJettonBridge, d_tlb_ConfigParam79));
  ("tlb.ConfigParam81", (s_ConfigParamJettonBridge, d_tlb_ConfigParam81));
  ("tlb.ConfigParam82", (s_ConfigParamJettonBridge, d_tlb_ConfigParam82));
  ("tlb.ConfigProposalStatus", (s_ConfigProposalStatus, d_tlb_ConfigProposalStatus));
  ("tlb.CryptoSignatureSimpleData", (s_CryptoSignatureSimpleData, d_tlb_CryptoSignatureSimpleData));
  ("tlb.ValidatorSetsCommon", (s_ValidatorSetsCommon, d_tlb_ValidatorSetsCommon));
  ("tlb.VmCellSlice", (s_VmCellSlice, d_tlb_VmCellSlice));
  ("tlb.WorkchainDescr", (s_WorkchainDescr_prefix, d_tlb_WorkchainDescr));
  ("tlb.ShardDesc", (s_ShardDescr_prefix, d_tlb_ShardDesc))].

Theorem C04_gen_more_types_refine_block_tlb :
  forallb (fun p => ok (fst (snd p)) (snd (snd p))) more_obligations = true.
Proof. vm_compute. reflexivity. Qed.

(* persistent data of the wallet contracts (the data cell of their state-init) *)
Theorem C04_gen_wallet_data_refine :
  forallb (fun p => ok (fst p) (snd p))
    [(s_WalletDataV1V2, d_wallet_DataV1V2); (s_WalletDataV3, d_wallet_DataV3); (s_WalletDataV4, d_wallet_DataV4);
     (s_WalletDataHighloadV2, d_wallet_DataHighloadV2); (s_WalletDataV5R1, d_wallet_DataV5R1)] = true.
Proof. vm_compute. reflexivity. Qed.

(* the key of the suspended-address dictionary: the workchain is a 32-bit two's complement field
   (a negative workchain is sign-extended: -1 is FFFFFFFF) *)
Theorem C04_gen_address_key_refines : ok s_AddressWithWorkchain d_tlb_AddressWithWorkchain = true.
Proof. vm_compute. reflexivity. Qed.

(** Where a symmetric edit (swapped fields, changed width or tag on both sides) would be
    invisible: the struct / union types of package tlb that have a descriptor but NO schema
    obligation.  The list is printed on every run and may not grow silently. *)
Definition first_obligations : list string :=
  ["tlb.MsgAddress"; "tlb.Grams"; "tlb.VarUInteger16"; "tlb.ExtraCurrencyCollection"; "tlb.CurrencyCollection";
   "tlb.CommonMsgInfo"; "tlb.TickTock"; "tlb.SimpleLib"; "tlb.StateInit"; "tlb.Message"; "tlb.AccountStatus";
   "tlb.AccStatusChange"; "tlb.ComputeSkipReason"; "tlb.HashUpdate"; "tlb.StorageUsed"; "tlb.TrStoragePhase";
   "tlb.TrCreditPhase"; "tlb.TrComputePhase"; "tlb.TrActionPhase"; "tlb.TrBouncePhase"; "tlb.SplitMergeInfo";
   "tlb.TransactionDescr"; "tlb.Transaction"; "wallet.SignedMsgBody"].
Definition with_obligation : list string := "tlb.AddressWithWorkchain" :: first_obligations ++ map fst more_obligations.

Definition is_compound (d : ty) : bool := match d with TStruct (_ :: _) | TSum _ => true | _ => false end.
Definition in_tlb_package (nm : string) : bool := String.prefix "tlb." nm.

Definition without_obligation : list string :=
  map fst (filter (fun p => in_tlb_package (fst p) && is_compound (snd p)
                            && negb (existsb (String.eqb (fst p)) with_obligation)) tlb_types).

Theorem C04_gen_unpinned_types_bounded : Nat.leb (List.length without_obligation) 16 = true.
Proof. vm_compute. reflexivity. Qed.

Eval vm_compute in ("tlb struct/union types with a descriptor but no block.tlb obligation yet", without_obligation).

(* the checker discriminates: swapped fields, a wrong width, a wrong tag and a
   missing reference are all rejected *)
Theorem C04_gen_checker_rejects :
  ok s_TickTock (TStruct [TBool]) = false /\
  ok s_HashUpdate (TStruct [TMagic 8 0x73; TBits 256; TBits 256]) = false /\
  ok s_SplitMergeInfo (TStruct [TUint 6; TUint 5; TBits 256; TBits 256]) = false /\
  ok s_SimpleLib (TStruct [TCellRef; TBool]) = false /\
  ok (SMaybe (SRef s_Message)) (TMaybe d_tlb_Message) = false.
Proof. vm_compute. repeat split. Qed.
