(** C18 — generated Merkle proofs commit to the original tree and reveal the
    value.  Statements only.  [H] is any hash function with 32-byte output.
    Source trees: [prunable_tree] = ordinary and library cells and pruned
    branches of any level mask (the body of an earlier proof being narrowed);
    no Merkle cell (pruneCells refuses those with an error). *)
From Coq Require Import List NArith Arith Bool.
From Tongo Require Import Lib.Bits Lib.Res Spec.Sha256 Model.BocParse Model.CellHash Spec.ReprHash
  Model.Merkle Proofs.MerkleP Proofs.C18History.
Import ListNotations.

Section C18.
Variable H : bytes -> bytes.
Hypothesis H_len : forall x, length (H x) = 32%nat.
Hypothesis H_bytes : forall x, byte_list (H x).

(** The pruned tree has, at level zero, exactly the hash and depth of the
    original tree — for every tree without Merkle cells (pruned branches of the
    source, of any level mask, are leaves) and every set of pruned positions. *)
Theorem C18_prune_preserves_level0 :
  forall c pruned path c',
  prunable_tree c -> prune H pruned path c = Ok c' -> hd_at H c' 0 = hd_at H c 0.
Proof. exact (prune_level0 H H_len H_bytes). Qed.

(** Every pruned-branch cell is 01 01 | hash_0 | depth_0 of the subtree it replaces. *)
Theorem C18_pruned_branch_stores :
  forall special ty m data refs pruned path c',
  is_merkle special ty = false -> pruned path = true ->
  prune H pruned path (Cell special ty m data refs) = Ok c' ->
  exists h d, hd_at H (Cell special ty m data refs) 0 = Ok (h, d) /\ c' = pruned_cell h d.
Proof. exact (pruned_branch_stores H). Qed.

(** The proof root is a Merkle-proof cell (type 3, level 0) carrying the hash
    and depth of the original root, and its child has that level-0 hash/depth. *)
Theorem C18_proof_commits :
  forall root pruned p,
  prunable_tree root -> create_proof H pruned root = Ok p ->
  exists h d body,
    hd_at H root 0 = Ok (h, d) /\
    p = Cell true T_MPROOF 0 (bits_of 8 3 ++ bytes_to_bits h ++ bits_of 16 d) [body] /\
    hd_at H body 0 = Ok (h, d).
Proof. exact (proof_commits H H_len H_bytes). Qed.

(** The cell at any position none of whose ancestors (nor itself) is pruned
    keeps its data bits and reference count: the value leaf of the proven key
    can be decoded from the proof. *)
Theorem C18_unpruned_path_keeps_data :
  forall sub c pruned path c' x,
  prune H pruned path c = Ok c' ->
  (forall k, (k <= length sub)%nat -> pruned (path ++ firstn k sub) = false) ->
  subcell c sub = Some x ->
  exists x', subcell c' sub = Some x' /\ cell_bits x' = cell_bits x /\
             length (cell_refs x') = length (cell_refs x).
Proof. exact (unpruned_path_keeps_data H). Qed.

(** Trees of ordinary/library cells only (the class of the first version of
    these theorems) are prunable trees. *)
Theorem C18_ordinary_trees_covered : forall c, plain_tree c -> prunable_tree c.
Proof. exact plain_prunable. Qed.

(** The level-0 answer a pruned branch of this prover stores is always a
    32-byte hash and a 16-bit depth, whatever cell it replaces (for a pruned
    branch of the source: the hash and depth IT stores for level 0). *)
Theorem C18_level0_answer_shape :
  forall c h d, hd_at H c 0 = Ok (h, d) -> length h = 32%nat /\ byte_list h /\ (d < 65536)%N.
Proof. exact (hd_at0_shape H H_len H_bytes). Qed.

(** A proof is produced only when the labels and branch bits along the walk
    spell exactly the requested key: asking for an absent key is an error. *)
Theorem C18_proof_only_for_spelled_key :
  forall root key vbits p,
  prove_key H root key vbits = Ok p ->
  exists pruned leaf rest prefix,
    prove_walk (S (length key)) root key (length key) (length key) [] [] [] = Ok (pruned, leaf, rest, prefix) /\
    bits_eqb (firstn (length key) prefix) key = true.
Proof.
  intros root key vbits p Hp. unfold prove_key in Hp.
  destruct (prove_walk _ _ _ _ _ _ _ _) as [[[[pruned leaf] rest] prefix]|?|?]; cbn [bind] in Hp; try discriminate.
  exists pruned, leaf, rest, prefix. split; [reflexivity|].
  destruct (short vbits rest); [discriminate|].
  destruct (short (length key) prefix); [discriminate|].
  destruct (bits_eqb (firstn (length key) prefix) key); [reflexivity|discriminate].
Qed.

(** The proof for a key contains the leaf of that key with its data bits: the
    dictionary cell [x] at the end of the walk (an ordinary cell whose label
    ends the key and whose remaining bits [rest] hold the value) is at the same
    position of the proof body with the same bits — every position the walk
    prunes is a sibling at a fork of that path. *)
Theorem C18_key_proof_reveals :
  forall root key vbits p,
  prove_key H root key vbits = Ok p ->
  exists data body leaf x x' m lab rest,
    p = Cell true T_MPROOF 0 data [body] /\
    subcell root leaf = Some x /\ cell_special x = false /\
    load_label m (cell_bits x) = Some (lab, rest) /\ short vbits rest = false /\
    subcell body leaf = Some x' /\ cell_bits x' = cell_bits x.
Proof. exact (key_proof_reveals H). Qed.

(** History independence: for every sequence of operations on ONE prover
    (proofs for keys, failing attempts, cursor walks kept or abandoned) the
    result of the i-th operation is the result of that operation alone on a
    fresh prover.  Immediate in the model, because the model of the prover has
    no state besides the root (a cursor owns its pruned set); the content is
    the correspondence: the Go side runs the whole history on one
    *boc.MerkleProver and every result is compared with [run_op]. *)
Theorem C18_history_independent :
  forall same root before o after,
  nth_error (prover_run H same root (before ++ o :: after)) (length before) = Some (run_op H same root o) /\
  prover_run H same root [o] = [run_op H same root o].
Proof. exact (history_independent H). Qed.
End C18.

(** The requirement is not vacuous: a prover that owns the pruned set and
    shares it between cursors gives a right first proof and a wrong second one. *)
Theorem C18_shared_pruned_set_refuted :
  pruned_at (nth_error (prover_run sha256 path_eqb wit_root wit_ops) 1) [1%nat] = Some false /\
  pruned_at (nth_error (shared_run sha256 wit_root [] wit_ops) 1) [1%nat] = Some true /\
  nth_error (shared_run sha256 wit_root [] wit_ops) 1 <>
  nth_error (map (run_op sha256 path_eqb wit_root) wit_ops) 1.
Proof. exact shared_pruned_set_refuted. Qed.

(** History independence extends to INTERLEAVINGS of concurrent calls on one
    prover: CreateProof split into its two steps (build the pruned tree and
    attach it to a Merkle-proof header cell; serialise that cell), any number of
    calls, any schedule of their steps — a call emits the proof of its own
    prune set.  The reason is that a prover is read-only after construction and
    the header belongs to the call; the model has no prover state at all, so
    the statement is immediate there and its content is the run: K goroutines
    on ONE *boc.MerkleProver, every result compared with the operation alone
    (kind c18.conc; the model of that kind is [run_multi], schedule-free). *)
Theorem C18_interleaving_independent :
  forall (H : bytes -> bytes) root (ops : nat -> list (list nat)) sched t r,
  In (t, Some r) (crun H root ops false (mkC (fun _ => None) None) sched) ->
  r = create_proof H (in_paths (ops t)) root.
Proof. exact interleaving_independent. Qed.

(** Not vacuous: with ONE header cell owned by the prover and shared by the
    calls, the schedule Attach 0; Attach 1; Emit 0 makes call 0 return call
    1's proof (still committing to the root, revealing the wrong subtree),
    while every sequential schedule is right. *)
Theorem C18_shared_header_refuted :
  let racy := [Attach 0; Attach 1; Emit 0; Emit 1] in
  let seq := [Attach 0; Emit 0; Attach 1; Emit 1] in
  let s0 := mkC (fun _ => None) None in
  emitted_pruned_at (crun sha256 wit_root wit_calls false s0 racy) 0 [1%nat] = Some true /\
  emitted_pruned_at (crun sha256 wit_root wit_calls false s0 racy) 0 [0%nat] = Some false /\
  emitted_pruned_at (crun sha256 wit_root wit_calls true s0 racy) 0 [1%nat] = Some false /\
  emitted_pruned_at (crun sha256 wit_root wit_calls true s0 racy) 0 [0%nat] = Some true /\
  crun sha256 wit_root wit_calls true s0 seq = crun sha256 wit_root wit_calls false s0 seq /\
  ~ (forall t r, In (t, Some r) (crun sha256 wit_root wit_calls true s0 racy) ->
                 r = proof_of sha256 wit_root wit_calls t).
Proof. exact shared_header_refuted. Qed.

(** Pruning is by POSITION: a position none of whose prefixes is pruned keeps
    its data even when a cell of exactly the same content ([x] again, at
    position [q]) IS pruned elsewhere — equal subtrees of a dictionary (a set
    with a constant value, mirrored keys) are such positions, whether they are
    distinct cells (tree built in memory) or one shared cell (tree from a BOC).
    This is an instance of C18_unpruned_path_keeps_data; it is stated because
    the Go code once pruned by cell identity, which violates it for shared cells
    (repaired), and a pruned set keyed by hash violates it for all (refuted
    below). *)
Theorem C18_equal_content_elsewhere_not_pruned :
  forall (H : bytes -> bytes) c pruned c' p q x,
  prune H pruned [] c = Ok c' ->
  subcell c p = Some x -> subcell c q = Some x -> pruned q = true ->
  (forall k, (k <= length p)%nat -> pruned (firstn k p) = false) ->
  exists x', subcell c' p = Some x' /\ cell_bits x' = cell_bits x.
Proof.
  intros H c pruned c' p q x Hpr Hp _ _ Hnp.
  destruct (unpruned_path_keeps_data H p c pruned [] c' x Hpr Hnp Hp) as (x' & A & B & _).
  exists x'. split; assumption.
Qed.

Theorem C18_content_keyed_prune_refuted :
  pruned_at (Some (Some (prove_key sha256 twin_dict [true] 32))) [0%nat] = Some true /\
  pruned_at (Some (Some (prove_key sha256 twin_dict [true] 32))) [1%nat] = Some false /\
  pruned_at (Some (Some (prove_key_by_content twin_dict [true]))) [1%nat] = Some true.
Proof. exact content_keyed_prune_refuted. Qed.

(** Cursors are values: in any program over cursor variables (children taken
    first and used later, breadth-first walks, cursors kept while their
    siblings are created, Ref after Prune on another cursor) a Prune on
    variable [v] prunes the position [v] got when it was created.  The proof a
    program yields is, by definition of the model, the proof of the walk
    pruning [prog_prunes]; the correspondence runs such programs on the Go
    cursors (operation 'prog of c18.multi). *)
Theorem C18_cursor_position_fixed :
  forall pre vars pruned v p post,
  nth_error vars v = Some p ->
  In p (prog_run vars pruned (pre ++ IPrune v :: post)).
Proof. exact cursor_position_fixed. Qed.

(** Not vacuous: positions kept in a Go byte slice extended with append —
    p := c.Ref(0); l := p.Ref(0); r := p.Ref(1); l.Prune() prunes 0/1 instead
    of 0/0, while a depth-first use is right. *)
Theorem C18_appended_slice_position_refuted :
  prog_prunes sibling_prog = [[0%nat; 0%nat]] /\
  alias_run [] [mkS None 0] [] sibling_prog = [[0%nat; 1%nat]] /\
  alias_run [] [mkS None 0] [] [IRef 0 0; IRef 1 0; IPrune 2; IRef 1 1] =
  prog_prunes [IRef 0 0; IRef 1 0; IPrune 2; IRef 1 1].
Proof. exact appended_slice_position_refuted. Qed.

(** Depth: positions are lists of reference indices of any length and no
    theorem above bounds the depth of the tree, the number of forks on a key's
    path ([C18_key_proof_reveals] holds for every key length) or the length of
    a cursor program.  A position kept in a fixed-width word is refuted: two
    bits per step in 64 bits lose the marker after 31 steps and return an
    ancestor of the proven key's leaf (combs of 33+ entries). *)
Theorem C18_packed_position_refuted :
  unpack64 (pack64 (repeat 1%nat 31)) = repeat 1%nat 31 /\
  unpack64 (pack64 (repeat 1%nat 33)) = repeat 1%nat 31 /\
  is_prefix (unpack64 (pack64 (repeat 1%nat 33))) (repeat 1%nat 32 ++ [0%nat]) = true /\
  unpack64 (pack64 (repeat 0%nat 32)) = [].
Proof. exact packed_position_refuted. Qed.

Print Assumptions C18_interleaving_independent.
Print Assumptions C18_key_proof_reveals.
Print Assumptions C18_prune_preserves_level0.
Print Assumptions C18_proof_commits.

(** Non-vacuity with SHA-256 on a concrete tree. *)
Example C18_premises_satisfiable :
  let leaf1 := Cell false 0 0 [true; false] [] in
  let leaf2 := Cell false 0 0 [false; true; true] [] in
  let root := Cell false 0 0 [true] [leaf1; leaf2] in
  plain_tree root /\
  exists p, create_proof sha256 (fun path => match path with [1%nat] => true | _ => false end) root = Ok p.
Proof. cbn zeta. split; [cbn; repeat split|]. vm_compute. eexists. reflexivity. Qed.

(** Non-vacuity for a source that already contains a pruned branch: the body of
    the proof above is narrowed further by pruning its root's other child and,
    alternatively, the whole root (an ancestor of the pruned branch). *)
Example C18_premises_satisfiable_narrowing :
  let leaf1 := Cell false 0 0 [true; false] [] in
  let leaf2 := Cell false 0 0 [false; true; true] [] in
  let root := Cell false 0 0 [true] [leaf1; leaf2] in
  exists body p2 p3,
    prune sha256 (fun path => match path with [1%nat] => true | _ => false end) [] root = Ok body /\
    prunable_tree body /\ ~ plain_tree body /\
    create_proof sha256 (fun path => match path with [0%nat] => true | _ => false end) body = Ok p2 /\
    create_proof sha256 (fun path => match path with [] => true | _ => false end) body = Ok p3 /\
    hd_at sha256 body 0 = hd_at sha256 root 0.
Proof.
  cbn zeta. eexists. eexists. eexists.
  split; [vm_compute; reflexivity|].
  split; [cbn; repeat split; intros; try discriminate; reflexivity|].
  split; [cbn; intros (_ & _ & ((E & _) & _) & _); discriminate E|].
  split; [vm_compute; reflexivity|]. split; [vm_compute; reflexivity|].
  vm_compute. reflexivity.
Qed.
