(** C18 — generated Merkle proofs commit to the original tree and reveal the
    value.  Statements only.  [H] is any hash function with 32-byte output. *)
From Coq Require Import List NArith Arith Bool.
From Tongo Require Import Lib.Bits Lib.Res Spec.Sha256 Model.BocParse Model.CellHash Spec.ReprHash
  Model.Merkle Proofs.MerkleP.
Import ListNotations.

Section C18.
Variable H : bytes -> bytes.
Hypothesis H_len : forall x, length (H x) = 32%nat.
Hypothesis H_bytes : forall x, byte_list (H x).

(** The pruned tree has, at level zero, exactly the hash and depth of the
    original tree — for every tree without pruned/Merkle cells and every set of
    pruned positions. *)
Theorem C18_prune_preserves_level0 :
  forall c pruned path c',
  plain_tree c -> prune H pruned path c = Ok c' -> hd_at H c' 0 = hd_at H c 0.
Proof. exact (prune_level0 H H_len H_bytes). Qed.

(** Every pruned-branch cell is 01 01 | hash_0 | depth_0 of the subtree it replaces. *)
Theorem C18_pruned_branch_stores :
  forall special ty m data refs pruned path c',
  is_merkle special ty = false -> pruned path = true ->
  prune H pruned path (Cell special ty m data refs) = Ok c' ->
  exists h d, hd_at H (Cell special ty m data refs) 0 = Ok (h, d) /\ c' = pruned_cell h d.
Proof. exact (pruned_branch_stores H). Qed.

(** The proof root is a Merkle-proof cell (type 3, level 0) carrying the hash
    and depth of the original root, and its child has that level-0 hash/depth. *)
Theorem C18_proof_commits :
  forall root pruned p,
  plain_tree root -> create_proof H pruned root = Ok p ->
  exists h d body,
    hd_at H root 0 = Ok (h, d) /\
    p = Cell true T_MPROOF 0 (bits_of 8 3 ++ bytes_to_bits h ++ bits_of 16 d) [body] /\
    hd_at H body 0 = Ok (h, d).
Proof. exact (proof_commits H H_len H_bytes). Qed.

(** The cell at any position none of whose ancestors (nor itself) is pruned
    keeps its data bits and reference count: the value leaf of the proven key
    can be decoded from the proof. *)
Theorem C18_unpruned_path_keeps_data :
  forall sub c pruned path c' x,
  prune H pruned path c = Ok c' ->
  (forall k, (k <= length sub)%nat -> pruned (path ++ firstn k sub) = false) ->
  subcell c sub = Some x ->
  exists x', subcell c' sub = Some x' /\ cell_bits x' = cell_bits x /\
             length (cell_refs x') = length (cell_refs x).
Proof. exact (unpruned_path_keeps_data H). Qed.

(** A proof is produced only when the labels and branch bits along the walk
    spell exactly the requested key: asking for an absent key is an error. *)
Theorem C18_proof_only_for_spelled_key :
  forall root key vbits p,
  prove_key H root key vbits = Ok p ->
  exists pruned leaf rest prefix,
    prove_walk (S (length key)) root key (length key) (length key) [] [] [] = Ok (pruned, leaf, rest, prefix) /\
    bits_eqb (firstn (length key) prefix) key = true.
Proof.
  intros root key vbits p Hp. unfold prove_key in Hp.
  destruct (prove_walk _ _ _ _ _ _ _ _) as [[[[pruned leaf] rest] prefix]|?|?]; cbn [bind] in Hp; try discriminate.
  exists pruned, leaf, rest, prefix. split; [reflexivity|].
  destruct (short vbits rest); [discriminate|].
  destruct (short (length key) prefix); [discriminate|].
  destruct (bits_eqb (firstn (length key) prefix) key); [reflexivity|discriminate].
Qed.
End C18.
Print Assumptions C18_prune_preserves_level0.
Print Assumptions C18_proof_commits.

(** Non-vacuity with SHA-256 on a concrete tree. *)
Example C18_premises_satisfiable :
  let leaf1 := Cell false 0 0 [true; false] [] in
  let leaf2 := Cell false 0 0 [false; true; true] [] in
  let root := Cell false 0 0 [true] [leaf1; leaf2] in
  plain_tree root /\
  exists p, create_proof sha256 (fun path => match path with [1%nat] => true | _ => false end) root = Ok p.
Proof. cbn zeta. split; [cbn; repeat split|]. vm_compute. eexists. reflexivity. Qed.
