(** C13 obligations over data translated from /repo's current source
    (Generated/PoolLocks.v is rewritten by harness/cmd/translate genC13 on every run):
    the locking structure of liteapi/pool that the LTS of Model/PoolWait.v assumes.

    The model treats every critical section on p.mu (and c.mu) as free of lock
    acquisitions of the same lock (Proofs/PoolWaitP.v no_reacquire; the deadlock of a
    section that re-acquires it: Proofs/PoolMutants.v) and of blocking channel
    operations (the deadlocks of sections that send: Proofs/PoolHistory.v).  These are
    syntactic facts about the source, re-checked here. *)
From Coq Require Import String List NArith Bool.
From Tongo Require Import Generated.PoolLocks.
Import ListNotations.
Local Open Scope string_scope.

Definition facts_of (t : string) : list lock_fact :=
  filter (fun f => String.eqb (lf_type f) t) pool_lock_facts.

Definition find_fact (t n : string) : option lock_fact :=
  find (fun f => String.eqb (lf_name f) n) (facts_of t).

(** does calling method [n] of receiver type [t] acquire the receiver's lock, directly or
    through same-receiver callees?  (fuel = number of methods: enough for any call chain
    without repetition; an unknown method counts as acquiring) *)
Fixpoint acquires (fuel : nat) (t n : string) : bool :=
  match fuel with
  | O => true
  | S k =>
      match find_fact t n with
      | None => true
      | Some f => negb (N.eqb (lf_kind f) 0) || existsb (acquires k t) (lf_calls f)
      end
  end.

Definition fuel0 : nat := S (List.length pool_lock_facts).

(** no method calls, while it holds the lock of its receiver, a method of the same
    receiver that (transitively) takes that lock: with Go's writer-preferring RWMutex
    even RLock inside RLock deadlocks once a writer announces itself in between *)
Definition no_reacquisition : bool :=
  forallb (fun f => forallb (fun c => negb (acquires fuel0 (lf_type f) c)) (lf_calls_held f))
          pool_lock_facts.

Theorem C13_gen_no_reacquisition : no_reacquisition = true.
Proof. vm_compute. reflexivity. Qed.

(** the lock each modelled operation takes is the one the LTS gives it:
    writers = subscribe, unsubscribe, updateBest (and addConnection, Status);
    readers = notifySubscribers, bestConnection, ConnectionsNumber;
    connection: SetMasterHead writes, MasterHead reads *)
Definition kind_of (t n : string) : option N := option_map lf_kind (find_fact t n).

Theorem C13_gen_lock_kinds :
  kind_of "ConnPool" "subscribe" = Some 2%N /\ kind_of "ConnPool" "unsubscribe" = Some 2%N /\
  kind_of "ConnPool" "updateBest" = Some 2%N /\ kind_of "ConnPool" "notifySubscribers" = Some 1%N /\
  kind_of "ConnPool" "bestConnection" = Some 1%N /\ kind_of "ConnPool" "ConnectionsNumber" = Some 1%N /\
  kind_of "ConnPool" "addConnection" = Some 2%N /\ kind_of "ConnPool" "Status" = Some 2%N /\
  kind_of "connection" "SetMasterHead" = Some 2%N /\ kind_of "connection" "MasterHead" = Some 1%N /\
  kind_of "ConnPool" "WaitMasterchainSeqno" = Some 0%N /\ kind_of "ConnPool" "Run" = Some 0%N.
Proof. vm_compute. repeat split; reflexivity. Qed.

(** the waiter's protocol is the one modelled: WaitMasterchainSeqno and
    BestMasterchainClient go through subscribe and unsubscribe, Run through updateBest
    and notifySubscribers, each from outside the lock *)
Definition calls_of (t n : string) : list string :=
  match find_fact t n with Some f => lf_calls f | None => [] end.

Theorem C13_gen_protocol_calls :
  calls_of "ConnPool" "WaitMasterchainSeqno" = ["subscribe"; "unsubscribe"] /\
  calls_of "ConnPool" "Run" = ["updateBest"; "notifySubscribers"] /\
  calls_of "ConnPool" "BestMasterchainClient" = ["bestConnection"; "subscribe"; "unsubscribe"].
Proof. vm_compute. repeat split; reflexivity. Qed.

(** no blocking channel send while a lock is held, except subscribe's send of the
    current head into the channel it has just made (capacity 1, not yet shared):
    notifySubscribers sends through non-blocking selects, SetMasterHead after the unlock *)
Definition sends_under_lock : list (string * string * N) :=
  map (fun f => (lf_type f, lf_name f, lf_sends_held f))
      (filter (fun f => negb (N.eqb (lf_sends_held f) 0)) pool_lock_facts).

Theorem C13_gen_sends_under_lock : sends_under_lock = [("ConnPool", "subscribe", 1%N)].
Proof. vm_compute. reflexivity. Qed.

(** every method that takes a lock releases it on every path: the Lock/RLock statement is
    followed at once by the matching deferred unlock (no early return in between); the one
    exception is connection.SetMasterHead, which unlocks explicitly before its two exits so
    that it can publish outside the lock (Proofs/PoolHistory.v) *)
Definition locks_without_adjacent_defer : list (string * string) :=
  map (fun f => (lf_type f, lf_name f))
      (filter (fun f => negb (N.eqb (lf_kind f) 0) && negb (lf_defer_next f)) pool_lock_facts).

Theorem C13_gen_lock_released_on_every_path :
  locks_without_adjacent_defer = [("connection", "SetMasterHead")].
Proof. vm_compute. reflexivity. Qed.
