(** C01 — two designs of the serialiser refuted with witnesses (round 4).
    Statements only; proofs in Proofs/BocSerHistory4.v.

    The positive statements are in C01_serialize.v: C01_serialize_succeeds
    (every well-formed DAG of depth <= 1024 serialises — in particular DAGs of
    densely filled cells: the capacity (1023 + 224) * cellCount is never
    exceeded with up to 8 roots) and C01_boc_roundtrip_model / C01_stored_once
    (round trip and "stored once" when the de-duplication key is
    [collision_free]: equal keys only for equal trees).  The run ties the code to
    the model on the families 'dense' (full cells: snakes, ladders, heaps) and
    'views' (bundles of differently pruned copies of one tree). *)
From Coq Require Import List NArith ZArith Arith Bool.
From Tongo Require Import Lib.Bits Lib.Res Spec.Sha256 Model.BocParse Model.CellHash Model.BocSer
  Proofs.BocParseP Proofs.BocSerLayoutP5 Proofs.BocSerHistory Proofs.BocSerHistory4.
Import ListNotations.

(** 1. An output buffer of 1023 bits per cell plus one header (224 bits) is too
    small: the code's model serialises a ladder of four full cells to 4352 bits
    (> 4316) and a snake of nine 127-byte cells to 9448 bits, 9592 with index
    (> 9431); the code's capacity (1247 bits per cell) covers both. *)
Theorem C01_tight_capacity_refuted :
  out_bits (serialize wit_ladder wit_ladder_hashes [0] false false false) = Some 4352%N /\
  (4352 > tight_capacity 4)%N /\
  out_bits (serialize wit_snake wit_snake_hashes [0] false false false) = Some 9448%N /\
  (9448 > tight_capacity 9)%N /\
  out_bits (serialize wit_snake wit_snake_hashes [0] true false false) = Some 9592%N /\
  (4352 <= N.of_nat ((1023 + 32 * 4 + 32 * 3) * 4))%N /\ (9592 <= N.of_nat ((1023 + 32 * 4 + 32 * 3) * 9))%N.
Proof. exact tight_capacity_refuted. Qed.

(** 2. De-duplication keyed by the first computed hash of a cell (the hash of
    the original, unpruned cell for an ordinary cell above a pruned branch)
    instead of the representation hash: two Merkle proofs of one three-cell
    tree revealing different leaves, in one container.  The two views have the
    same key and different representation hashes; the code's model stores nine
    cells and round-trips; the first-hash design stores six and its bytes parse
    to a different tree. *)
Theorem C01_first_hash_key_refuted :
  nth_error (first_hash_keys wit_views) 2 = nth_error (first_hash_keys wit_views) 4 /\
  nth_error (first_hash_keys wit_views) 2 = Some (Ok (orig_hash 0)) /\
  nth_error (hashes_sha wit_views) 2 <> nth_error (hashes_sha wit_views) 4 /\
  parsed_count views_code = Some 9 /\
  parsed_root_tree views_code = unfold_at 9 wit_views 0 /\
  parsed_count views_first_hash = Some 6 /\
  parsed_root_tree views_first_hash <> unfold_at 9 wit_views 0 /\
  parsed_root_tree views_first_hash <> None.
Proof. exact first_hash_key_refuted. Qed.

(** it is exactly the hypothesis [collision_free] of the round-trip theorem that
    this key violates (for the representation hash it holds up to SHA-256
    collisions) *)
Theorem C01_first_hash_key_not_collision_free :
  ~ collision_free wit_views (first_hash_keys wit_views) [0].
Proof. exact first_hash_key_not_collision_free. Qed.
Print Assumptions C01_first_hash_key_not_collision_free.
