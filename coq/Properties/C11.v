(** C11 — ADNL transport frames and handshake interoperate and detect
    corruption.  Statements only.

    [H] is any hash with 32-byte output (SHA-256), a stream cipher is any
    deterministic keystream generator ([cstate], [next], [init key iv] =
    AES-CTR), [dh]/[pub] any key agreement with dh a (pub b) = dh b (pub a)
    (X25519 on Ed25519 keys).  The client is Model/AdnlT.v (liteclient), the
    server is Spec/AdnlSpec.v (written from the protocol).  A reader is the
    list of TCP segments the connection will deliver. *)
From Coq Require Import List NArith Bool.
From Tongo Require Import Lib.Bits Spec.AdnlSpec Model.AdnlT
  Proofs.AdnlTP Proofs.AdnlTP2 Proofs.AdnlTP3 Proofs.AdnlTP4 Proofs.AdnlTP5 Proofs.AdnlTP6 Proofs.AdnlHistory.
Import ListNotations.
Local Open Scope N_scope.

Section C11.
Variable H : list N -> list N.
Variable cstate : Type.
Variable next : cstate -> N * cstate.
Variable init : list N -> list N -> cstate.
Variable dh : list N -> list N -> list N.
Variable pub : list N -> list N.
Hypothesis H_len : forall x, length (H x) = 32%nat.
Hypothesis dh_agree : forall a b, dh a (pub b) = dh b (pub a).
Hypothesis dh_len : forall a b, length (dh a b) = 32%nat.
Hypothesis pub_len : forall a, length (pub a) = 32%nat.

Notation xor_stream := (xor_stream cstate next).
Notation parse_packet := (parse_packet H cstate next).
Notation recv_loop := (recv_loop H cstate next).
Notation recv_all := (recv_all H cstate next).

(** Handshake: for every client key, server key and 160 parameter bytes the
    specification server accepts the 256 bytes the client writes, recovers the
    parameters exactly, and its tx / rx streams are the client's rx / tx ones. *)
Theorem C11_handshake_agrees :
  forall cpriv spriv params,
  length params = 160%nat ->
  server_accept H cstate next init dh spriv (pub spriv)
    (handshake_bytes H cstate next init (pub spriv) params (pub cpriv) (dh cpriv (pub spriv)))
  = Some {| sv_params := params;
            sv_tx := client_rx0 cstate init params;
            sv_rx := client_tx0 cstate init params |}.
Proof. exact (handshake_agrees H cstate next init dh pub H_len dh_agree pub_len). Qed.

(** Stream round trip (either direction, the frame format is symmetric): for
    every list of packets (nonce 32 bytes, payload 0 .. 8 MiB - 64), encrypted
    as ONE running stream from state [s], and EVERY segmentation [segs] of the
    ciphertext followed by anything ([rest]), the receive loop started in the
    same state delivers exactly the payloads in order and then continues on
    [rest] in exactly the sender's final state (keystream positions aligned
    after every packet: take any prefix of the list). *)
Theorem C11_stream_roundtrip :
  forall msgs fuel segs s ct s' rest,
  Forall wf_msg msgs ->
  xor_stream s (frames_plain H msgs) = (ct, s') ->
  concat segs = ct ++ rest ->
  exists r', concat r' = rest /\
    recv_loop (length msgs + fuel) segs s =
    (let '(ps, e) := recv_loop fuel r' s' in (map snd msgs ++ ps, e)).
Proof. exact (recv_loop_frames H cstate next H_len). Qed.

(** what the client's Send sequence writes is that stream *)
Theorem C11_send_all_is_stream :
  forall msgs s, Forall wf_msg msgs ->
  send_all H cstate next s msgs = xor_stream s (frames_plain H msgs).
Proof. exact (send_all_plain H cstate next H_len). Qed.

(** Packet.marshal is the protocol frame *)
Theorem C11_marshal_is_frame :
  forall nonce payload,
  length nonce = 32%nat -> len payload + 64 < 4294967296 ->
  marshal H nonce payload = frame H nonce payload.
Proof. exact (marshal_frame H H_len). Qed.

(** client -> server: the specification server receives exactly the packets *)
Theorem C11_server_receives :
  forall sv msgs ct s',
  Forall wf_msg msgs ->
  send_all H cstate next (sv_rx cstate sv) msgs = (ct, s') ->
  server_recv H cstate next sv ct =
  (msgs, SDone, {| sv_params := sv_params cstate sv; sv_tx := sv_tx cstate sv; sv_rx := s' |}).
Proof. exact (server_receives H cstate next H_len). Qed.

(** server -> client under every segmentation of the server's bytes *)
Theorem C11_client_receives :
  forall sv msgs ct sv' segs,
  Forall wf_msg msgs ->
  server_send_all H cstate next sv msgs = (ct, sv') ->
  concat segs = ct ->
  recv_all segs (sv_tx cstate sv) = (map snd msgs, PEof).
Proof. exact (client_receives H cstate next H_len). Qed.

(** The whole session: handshake accepted, the server's reply consumed, every
    payload of both directions delivered in order and intact. *)
Theorem C11_session_agrees :
  forall cpriv spriv params reply s2c c2s sbytes sv' incoming,
  length params = 160%nat ->
  Forall wf_msg (reply :: s2c) -> Forall wf_msg c2s ->
  let spub := pub spriv in
  let sv := {| sv_params := params;
               sv_tx := client_rx0 cstate init params;
               sv_rx := client_tx0 cstate init params |} in
  server_send_all H cstate next sv (reply :: s2c) = (sbytes, sv') ->
  concat incoming = sbytes ->
  let run := client_session H cstate next init spub params (pub cpriv) (dh cpriv spub) c2s incoming in
  server_accept H cstate next init dh spriv spub (cr_handshake run) = Some sv /\
  cr_connected run = true /\
  cr_delivered run = map snd s2c /\ cr_end run = PEof /\
  fst (fst (server_recv H cstate next sv (cr_sent run))) = c2s /\
  snd (fst (server_recv H cstate next sv (cr_sent run))) = SDone.
Proof. exact (session_agrees H cstate next init dh pub H_len dh_agree pub_len). Qed.

(** io.ReadFull / ParsePacket / the receive loop do not see TCP segment
    boundaries: the outcome is a function of the concatenated stream. *)
Theorem C11_parse_segmentation :
  forall r1 r2 s, concat r1 = concat r2 ->
  pres_equiv cstate (parse_packet r1 s) (parse_packet r2 s).
Proof. exact (parse_packet_segmentation H cstate next). Qed.

Theorem C11_recv_segmentation :
  forall r1 r2 s, concat r1 = concat r2 -> recv_all r1 s = recv_all r2 s.
Proof. exact (recv_all_segmentation H cstate next). Qed.

(** Corruption: if the bytes of nonce|payload are altered (checksum intact)
    or the checksum is altered (nonce|payload intact) — in particular any
    single byte or bit — the frame is rejected with a checksum error, or the
    delivered x' = nonce'|payload' differs from the sent x and H x' = H x
    (a SHA-256 collision, exhibited). *)
Theorem C11_corruption_rejected :
  forall r s n0 p0 c4 cb cs s' cb' cs' rest,
  wf_msg (n0, p0) ->
  xor_stream s (frame H n0 p0) = (c4 ++ cb ++ cs, s') ->
  length c4 = 4%nat -> length cs = 32%nat ->
  length cb' = length cb -> length cs' = length cs ->
  ((cb' <> cb /\ cs' = cs) \/ (cb' = cb /\ cs' <> cs)) ->
  concat r = c4 ++ cb' ++ cs' ++ rest ->
  rejected_or_collision H cstate next r s (n0 ++ p0) rest.
Proof. exact (corruption_rejected H cstate next H_len). Qed.

Theorem C11_single_byte_corruption :
  forall r s n0 p0 ct0 s' i v rest,
  wf_msg (n0, p0) ->
  xor_stream s (frame H n0 p0) = (ct0, s') ->
  (4 <= i < length ct0)%nat -> nth i ct0 0 <> v ->
  concat r = set_nth i v ct0 ++ rest ->
  rejected_or_collision H cstate next r s (n0 ++ p0) rest.
Proof. exact (single_byte_corruption H cstate next H_len). Qed.

(** Soundness of ParsePacket: whatever is delivered is a window of the stream
    that decrypts to  length | nonce | payload | H(nonce|payload)  with the
    length field = 64 + |payload| <= 8 MiB. *)
Theorem C11_parse_sound :
  forall r s nonce payload r' s',
  parse_packet r s = POk cstate nonce payload r' s' ->
  exists c4 cd dsz s1,
    concat r = c4 ++ cd ++ concat r' /\ len c4 = 4 /\
    xor_stream s c4 = (dsz, s1) /\ of_le32 dsz = 64 + len payload /\
    64 + len payload <= max_packet_len /\ len cd = 64 + len payload /\
    xor_stream s1 cd = (nonce ++ payload ++ H (nonce ++ payload), s') /\
    length nonce = 32%nat.
Proof. exact (parse_packet_inv H cstate next). Qed.

(** Altered length field: a delivered payload always has the size announced
    by the decrypted length field, so it cannot be the payload that was sent;
    by C11_parse_sound its acceptance is a checksum coincidence on another
    window of the stream. *)
Theorem C11_length_corruption :
  forall r s c4 rest dsz s1 (p0 : list N) n p r' s'',
  concat r = c4 ++ rest -> len c4 = 4 -> xor_stream s c4 = (dsz, s1) ->
  of_le32 dsz <> 64 + len p0 ->
  parse_packet r s = POk cstate n p r' s'' -> len p <> len p0.
Proof. exact (length_corruption H cstate next). Qed.

(** Length-field bounds *)
Theorem C11_length_out_of_bounds_rejected :
  forall r s c4 rest dsz s1,
  concat r = c4 ++ rest -> len c4 = 4 -> xor_stream s c4 = (dsz, s1) ->
  (of_le32 dsz < min_packet_len \/ max_packet_len < of_le32 dsz) ->
  exists r1, parse_packet r s = PErr cstate PLen r1 /\ concat r1 = rest.
Proof. exact (parse_length_rejected H cstate next). Qed.

Theorem C11_delivered_within_bounds :
  forall r s nonce payload r' s',
  parse_packet r s = POk cstate nonce payload r' s' ->
  length nonce = 32%nat /\ len payload <= max_packet_len - 64 /\
  length (concat r) = (68 + length payload + length (concat r'))%nat.
Proof. exact (parse_ok_bounds H cstate next). Qed.

(** the sender does not enforce the limit, the receiver does *)
Theorem C11_oversize_rejected :
  forall r s nonce payload ct s' rest,
  len payload + 64 < 4294967296 -> max_packet_len < len payload + 64 ->
  xor_stream s (marshal H nonce payload) = (ct, s') ->
  concat r = ct ++ rest ->
  exists r1, parse_packet r s = PErr cstate PLen r1.
Proof. exact (oversize_rejected H cstate next). Qed.

(** Truncation: a stream cut anywhere inside (or just before) a frame delivers
    every earlier payload and then ends with EOF / unexpected EOF; never a
    wrong or partial payload. *)
Theorem C11_truncated_stream :
  forall msgs1 n p r s ct1 s1 cm s2 part tail,
  Forall wf_msg msgs1 -> wf_msg (n, p) ->
  xor_stream s (frames_plain H msgs1) = (ct1, s1) ->
  xor_stream s1 (frame H n p) = (cm, s2) ->
  cm = part ++ tail -> tail <> [] ->
  concat r = ct1 ++ part ->
  exists e, recv_all r s = (map snd msgs1, e) /\ (e = PEof \/ e = PUnexp).
Proof. exact (truncated_stream H cstate next H_len). Qed.

(** the receive loop's fuel (stream length + 1) is never exhausted *)
Theorem C11_recv_total :
  forall r s, snd (recv_all r s) <> PFuel.
Proof. exact (recv_all_no_fuel H cstate next). Qed.

(** Several goroutines sending on ONE connection (Client requests, the ping
    loop): Connection.Send holds c.mu around encrypt + write.  For every number
    of senders, every queue of packets per sender and EVERY schedule of their
    Lock / Encrypt / Write / Unlock steps (steps blocked by the mutex do not
    happen): whenever the mutex is free the wire carries exactly send_all of the
    packets in the order in which the mutex was acquired, with the cipher in
    the matching state - so C11_stream_roundtrip / C11_server_receives apply to
    it; at every moment the wire is a prefix of that stream; every sender's
    packets keep their order. *)
Theorem C11_lock_serialises :
  forall tx0 queues sched,
  let st := fst (crun H cstate next false sched (cinit cstate tx0 queues) []) in
  cs_owner st = None ->
  cs_active st = [] /\
  cs_wire st = fst (send_all H cstate next tx0 (map snd (cs_log st))) /\
  cs_tx st = snd (send_all H cstate next tx0 (map snd (cs_log st))).
Proof. exact (lock_serialises H cstate next). Qed.

Theorem C11_lock_wire_prefix :
  forall tx0 queues sched,
  let st := fst (crun H cstate next false sched (cinit cstate tx0 queues) []) in
  exists rest, fst (send_all H cstate next tx0 (map snd (cs_log st))) = cs_wire st ++ rest.
Proof. exact (lock_wire_prefix H cstate next). Qed.

Theorem C11_per_sender_order :
  forall early tx0 queues sched,
  let st := fst (crun H cstate next early sched (cinit cstate tx0 queues) []) in
  forall j, sent_by j (cs_log st) ++ nth j (cs_queues st) [] = nth j queues [].
Proof. exact (per_sender_order H cstate next). Qed.
End C11.

Print Assumptions C11_handshake_agrees.
Print Assumptions C11_session_agrees.
Print Assumptions C11_stream_roundtrip.
Print Assumptions C11_single_byte_corruption.
Print Assumptions C11_truncated_stream.
Print Assumptions C11_parse_segmentation.
Print Assumptions C11_lock_serialises.

(** The premises are satisfiable: a toy instance (H = 32 bytes derived from the
    length and the byte sum, keystream = counter bytes) sends two packets, cut
    into three segments in the middle of fields. *)
Definition toyH (x : list N) : list N := repeat ((len x + fold_left N.add x 7) mod 256) 32.
Definition toy_next (s : N) : N * N := (s mod 256, s + 1).

Example C11_example_roundtrip :
  let msgs := [(repeat 1 32, [10; 20; 30]); (repeat 2 32, [])] in
  let ct := fst (AdnlT.xor_stream N toy_next 5 (frames_plain toyH msgs)) in
  Forall wf_msg msgs /\
  AdnlT.recv_all toyH N toy_next [firstn 3 ct; firstn 40 (skipn 3 ct); skipn 43 ct] 5
  = ([[10; 20; 30]; []], PEof).
Proof.
  split.
  - repeat constructor; cbn; discriminate.
  - vm_compute. reflexivity.
Qed.

Example C11_example_corruption :
  let ct := fst (AdnlT.xor_stream N toy_next 5 (frame toyH (repeat 1 32) [10; 20; 30])) in
  AdnlT.recv_all toyH N toy_next [set_nth 37 99 ct] 5 = ([], PSum).
Proof. vm_compute. reflexivity. Qed.

(** The variant that releases the mutex before encrypting and writing
    (early_unlock) is refuted: two senders, one packet each; sender 0 encrypts,
    sender 1 encrypts and writes, then sender 0 writes.  Both are done, the
    mutex is free, but the wire is not the stream of the two packets in either
    order and the receiver rejects it at the first frame. *)
Definition toy_m0 : msg := (repeat 1 32, [10; 20; 30]).
Definition toy_m1 : msg := (repeat 2 32, [7]).
Definition toy_sched : list (nat * action) :=
  [(0, ALock); (0, AUnlock); (0, AEncrypt);
   (1, ALock); (1, AUnlock); (1, AEncrypt); (1, AWrite); (0, AWrite)]%nat.

Theorem C11_early_unlock_refuted :
  let st := fst (crun toyH N toy_next true toy_sched (cinit N 5 [[toy_m0]; [toy_m1]]) []) in
  cs_owner st = None /\ cs_active st = [] /\ cs_queues st = [[]; []] /\
  map snd (cs_log st) = [toy_m0; toy_m1] /\
  cs_wire st <> fst (send_all toyH N toy_next 5 [toy_m0; toy_m1]) /\
  cs_wire st <> fst (send_all toyH N toy_next 5 [toy_m1; toy_m0]) /\
  AdnlT.recv_all toyH N toy_next [cs_wire st] 5 = ([], PLen).
Proof.
  vm_compute. repeat split; discriminate.
Qed.

(* the same schedule under the real locking discipline: the steps of sender 1
   are blocked until sender 0 unlocks, the stream is intact *)
Example C11_example_locked :
  let sched := [(0, ALock); (1, ALock); (0, AEncrypt); (1, AEncrypt); (1, ALock); (0, AWrite);
                (0, AUnlock); (1, ALock); (1, AEncrypt); (1, AWrite); (1, AUnlock)]%nat in
  let st := fst (crun toyH N toy_next false sched (cinit N 5 [[toy_m0]; [toy_m1]]) []) in
  cs_owner st = None /\
  AdnlT.recv_all toyH N toy_next [cs_wire st] 5 = ([[10; 20; 30]; [7]], PEof).
Proof. vm_compute. split; reflexivity. Qed.

(** Connection layer over time (Connection.reader, reconnect, Responses).
    A session continues for as long as packets flow: if no gap between arrivals
    reaches reconnectTimeout (10 s) and the transport reports no error, the
    reader is still running after any number of packets / any total duration
    and has delivered every data packet in order (pongs and auth nonces are
    consumed). *)
Theorem C11_session_continues :
  forall evs elapsed,
  Forall (fun a => gap_of a < reconnect_timeout_ms /\ is_closed a = false) evs ->
  reader_run false elapsed evs = (data_packets evs, SRunning).
Proof. exact session_continues. Qed.

(** nothing but a silence of reconnectTimeout or an error ends a session *)
Theorem C11_session_end_cause :
  forall evs elapsed ps e,
  reader_run false elapsed evs = (ps, e) -> e <> SRunning ->
  exists a, In a evs /\
    ((e = STimeout /\ reconnect_timeout_ms <= gap_of a) \/ (e = SClosed /\ is_closed a = true)).
Proof. exact session_end_cause. Qed.

Theorem C11_reader_until_closed :
  forall pre g rest elapsed,
  Forall (fun a => gap_of a < reconnect_timeout_ms /\ is_closed a = false) pre ->
  g < reconnect_timeout_ms ->
  reader_run false elapsed (pre ++ AClosed g :: rest) = (data_packets pre, SClosed).
Proof. exact reader_until_closed. Qed.

(** Responses() is one channel for the lifetime of the Connection: whatever
    the reader of ANY session delivers reaches the application that took the
    channel once, in session order. *)
Theorem C11_responses_same_channel :
  forall st sessions k,
  app_received (conn_run st false k sessions) =
  flat_map (fun evs => fst (reader_run st 0 evs)) sessions.
Proof. exact responses_same_channel. Qed.

(** the two rejected designs (Proofs/AdnlHistory.v) *)
Theorem C11_single_timer_refuted :
  reader_run false 0 steady = (data_packets steady, SRunning) /\
  snd (reader_run true 0 steady) = STimeout /\
  length (fst (reader_run true 0 steady)) = 19%nat.
Proof. exact (proj2 single_timer_refuted). Qed.

Theorem C11_chan_per_session_refuted :
  app_received (conn_run false false 0 two_sessions) = [pkt 1; pkt 2] /\
  app_received (conn_run false true 0 two_sessions) = [pkt 1].
Proof. exact chan_per_session_refuted. Qed.

(** Only the 12-byte tcp.pong (and auth nonces) are the reader's own: a payload
    that merely starts with the pong magic is data and is delivered. *)
Theorem C11_pong_magic_consumed_iff :
  forall p, magic_type p = magic_tcp_pong -> (is_control p = true <-> len p = 12).
Proof. exact pong_magic_consumed_iff. Qed.

Theorem C11_data_packet_delivered :
  forall p g t elapsed,
  is_control p = false -> g < reconnect_timeout_ms ->
  fst (reader_run false elapsed (APacket g p :: t)) = p :: fst (reader_run false (elapsed + g) t).
Proof. exact data_packet_delivered. Qed.

Theorem C11_pong_prefix_refuted :
  magic_type pong_like = magic_tcp_pong /\ len pong_like = 13 /\
  reader_run false 0 [APacket 100 pong_like] = ([pong_like], SRunning) /\
  is_control_ge pong_like = true.
Proof. exact pong_prefix_refuted. Qed.

(** Every message of the protocol may arrive in any segmentation, including the
    server's handshake confirmation (the first packet the client parses, on the
    raw connection): a well-formed frame at the head of ANY segmented stream is
    parsed and the rest of the stream is left for the receive loop. *)
Theorem C11_confirmation_any_segmentation :
  forall (H : list N -> list N) cstate next, (forall x, length (H x) = 32%nat) ->
  forall r s nonce payload ct s' rest,
  wf_msg (nonce, payload) ->
  xor_stream cstate next s (frame H nonce payload) = (ct, s') ->
  concat r = ct ++ rest ->
  exists r2, concat r2 = rest /\ parse_packet H cstate next r s = POk cstate nonce payload r2 s'.
Proof. intros H cstate next HL. exact (parse_frame_ok H cstate next HL). Qed.

(** rejected designs of round 5 (Proofs/AdnlHistory.v): one conn.Read for the
    confirmation; a reader that survives its closed channel and reconnects later *)
Theorem C11_single_read_refuted :
  (forall k, (k <= 68)%nat ->
     match parse_packet hH N hnext [firstn k confirmation; skipn k confirmation] 9 with
     | POk _ _ p _ _ => p = [] | PErr _ _ _ => False end) /\
  (match confirm_single_read [firstn 4 confirmation; skipn 4 confirmation] 9 with
   | PErr _ _ _ => True | POk _ _ _ _ _ => False end).
Proof. split; [exact (proj1 (proj2 single_read_refuted))|exact (proj1 (proj2 (proj2 single_read_refuted)))]. Qed.

Theorem C11_orphan_timer_refuted :
  handshakes false [(500, SClosed); (12000, SRunning)] = 2%nat /\
  handshakes true [(500, SClosed); (12000, SRunning)] = 3%nat.
Proof. exact orphan_timer_refuted. Qed.

(** A process makes any number of connections, to the same or to different
    servers: every one is a handshake of its own - for every list of (client
    key, server key, parameters) each server accepts its handshake and mirrors
    the keys.  (Handing the secret derived for one server to another one is
    refuted in Proofs/AdnlHistory.v.) *)
Theorem C11_handshake_sequence :
  forall (H : list N -> list N) cstate next init dh pub,
  (forall x, length (H x) = 32%nat) -> (forall a b, dh a (pub b) = dh b (pub a)) ->
  (forall a, length (pub a) = 32%nat) ->
  forall conns : list (list N * list N * list N),
  Forall (fun c => let '(cpriv, spriv, params) := c in
            length params = 160%nat ->
            server_accept H cstate next init dh spriv (pub spriv)
              (handshake_bytes H cstate next init (pub spriv) params (pub cpriv) (dh cpriv (pub spriv)))
            = Some {| sv_params := params; sv_tx := client_rx0 cstate init params;
                      sv_rx := client_tx0 cstate init params |}) conns.
Proof.
  intros H cstate next init dh pub HL DA PL conns. apply Forall_forall.
  intros [[cpriv spriv] params] _ Lp.
  exact (C11_handshake_agrees H cstate next init dh pub HL DA PL cpriv spriv params Lp).
Qed.

Theorem C11_cached_keys_refuted :
  server_accept hH2 N hnext hinit vadd keyB keyB
    (handshake_bytes hH2 N hnext hinit keyB hparams ckey (vadd ckey keyA)) = None.
(* closed by computation: [exact (proj2 cached_keys_refuted)] makes the kernel compare the two
   statements by lazy conversion, which does not terminate in reasonable time on this toy instance *)
Proof. vm_compute. reflexivity. Qed.
