(** C17 — account addresses and shard ids keep their meaning across all forms.
    Statements only; every proof is [exact <lemma>] into Proofs/.
    [tab] is the CRC table used by utils.Crc16; the hypothesis
    [tab = crc16_table_ref] is discharged for the table translated from the
    source in C17_gen.v. *)
From Coq Require Import List NArith ZArith Arith Lia Bool.
From Tongo Require Import Lib.Bits Lib.Res Model.Address Model.Shard Model.Adnl Model.AddressTlb Model.AddressJson
  Proofs.Crc16P Proofs.Base64P Proofs.AddressP Proofs.AddressRawP Proofs.ShardP Proofs.AdnlP
  Proofs.AddressTlbP Proofs.ShardP2 Proofs.AddressJsonP Proofs.AddressRawP2.
Import ListNotations.
Local Open Scope N_scope.

(** ** CRC-16 *)

(** the table-driven loop of utils.Crc16 computes CRC-16/XMODEM (bitwise
    definition from the polynomial 0x1021) on every byte string, provided the
    table is the one derived from the polynomial *)
Theorem C17_crc16_table_driven :
  forall tab l, tab = crc16_table_ref -> Forall (fun b => b < 256) l ->
  crc16_tab tab l = crc16 l.
Proof. exact crc16_tab_ok. Qed.
Print Assumptions C17_crc16_table_driven.

(** crc (a xor b) = crc a xor crc b for inputs of equal length (zero init) *)
Theorem C17_crc16_linear :
  forall l1 l2, length l1 = length l2 ->
  crc16 (xor_list l1 l2) = N.lxor (crc16 l1) (crc16 l2).
Proof. exact crc16_linear. Qed.
Print Assumptions C17_crc16_linear.

(** ** user-friendly form *)

(** all int8 workchains x all 32-byte addresses x all flag combinations x both
    alphabets: parsing the printed form returns the account (and the flag byte) *)
Theorem C17_human_roundtrip :
  forall tab url bounce testnet wc addr,
  tab = crc16_table_ref -> length addr = 32%nat -> bytes_ok addr ->
  (-128 <= wc < 128)%Z ->
  parse_human (print_human tab url bounce testnet wc addr)
  = Ok (human_flag bounce testnet, wc, addr).
Proof. exact human_roundtrip. Qed.
Print Assumptions C17_human_roundtrip.

Theorem C17_flag_roundtrip :
  forall bounce testnet,
  flag_bounce (human_flag bounce testnet) = bounce /\
  flag_testnet (human_flag bounce testnet) = testnet.
Proof. exact flag_roundtrip. Qed.

(** 48 positions x 63 other digits, every address, every workchain value:
    replacing one base64 digit by a different one is rejected *)
Theorem C17_single_digit_rejected :
  forall tab bounce testnet wc addr i d',
  tab = crc16_table_ref -> length addr = 32%nat -> bytes_ok addr ->
  (i < 48)%nat -> d' < 64 -> d' <> nth i (human_digits tab bounce testnet wc addr) 0 ->
  parse_human_digits (set_nth i d' (human_digits tab bounce testnet wc addr)) = Err EOther.
Proof. exact single_digit_rejected. Qed.
Print Assumptions C17_single_digit_rejected.

(** the same on the text: whatever character replaces position [i] — a digit
    of either alphabet, a non-alphabet byte, CR or LF — the string is rejected
    unless the character denotes the digit that was there ('-' for '+' is not
    a change) *)
Theorem C17_single_char_rejected :
  forall tab url bounce testnet wc addr i c',
  tab = crc16_table_ref -> length addr = 32%nat -> bytes_ok addr -> (i < 48)%nat ->
  b64_digit true (plus_slash c') <> Some (nth i (human_digits tab bounce testnet wc addr) 0) ->
  parse_human (set_nth i c' (print_human tab url bounce testnet wc addr)) = Err EOther.
Proof. exact single_char_rejected. Qed.
Print Assumptions C17_single_char_rejected.

(** ParseAccountID rejects it too when the new character is a base64 digit of
    either alphabet (such a character is not ':', so the raw attempt fails) *)
Theorem C17_single_char_rejected_parse_account :
  forall tab url bounce testnet wc addr i c' d',
  tab = crc16_table_ref -> length addr = 32%nat -> bytes_ok addr -> (i < 48)%nat ->
  b64_digit true (plus_slash c') = Some d' ->
  d' <> nth i (human_digits tab bounce testnet wc addr) 0 ->
  parse_account (set_nth i c' (print_human tab url bounce testnet wc addr)) = Err EOther.
Proof. exact single_char_rejected_parse_account. Qed.
Print Assumptions C17_single_char_rejected_parse_account.

(** ParseAccountID (raw attempt first, then user-friendly) inverts ToHuman too *)
Theorem C17_parse_account_human :
  forall tab url bounce testnet wc addr,
  tab = crc16_table_ref -> length addr = 32%nat -> bytes_ok addr -> (-128 <= wc < 128)%Z ->
  parse_account (print_human tab url bounce testnet wc addr) = Ok (wc, addr).
Proof. exact parse_account_human. Qed.
Print Assumptions C17_parse_account_human.

(** Observation outside the property (the Bounce field of ton.Address is not
    part of the account id and is not compared): account.go ParseAddress
    derives it as b[0]&0x11 == 0x11, which is true for every printed form,
    also the non-bounceable one *)
Theorem C17_note_parse_address_bounce_always_true :
  forall bounce testnet, go_parse_address_bounce (human_flag bounce testnet) = true.
Proof. exact go_parse_address_bounce_always. Qed.

(** ** raw form, all int32 workchains *)
Theorem C17_raw_roundtrip :
  forall wc addr,
  (- 2 ^ 31 <= wc < 2 ^ 31)%Z -> length addr = 32%nat -> bytes_ok addr ->
  parse_raw (print_raw wc addr) = Ok (wc, addr).
Proof. exact raw_roundtrip. Qed.
Print Assumptions C17_raw_roundtrip.

Theorem C17_parse_account_raw :
  forall wc addr,
  (- 2 ^ 31 <= wc < 2 ^ 31)%Z -> length addr = 32%nat -> bytes_ok addr ->
  parse_account (print_raw wc addr) = Ok (wc, addr).
Proof. exact parse_account_raw. Qed.

(** short hex: the raw text with its first k hex digits (all '0') left out, for
    every k = 0..64, i.e. of every total length the raw form admits (the length
    of the workchain text + 1 + 64 - k: also 48, 55, 64, 66, the lengths of the
    other textual forms), is zero filled by AccountIDFromRaw and by
    ParseAccountID alike *)
Theorem C17_raw_short_roundtrip :
  forall k wc addr,
  (- 2 ^ 31 <= wc < 2 ^ 31)%Z -> length addr = 32%nat -> bytes_ok addr -> (k <= 64)%nat ->
  firstn k (flat_map hex_byte addr) = repeat 48 k ->
  parse_raw (print_raw_short k wc addr) = Ok (wc, addr) /\
  parse_account (print_raw_short k wc addr) = Ok (wc, addr).
Proof. exact raw_short_roundtrip. Qed.
Print Assumptions C17_raw_short_roundtrip.

Theorem C17_raw_short_length :
  forall k wc addr, length addr = 32%nat -> (k <= 64)%nat ->
  length (print_raw_short k wc addr) = (length (dec_Z wc) + 1 + (64 - k))%nat.
Proof. exact print_raw_short_length. Qed.

(** ** TL form *)
Theorem C17_tl_roundtrip :
  forall wc addr,
  (- 2 ^ 31 <= wc < 2 ^ 31)%Z -> length addr = 32%nat ->
  tl_unmarshal (tl_marshal wc addr) = Ok (wc, addr).
Proof. exact tl_roundtrip. Qed.

(** ** JSON form: the quoted raw form; UnmarshalJSON goes through ParseAccountID,
       so a JSON string holding the user-friendly form is accepted as well *)
Theorem C17_json_roundtrip :
  forall wc addr,
  (- 2 ^ 31 <= wc < 2 ^ 31)%Z -> length addr = 32%nat -> bytes_ok addr ->
  json_unmarshal (json_marshal wc addr) = Ok (wc, addr).
Proof. exact json_roundtrip. Qed.
Print Assumptions C17_json_roundtrip.

Theorem C17_json_human_roundtrip :
  forall tab url bounce testnet wc addr,
  tab = crc16_table_ref -> length addr = 32%nat -> bytes_ok addr -> (-128 <= wc < 128)%Z ->
  json_unmarshal (34 :: print_human tab url bounce testnet wc addr ++ [34]) = Ok (wc, addr).
Proof. exact json_human_roundtrip. Qed.

(** ** TL-B form (addr_std, int8 workchain) *)

(** AccountID -> ToMsgAddress -> 267 cell bits -> MsgAddress -> AccountIDFromTlb
    is the identity, whatever follows the address in the cell *)
Theorem C17_tlb_roundtrip :
  forall wc addr rest,
  (-128 <= wc < 128)%Z -> length addr = 32%nat -> bytes_ok addr ->
  exists e, tlb_encode (to_msg_address wc addr) = Ok e /\ length e = 267%nat /\
            account_from_tlb_bits (e ++ rest) = Ok (Some (wc, addr)).
Proof. exact tlb_account_roundtrip. Qed.
Print Assumptions C17_tlb_roundtrip.

(** every addr_std value, with or without anycast (depth 1..30 by the schema;
    the code also takes 31), survives MarshalTLB / UnmarshalTLB *)
Theorem C17_tlb_std_roundtrip :
  forall any wc addr rest,
  any_ok any -> (-128 <= wc < 128)%Z -> length addr = 32%nat -> bytes_ok addr ->
  exists e, tlb_encode (MAStd any wc addr) = Ok e /\
            tlb_decode (e ++ rest) = Ok (MAStd any wc addr, rest).
Proof. exact tlb_std_roundtrip. Qed.
Print Assumptions C17_tlb_std_roundtrip.

(** anycast rewrite of AccountIDFromTlb, all depths 1..30 (and 31, 32): the
    first [depth] bits of the address become rewrite_pfx, the other bits stay *)
Theorem C17_anycast_rewrite :
  forall d p wc addr,
  1 <= d <= 32 -> p < 2 ^ d -> length addr = 32%nat -> bytes_ok addr ->
  exists addr',
    account_from_tlb (MAStd (Some (d, p)) wc addr) = Ok (Some (wc, addr')) /\
    length addr' = 32%nat /\
    bytes_bits addr' = bits_of (N.to_nat d) p ++ skipn (N.to_nat d) (bytes_bits addr).
Proof. exact anycast_rewrite_full. Qed.
Print Assumptions C17_anycast_rewrite.

(** ** JSON form of the TL-B address (tlb.MsgAddress MarshalJSON / UnmarshalJSON:
       what a message or transaction holding id.ToMsgAddress() shows as JSON) *)

(** every int8 workchain -128..127 x every 32-byte address:
    AccountID -> ToMsgAddress -> JSON -> MsgAddress gives back the same addr_std
    value (so its TL-B bits are unchanged) and AccountIDFromTlb the same account *)
Theorem C17_tlb_json_roundtrip :
  forall wc addr,
  (-128 <= wc < 128)%Z -> length addr = 32%nat -> bytes_ok addr ->
  ma_json_parse (account_to_ma_json wc addr) = Ok (to_msg_address wc addr) /\
  account_from_ma_json (account_to_ma_json wc addr) = Ok (Some (wc, addr)).
Proof. exact ma_json_account_roundtrip. Qed.
Print Assumptions C17_tlb_json_roundtrip.

(** every addr_std value, with or without anycast (any uint32 depth / prefix) *)
Theorem C17_tlb_json_std_roundtrip :
  forall any wc addr,
  any_json_ok any -> (-128 <= wc < 128)%Z -> length addr = 32%nat -> bytes_ok addr ->
  ma_json_parse (ma_json_print (MAStd any wc addr)) = Ok (MAStd any wc addr).
Proof. exact ma_json_std_roundtrip. Qed.
Print Assumptions C17_tlb_json_std_roundtrip.

Theorem C17_tlb_json_none_roundtrip : ma_json_parse (ma_json_print MANone) = Ok MANone.
Proof. exact ma_json_none_roundtrip. Qed.

(** the text is the same as AccountID.MarshalJSON's (quoted raw form) *)
Theorem C17_tlb_json_is_raw_json :
  forall wc addr, (-128 <= wc < 128)%Z -> account_to_ma_json wc addr = json_marshal wc addr.
Proof. exact ma_json_is_raw. Qed.

(** ** shard identifiers (uint64 image of the int64) *)

(** every non-zero value parses and encodes back to itself; zero is refused *)
Theorem C17_shard_parse_encode :
  forall u, 0 < u -> u < 2 ^ 64 ->
  exists s, parse_shard u = Ok s /\ shard_encode s = Ok u.
Proof. exact shard_parse_encode. Qed.
Print Assumptions C17_shard_parse_encode.

Theorem C17_shard_zero_refused : parse_shard 0 = Err EOther.
Proof. exact parse_shard_zero. Qed.

(** every non-zero uint64 is the id of exactly the shard (prefix length
    63 - trailing zeros, prefix value q) *)
Theorem C17_shard_id_exists :
  forall u, 0 < u -> u < 2 ^ 64 ->
  exists q, shard_len u <= 63 /\ q < 2 ^ shard_len u /\ u = shard_id (shard_len u) q.
Proof. exact shard_id_exists. Qed.

(** MatchAccountID is true exactly when the shard's prefix bits are the leading
    bits of the account address *)
Theorem C17_match_account_iff_prefix :
  forall u s addr,
  0 < u -> u < 2 ^ 64 -> parse_shard u = Ok s ->
  Forall (fun b => b < 256) addr -> (8 <= length addr)%nat ->
  let l := N.to_nat (shard_len u) in
  shard_match s addr = true <-> firstn l (addr_bits addr) = top_bits l u.
Proof. exact match_account_bytes. Qed.
Print Assumptions C17_match_account_iff_prefix.

(** child / parent arithmetic in terms of (prefix length, prefix value) and
    mutual inverses for prefix length 0..62 (children) / 1..63 (parent) *)
Theorem C17_shard_child :
  forall l q left, l <= 62 -> q < 2 ^ l ->
  shard_child (shard_id l q) left = shard_id (l + 1) (2 * q + (if left then 0 else 1)).
Proof. exact shard_child_id. Qed.

Theorem C17_shard_parent :
  forall l q, 1 <= l -> l <= 63 -> q < 2 ^ l ->
  shard_parent (shard_id l q) = shard_id (l - 1) (q / 2).
Proof. exact shard_parent_id. Qed.

Theorem C17_parent_of_child :
  forall l q left, l <= 62 -> q < 2 ^ l ->
  shard_parent (shard_child (shard_id l q) left) = shard_id l q.
Proof. exact parent_child. Qed.
Print Assumptions C17_parent_of_child.

Theorem C17_child_of_parent :
  forall l q, 1 <= l -> l <= 63 -> q < 2 ^ l ->
  shard_child (shard_parent (shard_id l q)) (N.even q) = shard_id l q.
Proof. exact child_parent. Qed.
Print Assumptions C17_child_of_parent.

(** the same on arbitrary uint64 shard ids: not the deepest shard / not the root *)
Theorem C17_parent_of_child_u64 :
  forall u left, 0 < u -> u < 2 ^ 64 -> 1 <= ctz64 u ->
  shard_parent (shard_child u left) = u.
Proof. exact parent_child_u. Qed.

Theorem C17_child_of_parent_u64 :
  forall u, 0 < u -> u < 2 ^ 64 -> ctz64 u <= 62 ->
  exists left, shard_child (shard_parent u) left = u.
Proof. exact child_parent_u. Qed.

(** convertShardIdent and the shard ids returned by ton.GetParents *)
Theorem C17_shard_of_ident :
  forall l q, l <= 63 -> shard_of_ident (q * 2 ^ (64 - l)) l = shard_id l q.
Proof. exact shard_of_ident_id. Qed.

Theorem C17_get_parents :
  forall l q, l <= 63 -> q < 2 ^ l ->
  get_parents (q * 2 ^ (64 - l)) l false false = [shard_id l q] /\
  (1 <= l -> get_parents (q * 2 ^ (64 - l)) l true false = [shard_id (l - 1) (q / 2)]) /\
  (l <= 62 -> forall split, get_parents (q * 2 ^ (64 - l)) l split true
                            = [shard_id (l + 1) (2 * q); shard_id (l + 1) (2 * q + 1)]).
Proof. exact get_parents_all. Qed.

(** MatchBlockID is true exactly when the shorter of the two shard prefixes is
    a prefix of the longer (same shard, ancestor or descendant); block shard 0
    never matches *)
Theorem C17_match_block_iff_related :
  forall u v s,
  0 < u -> u < 2 ^ 64 -> 0 < v -> v < 2 ^ 64 -> parse_shard u = Ok s ->
  let l := N.to_nat (N.min (shard_len u) (shard_len v)) in
  shard_match_block s v = true <-> top_bits l u = top_bits l v.
Proof. exact match_block_iff. Qed.
Print Assumptions C17_match_block_iff_related.

Theorem C17_match_block_zero : forall s, shard_match_block s 0 = false.
Proof. exact match_block_zero. Qed.

(** ** ADNL base32 *)
Theorem C17_adnl_roundtrip :
  forall tab addr,
  tab = crc16_table_ref -> length addr = 32%nat -> bytes_ok addr ->
  adnl_parse tab (adnl_print tab addr) = Ok addr.
Proof. exact adnl_roundtrip. Qed.
Print Assumptions C17_adnl_roundtrip.

(** ** non-vacuity and findings on concrete values *)
Example C17_premises_satisfiable :
  let addr := map N.of_nat (seq 100 32) in
  length addr = 32%nat /\ bytes_ok addr /\
  parse_human (print_human crc16_table_ref false false true (-1) addr)
  = Ok (0xD1, (-1)%Z, addr) /\
  (exists s, parse_shard 0x6000000000000000 = Ok s /\ shard_match s addr = true) /\
  0x6000000000000000 = shard_id 2 1.
Proof.
  cbv zeta. split; [reflexivity|]. split.
  - unfold bytes_ok. rewrite Forall_forall. intros x Hx. apply in_map_iff in Hx.
    destruct Hx as (n & <- & Hn). apply in_seq in Hn. lia.
  - split; [vm_compute; reflexivity|]. split; [|reflexivity].
    exists {| sh_prefix := 0x4000000000000000; sh_mask := 0xC000000000000000 |}.
    split; vm_compute; reflexivity.
Qed.

(* OBSERVATION OUTSIDE THE PROPERTY (C17 states the round trip of well-formed
   ADNL text; behaviour on malformed text is not part of it, and this input
   class is not compared in the correspondence run): in liteclient
   ParseADNLAddress a correctly padded last quantum decodes to fewer than 35
   bytes and buf[33:] panics; the model records that as Panic *)
Example C17_note_adnl_padded_input_panics :
  adnl_parse crc16_table_ref (firstn 49 (adnl_print crc16_table_ref (repeat 0 32)) ++ repeat 61 6)
  = Panic PSlice.
Proof. vm_compute. reflexivity. Qed.

(* OBSERVATION OUTSIDE THE PROPERTY (account.go ParseAddress): the base64
   decoding error is ignored, so a valid address followed by garbage is accepted *)
Example C17_note_parse_address_trailing_garbage_accepted :
  let s := print_human crc16_table_ref true true false 0 (repeat 0 32) in
  parse_human (s ++ [33]) = Err EOther /\
  parse_address_lax (s ++ [33]) = Ok (0%Z, repeat 0 32, true).
Proof. vm_compute. split; reflexivity. Qed.

(* TL-B with anycast on concrete values: depth 3, rewrite_pfx 0b101 *)
Example C17_anycast_example :
  let addr := repeat 0 32 in
  exists e, tlb_encode (MAStd (Some (3, 5)) (-1) addr) = Ok e /\ length e = 275%nat /\
            account_from_tlb_bits e = Ok (Some ((-1)%Z, 0xA0 :: repeat 0 31)).
Proof. cbv zeta. eexists. split; [vm_compute; reflexivity|]. split; vm_compute; reflexivity. Qed.

(* addr_std holds an int8: ToMsgAddress truncates a workchain outside -128..127
   (outside the property's quantifier; such accounts need addr_var) *)
Example C17_to_msg_address_truncates :
  to_msg_address 256 (repeat 0 32) = MAStd None 0 (repeat 0 32) /\
  to_msg_address (-129) (repeat 0 32) = MAStd None 127 (repeat 0 32).
Proof. split; reflexivity. Qed.

(* the lowest int8 workchain through the JSON form of the TL-B address *)
Example C17_tlb_json_min_workchain :
  let addr := map N.of_nat (seq 1 32) in
  account_from_ma_json (account_to_ma_json (-128) addr) = Ok (Some ((-128)%Z, addr)) /\
  ma_json_parse (account_to_ma_json (-129) addr) = Ok (MAStd None 127 addr).
Proof. cbv zeta. split; vm_compute; reflexivity. Qed.

(* a raw text that is exactly as long as the user-friendly form (48 characters) *)
Example C17_raw_of_length_48 :
  let addr := repeat 0 9 ++ map N.of_nat (seq 1 23) in
  length (print_raw_short 18 0 addr) = 48%nat /\
  parse_account (print_raw_short 18 0 addr) = Ok (0%Z, addr).
Proof. cbv zeta. split; vm_compute; reflexivity. Qed.
