(** C08 — TL-B and TL decoders are total on untrusted input.  Statements only.

    TL side: Model/TlTotal.v is the model of tl/decoder.go after the F12
    repairs; [sok B rate fuel t] is a decidable condition on the schema (every
    vector element pays its fixed cost with its own wire bytes at [rate],
    4096 elements stay below maxAlloc, nesting fits the fuel); it is
    re-checked on the generated bindings in Properties/C08_gen.v. *)
From Coq Require Import String List NArith PArith Arith Lia Bool.
From Tongo Require Import Lib.Bits Lib.Res Spec.TlWire Model.BocParse
     Model.Tl Model.TlTotal Proofs.TlTotalP Proofs.TlTotalP2
     Model.TlbCore Model.TlbTotal Proofs.TlbTotalP Model.Framing Proofs.FramingP Proofs.C08History.
Import ListNotations.
Local Open Scope N_scope.

(** ** TL: tl.Unmarshal(bytes.NewReader(bs), &x) for every described Go type *)

(** never a panic, for every byte string *)
Theorem C08_tl_decode_total :
  forall B rate fuel t, sok B rate fuel t = true ->
  forall bs p, fst (tl_unmarshal B fuel t bs) <> Panic p.
Proof. exact tl_decode_total. Qed.
Print Assumptions C08_tl_decode_total.

(** the model's recursion budget is never the reason of an error (Go has none) *)
Theorem C08_tl_decode_fuel :
  forall B rate fuel t, sok B rate fuel t = true ->
  forall bs, fst (tl_unmarshal B fuel t bs) <> Err EFuel.
Proof. exact tl_decode_fuel. Qed.

(** bytes requested by all modelled allocations: a * len(input) + b, with
    a = 5 + rate * fuel and b = kk + ee (static numbers of the type) —
    whatever the outcome *)
Theorem C08_tl_decode_alloc :
  forall B rate fuel t, sok B rate fuel t = true ->
  forall bs, t_alloc (snd (tl_unmarshal B fuel t bs))
             <= slope rate fuel * N.of_nat (length bs) + (kk B fuel t + ee B fuel t).
Proof. exact tl_decode_alloc. Qed.
Print Assumptions C08_tl_decode_alloc.

(** number of tl.decode invocations: linear in the input *)
Theorem C08_tl_decode_steps :
  forall B rate fuel t, sok B rate fuel t = true ->
  forall bs, t_steps (snd (tl_unmarshal B fuel t bs))
             <= slope rate fuel * N.of_nat (length bs) + (kk B fuel t + ee B fuel t).
Proof. exact tl_decode_steps. Qed.

(** a successful decode has read at least the minimal encoding of the type and
    never un-reads *)
Theorem C08_tl_decode_consumes :
  forall B rate fuel t, sok B rate fuel t = true ->
  forall bs v s, tl_unmarshal B fuel t bs = (Ok v, s) ->
  N.of_nat (length (t_inp s)) + ww B fuel t <= N.of_nat (length bs).
Proof. exact tl_decode_consumes. Qed.

(** before the repairs the allocation was not bounded by the input (F12) *)
Theorem C08_tl_vector_alloc_before_fix_refuted :
  exists bs, length bs = 8%nat /\
    17179869176 <= t_alloc (snd (decode_vector_before_fix (gdecT [] 1 GU64) 8 (tst0 bs))).
Proof. exact tl_vector_alloc_before_fix_refuted. Qed.
Theorem C08_tl_bytes_alloc_before_fix_refuted :
  exists bs, length bs = 4%nat /\ 16777215 <= t_alloc (snd (read_long_bytes_before_fix (tst0 bs))).
Proof. exact tl_bytes_alloc_before_fix_refuted. Qed.

(** ** TL-B: the reflection walker *)

(** [dec] of Model/TlbCore.v (tlb.Unmarshal on descriptor-described types):
    for every environment, descriptor, fuel and slice — never a panic *)
Theorem C08_generic_decode_total :
  forall env fuel t s p, dec env fuel t s <> Panic p.
Proof. intros env fuel t s. apply np_spec. apply dec_np. Qed.
Print Assumptions C08_generic_decode_total.

(** the same walker on trees with exotic cells (library cells, pruned branches
    in every reference position): never a panic *)
Theorem C08_generic_decode_exotic_total :
  forall env fuel t c p, xunmarshal env fuel t c <> Panic p.
Proof. intros env fuel t c. apply np_spec. apply xunmarshal_np. Qed.

(** steps (decode calls) are bounded by the size of the descriptor unrolled to
    the recursion depth — independent of the cell tree.
    PARTIAL with respect to the property text: data-driven loops exist only in
    hand-written decoders (hashmaps, bin-trees, VmStack lists), which are not
    descriptor-described; for those only the Go no-panic oracle runs. *)
Theorem C08_generic_decode_steps_partial :
  forall env fuel t c s n, xunmarshal env fuel t c = Ok (s, n) -> n <= usize env fuel t.
Proof. exact xunmarshal_steps. Qed.

(** ** helpers that sit directly on network data *)
Theorem C08_decode_length_total :
  forall b, bytes_ok b -> forall p, decode_length b <> Panic p.
Proof. intros b H. apply np_spec. apply decode_length_total. exact H. Qed.

Theorem C08_process_query_answer_total :
  forall known payload, bytes_ok payload -> forall p, process_query_answer known payload <> Panic p.
Proof. intros k b H. apply np_spec. apply process_query_answer_total. exact H. Qed.

Theorem C08_auth_nonce_total :
  forall payload, bytes_ok payload -> forall p, auth_nonce payload <> Panic p.
Proof. intros b H. apply np_spec. apply auth_nonce_total. exact H. Qed.

Theorem C08_parse_packet_total :
  forall H stream p, parse_packet H stream <> Panic p.
Proof. intros H s. apply np_spec. apply parse_packet_total. Qed.

(** cell[0] / cells[1] / r.Ids[i] after the F18 repairs; the decoding of the
    root cell itself is the TL-B walker above (a parameter here) *)
Theorem C08_vmstack_unmarshal_total :
  forall decode_root, (forall cells r p, decode_root cells r <> Panic p) ->
  forall b, bytes_ok b -> forall p, vmstack_after_tl decode_root b <> Panic p.
Proof.
  intros d Hd b Hb. apply np_spec. apply vmstack_after_tl_total; [|exact Hb].
  intros cells r. apply np_spec. apply Hd.
Qed.

Theorem C08_parse_contract_methods_total :
  forall decode_root, (forall cells r p, decode_root cells r <> Panic p) ->
  forall code, bytes_ok code -> forall p, parse_contract_methods decode_root code <> Panic p.
Proof.
  intros d Hd b Hb. apply np_spec. apply parse_contract_methods_total; [|exact Hb].
  intros cells r. apply np_spec. apply Hd.
Qed.

Theorem C08_get_transactions_total :
  forall decode_root, (forall cells r p, decode_root cells r <> Panic p) ->
  forall ids txs, bytes_ok txs -> forall p, get_transactions decode_root ids txs <> Panic p.
Proof.
  intros d Hd ids b Hb. apply np_spec. apply get_transactions_total; [|exact Hb].
  intros cells r. apply np_spec. apply Hd.
Qed.

Theorem C08_account_from_proof_total :
  forall decode_root, (forall cells r p, decode_root cells r <> Panic p) ->
  forall n found b, bytes_ok b -> forall p, account_from_proof decode_root n n found b <> Panic p.
Proof.
  intros d Hd n found b Hb. apply np_spec. apply account_from_proof_total; [|exact Hb].
  intros cells r. apply np_spec. apply Hd.
Qed.

(** before the repairs (F18): index out of range on a BOC without roots / on
    more transactions than block ids *)
Theorem C08_vmstack_before_fix_refuted :
  exists b, vmstack_after_tl_before_fix (fun _ _ => Ok tt) b = Panic PIndex.
Proof. exact vmstack_before_fix_refuted. Qed.
Theorem C08_parse_contract_methods_before_fix_refuted :
  exists code, parse_contract_methods_before_fix (fun _ _ => Ok tt) code = Panic PIndex.
Proof. exact parse_contract_methods_before_fix_refuted. Qed.
Theorem C08_get_transactions_before_fix_refuted :
  exists ids txs, get_transactions_before_fix (fun _ _ => Ok tt) ids txs = Panic PIndex.
Proof. exact get_transactions_before_fix_refuted. Qed.

(** the goroutines behind ParsePacket: Connection.reader (tcp.pong / auth nonce /
    forward) and Client.reader (adnl.message.answer -> processQueryAnswer) never
    panic on any framed payload, whatever its length and constructor id *)
Theorem C08_conn_reader_total :
  forall payload p, conn_reader_step payload <> Panic p.
Proof. intros payload. apply np_spec. apply conn_reader_step_total. Qed.

Theorem C08_client_reader_total :
  forall known payload, bytes_ok payload -> forall p, client_reader_step known payload <> Panic p.
Proof. intros k b H. apply np_spec. apply client_reader_step_total. exact H. Qed.

(** recognising tcp.pong by its constructor id alone would not do *)
Theorem C08_conn_reader_pong_by_magic_only_refuted :
  exists payload, length payload = 4%nat /\ conn_reader_step_gen false payload = Panic PIndex.
Proof. exact conn_reader_pong_by_magic_only_refuted. Qed.

(** tlb/dns.go, the capability list of dns_smc_address and the protocol list of
    dns_adnl_address: for every head decoder that consumes at least one bit when it
    succeeds, and every content of the cell, the loop returns (a value or an error)
    within one iteration per bit - and the design that skips an undecodable head does not. *)
Theorem C08_dns_list_total :
  forall item, (forall s r, item s = Some r -> (length r < length s)%nat) ->
  forall s : list bool,
    (dns_list item false (S (length s)) s <> Err EFuel) /\
    (forall p, dns_list item false (S (length s)) s <> Panic p).
Proof.
  intros item Hp s. destruct (dns_list_total item Hp s) as [Hf Hn]. split; [exact Hf|].
  intros p E. rewrite E in Hn. exact Hn.
Qed.

Theorem C08_dns_list_skipping_heads_refuted :
  forall item, (forall s r, item s = Some r -> (length r < length s)%nat) ->
  forall fuel, dns_list item true fuel [true] = Err EFuel.
Proof. exact dns_list_truncated_after_next_refuted. Qed.

(** ParsePacket: whatever length the 4-byte size field announces, what is allocated before the
    data has arrived stays within the limit constant of the model (4 + 8 MiB); a successful
    parse allocated at least that; a window up to 12 MiB would not do. *)
Theorem C08_packet_prealloc_bounded :
  forall stream, packet_prealloc stream <= 4 + max_packet.
Proof. exact packet_prealloc_bounded. Qed.

Theorem C08_packet_window_12mib_refuted :
  exists s, length s = 4%nat /\ 4 + max_packet < packet_prealloc_with (12 * 1048576) s.
Proof. exact packet_window_12mib_refuted. Qed.

(** Non-vacuity: a schema with a vector of structs satisfies [sok], decoding a
    valid encoding succeeds and consumes it. *)
Example C08_sok_satisfiable :
  let B := [mkbinding "P"%string (GStruct [("A"%string, GU32); ("B"%string, GU64)]) MNone
                      (UPlain [Field (["A"%string], None); Field (["B"%string], None)])] in
  sok B 16 3 (GSlice (GNamed "P"%string)) = true /\
  exists v s, tl_unmarshal B 3 (GSlice (GNamed "P"%string))
                [1; 0; 0; 0;  7; 0; 0; 0;  9; 0; 0; 0; 0; 0; 0; 0] = (Ok v, s) /\ t_inp s = [].
Proof. vm_compute. split; [reflexivity|]. eexists. eexists. split; reflexivity. Qed.
