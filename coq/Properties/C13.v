(** C13 — the connection pool picks a healthy, current server and its waits
    never hang.  Statements only.

    Status on today's code (see the comments at each theorem):
      selection rule ......... proved for all pools except the class "an alive
                               connection whose head is 2^32-1" (REFUTED there, F15)
      waiter contract ........ proved (success iff a sufficient head of the best
                               connection was received; timeout always enabled)
      pool never blocks ...... REFUTED: three reachable permanent deadlocks (F14 and
                               two involving the connection lock and the 10-slot
                               update buffer); proved: there is no other way for the
                               holder of the pool lock to be unable to move. *)
From Coq Require Import List NArith ZArith Bool.
From Tongo Require Import Model.Pool Model.PoolWait Proofs.PoolP
  Proofs.PoolWaitP Proofs.PoolWaitMsgP Proofs.PoolWaitW.
Import ListNotations.

(** ---- selection rule (any number of connections) ---- *)

(** The literal code, with its own notion of "current" ([seqno+1 >= max] in uint32):
    the result is a usable connection of minimal round-trip time and first among
    equals (best-ping) / the first usable one (first-working); the previous choice
    if there is none, if the pool is empty, or if the strategy is unknown. *)
Theorem C13_update_best_literal :
  forall st cs prev,
    is_choice st (fun c => usable_go (max_seqno cs) c = true) cs prev (update_best st cs prev).
Proof. exact update_best_literal. Qed.
Print Assumptions C13_update_best_literal.

(** The property's clause, with "current" = at most one block behind the newest
    head known to the pool.  PARTIAL: holds for every pool in which no alive
    connection has head seqno 2^32-1; missing: exactly that class (next lemma). *)
Theorem C13_update_best_spec_partial :
  forall st cs prev,
    no_alive_at_wrap cs ->
    is_choice st (eligible cs) cs prev (update_best st cs prev).
Proof. exact update_best_spec_partial. Qed.
Print Assumptions C13_update_best_spec_partial.

(** F15: the clause is false without the guard — the only connection is alive,
    its head 2^32-1 is the newest head, and it is not selected. *)
Theorem C13_update_best_spec_refuted :
  exists st cs prev, ~ is_choice st (eligible cs) cs prev (update_best st cs prev).
Proof. exact update_best_spec_refuted. Qed.

(** the guard excludes exactly the defective class: literal and intended
    eligibility differ on a connection iff it is alive with head 2^32-1 *)
Theorem C13_wrap_is_only_gap :
  forall cs c, In c cs ->
    (eligible cs c <->
     usable_go (max_seqno cs) c = true \/ (c_alive c = true /\ seq32 c = wrap_seqno)).
Proof. exact wrap_is_only_gap. Qed.

(** ---- waiter contract (any number of waiters and connections, all interleavings) ---- *)

(** A waiter has left its loop with nil / returned nil only if it received a head
    at or beyond its target, and that head (c,h) was published for the connection
    that was bestConn at that moment ([log], characterised by the next theorem),
    a head connection c had really reached. *)
Theorem C13_wait_success :
  forall nconns tgt heads b s w,
    reachable nconns tgt (init_state heads b) s ->
    (wpc s w = WUnsub ROk \/ wpc s w = WDone ROk) ->
    exists c h, wgot s w = Some (c, h) /\ (tgt w <= h)%N /\ In (c, h) (log s) /\ (h <= head s c)%N.
Proof. exact wait_success. Qed.
Print Assumptions C13_wait_success.

Theorem C13_wait_success_iff :
  forall nconns tgt heads b s w,
    reachable nconns tgt (init_state heads b) s ->
    ((wpc s w = WUnsub ROk \/ wpc s w = WDone ROk) <->
     exists m, wgot s w = Some m /\ (tgt w <= snd m)%N).
Proof. exact wait_success_iff. Qed.

Theorem C13_log_from_best :
  forall nconns tgt s l s',
    step nconns tgt s l = Some s' ->
    log s' = log s \/
    exists c h, log s' = log s ++ [(c, h)] /\ best s = Some c /\
      ((exists w, l = LSubBody w /\ h = head s c) \/
       (exists o, l = LRLock o /\ rpc s = RWantR (c, h))).
Proof. exact log_from_best. Qed.

(** the timeout / cancel branch of a waiting caller is always enabled; the
    success branch is taken as soon as a sufficient head is in its channel; an
    error result comes from the timeout / cancel branch only *)
Theorem C13_wait_leave_enabled :
  forall nconns tgt s w r,
    wpc s w = WWait -> r <> ROk ->
    exists s', step nconns tgt s (LLeave w r) = Some s' /\ wpc s' w = WUnsub r.
Proof. exact wait_leave_enabled. Qed.

Theorem C13_wait_recv_enabled :
  forall nconns tgt s w m,
    wpc s w = WWait -> wch s w = Some m ->
    exists s', step nconns tgt s (LRecv w) = Some s' /\
      wpc s' w = (if (tgt w <=? snd m)%N then WUnsub ROk else WWait) /\ wch s' w = None.
Proof. exact wait_recv_enabled. Qed.

Theorem C13_wait_error :
  forall nconns tgt s l s' w r,
    step nconns tgt s l = Some s' -> wpc s' w = WUnsub r -> wpc s w <> WUnsub r -> r <> ROk ->
    l = LLeave w r.
Proof. exact wait_error. Qed.

(** PARTIAL (wait_returns): after leaving the loop the caller still has to run the
    deferred unsubscribe, which needs the pool's write lock; it is enabled iff the
    lock is free — and the lock is never freed in the deadlocks below. *)
Theorem C13_wait_return_enabled_partial :
  forall nconns tgt s w r,
    wpc s w = WUnsub r -> (step nconns tgt s (LUnsub w) <> None <-> lock_free s = true).
Proof. exact wait_return_enabled. Qed.

(** ---- the pool lock ---- *)

Theorem C13_pool_lock_mutex :
  forall nconns tgt heads b s,
    reachable nconns tgt (init_state heads b) s ->
    (writer s <> None -> readers s = 0) /\
    (forall w w', wpc s w = WSubL -> wpc s w' = WSubL -> w = w') /\
    (forall w k, wpc s w = WSubL -> rpc s <> RUpd k).
Proof. exact pool_lock_mutex. Qed.

(** PARTIAL: in every reachable state the holder of the pool lock has an enabled
    step unless (a) Run, holding the read lock in notifySubscribers, is sending
    into a full waiter channel, or (b) the write-lock holder (updateBest or
    subscribe) waits for the lock of a connection that is inside SetMasterHead.
    Missing: those two classes, in which the statement is false (below). *)
Theorem C13_pool_never_blocks_partial :
  forall nconns tgt heads b s,
    reachable nconns tgt (init_state heads b) s ->
    ~ notify_blocked s -> ~ connlock_blocked s -> holder_can_step nconns tgt s.
Proof. exact pool_never_blocks_partial. Qed.
Print Assumptions C13_pool_never_blocks_partial.

(** (a) resolves iff the owner of the full channel is still in its loop;
    (b) resolves iff the update buffer has room *)
Theorem C13_notify_blocked_transient :
  forall nconns tgt s u w rem m,
    rpc s = RNotify u (w :: rem) -> wch s w = Some m -> wpc s w = WWait ->
    step nconns tgt s (LRecv w) <> None.
Proof. exact notify_blocked_transient. Qed.

Theorem C13_connlock_blocked_transient :
  forall nconns tgt s c h,
    cpc s c = CPub h -> length (updq s) < upd_cap -> step nconns tgt s (LPublish c) <> None.
Proof. exact connlock_blocked_transient. Qed.

(** F14, REFUTED: two head updates while a waiter times out.  From the reached
    state on, in EVERY continuation, the lock holder (Run) has no enabled step
    and the timed-out caller never returns. *)
Theorem C13_pool_never_blocks_refuted :
  exists nconns tgt heads b s,
    reachable nconns tgt (init_state heads b) s /\
    forall s', reachable nconns tgt s s' ->
      ~ holder_can_step nconns tgt s' /\ wpc s' 0 = WUnsub RTimeout.
Proof. exact pool_never_blocks_refuted. Qed.
Print Assumptions C13_pool_never_blocks_refuted.

(** ... and while it lasts nobody can subscribe, unsubscribe, refresh the best
    connection or consume further head updates *)
Theorem C13_f14_freezes_pool :
  forall nconns tgt u w rem r s,
    f14_dead u w rem r s ->
    (forall w', step nconns tgt s (LSubLock w') = None) /\
    (forall w', step nconns tgt s (LUnsub w') = None) /\
    step nconns tgt s LTick = None /\ step nconns tgt s LTake = None /\
    step nconns tgt s LSend = None /\ step nconns tgt s LRUnlock = None.
Proof. exact f14_dead_freezes. Qed.

(** REFUTED, second deadlock: 11 head updates not yet consumed, then the ticker
    branch: updateBest (write lock) waits for c.mu, SetMasterHead (c.mu) waits for
    buffer space, only Run frees buffer space. *)
Theorem C13_pool_never_blocks_refuted_updatebest :
  exists nconns tgt heads b s,
    reachable nconns tgt (init_state heads b) s /\
    forall s', reachable nconns tgt s s' ->
      ~ holder_can_step nconns tgt s' /\ rpc s' = RUpd 0.
Proof. exact pool_never_blocks_refuted_updatebest. Qed.

(** REFUTED, third deadlock: same buffer condition with a subscriber as the
    write-lock holder and Run waiting for the read lock. *)
Theorem C13_pool_never_blocks_refuted_subscribe :
  exists nconns tgt heads b s,
    reachable nconns tgt (init_state heads b) s /\
    forall s', reachable nconns tgt s s' ->
      ~ holder_can_step nconns tgt s' /\ wpc s' 0 = WSubL /\ rpc s' = RWantR (0, 1%N).
Proof. exact pool_never_blocks_refuted_subscribe. Qed.

(** ---- non-vacuity ---- *)

(** three connections: 0 one block behind and slow, 1 dead, 2 current and fast;
    a fourth two blocks behind.  All premises of the partial theorem hold. *)
Example C13_selection_example :
  let cs := [mkConn true 99 30; mkConn false 100 1; mkConn true 100 5; mkConn true 98 1] in
  no_alive_at_wrap cs /\ eligible cs (mkConn true 99 30) /\ ~ eligible cs (mkConn true 98 1) /\
  update_best BestPing cs None = Some 2 /\ update_best FirstWorking cs None = Some 0.
Proof.
  cbv zeta. split; [|split; [|split; [|split]]].
  - intros c Hin Ha. cbn [In] in Hin.
    destruct Hin as [<-|[<-|[<-|[<-|[]]]]]; vm_compute; discriminate.
  - split; [reflexivity|]. vm_compute. discriminate.
  - intros [_ H]. vm_compute in H. apply H. reflexivity.
  - vm_compute. reflexivity.
  - vm_compute. reflexivity.
Qed.

(** a complete successful wait: subscribe(10) at head 5, head 12 arrives, Run
    notifies, the waiter receives 12 and returns nil; the registry is empty again *)
Example C13_wait_example :
  exists s,
    run 1 (fun _ => 10%N) (init_state (fun _ => 5%N) (Some 0))
      [LSubLock 0; LSubBody 0; LSetHead 0 12; LPublish 0; LTake; LRLock [0]; LSend; LRUnlock;
       LRecv 0; LUnsub 0] = Some s /\
    wpc s 0 = WDone ROk /\ wgot s 0 = Some (0, 12%N) /\ wl s = [] /\ readers s = 0 /\ writer s = None.
Proof. eexists. split; [vm_compute; reflexivity|]. repeat apply conj; reflexivity. Qed.
