(** C13 — the connection pool picks a healthy, current server and its waits
    never hang.  Statements only; the model is the model of the REPAIRED code
    (four repairs in liteapi/pool, see Proofs/PoolHistory.v for the defective
    versions and their witnesses).

      selection rule ......... for every pool, both strategies, every previous choice
      waiter contract ........ success iff a sufficient head of the best connection
                               was received; a sufficient head sent to a waiting
                               caller is never lost; every notification reaches every
                               registered waiter; timeout / cancel always enabled;
                               a caller that left its loop returns
      pool never blocks ...... in every reachable state the holder of the pool lock
                               has an enabled step and frees the lock by its own
                               moves; Run always gets back to its select; a
                               SetMasterHead waiting for buffer space completes

    All theorems quantify over any number of connections, waiters and head updates
    and over all interleavings (the LTS of Model/PoolWait.v).  The pool lock is modelled
    with Go's writer preference (an announced Lock() blocks new RLock()s), every
    acquisition of the write lock is two steps (announce, acquire); the step function's
    flag [false] is the real code, [true] the variant whose notifySubscribers re-acquires
    the read lock (refuted at the end; Properties/C13_gen.v re-checks on the source that
    no method re-acquires a lock it holds). *)
From Coq Require Import List NArith ZArith Bool Sorting.Sorted Sorting.Permutation.
From Tongo Require Import Model.Pool Model.PoolWait Proofs.PoolP
  Proofs.PoolWaitP Proofs.PoolWaitMsgP Proofs.PoolWaitIdP Proofs.PoolWaitFifoP Proofs.PoolWaitW Proofs.PoolMutants Proofs.PoolAddP.
Import ListNotations.

(** ---- selection rule (any number of connections) ---- *)

(** Among the connections that are alive and at most one block behind the newest
    head known to the pool ([eligible]) the result is the one of minimal round-trip
    time, first among equals (best-ping) / the first one in configuration order
    (first-working); if there is none — or the pool is empty, or the strategy is
    unknown — the previous choice is kept. *)
Theorem C13_update_best_spec :
  forall st cs prev, is_choice st (eligible cs) cs prev (update_best st cs prev).
Proof. exact update_best_spec. Qed.
Print Assumptions C13_update_best_spec.

(** head updates that land INSIDE a refresh: updateBest reads every head twice (maximum,
    then the find functions) holding only the pool lock; [cs1] is what the first loop read,
    [cs2] what the second reads.  The choice is the property's choice among the connections
    that are alive and at most one block behind the newest head the first loop saw; a head
    that has risen above that maximum keeps its connection a candidate *)
Theorem C13_update_best_racing_heads :
  forall st cs1 cs2 prev,
    is_choice st (fun c => c_alive c = true /\ (newest cs1 - seq32 c <= 1)%N) cs2 prev
              (update_best2 st cs1 cs2 prev).
Proof. exact update_best2_spec. Qed.
Print Assumptions C13_update_best_racing_heads.

Theorem C13_update_best_racing_picks_current :
  forall st cs1 cs2 prev i c1 c2,
    st <> OtherStrategy -> heads_rose cs1 cs2 ->
    nth_error cs1 i = Some c1 -> nth_error cs2 i = Some c2 ->
    (newest cs1 - seq32 c1 <= 1)%N -> c_alive c2 = true ->
    exists j d, update_best2 st cs1 cs2 prev = Some j /\ nth_error cs2 j = Some d /\
                c_alive d = true /\ (newest cs1 - seq32 d <= 1)%N.
Proof. exact update_best2_picks_current. Qed.

(** the same inside the protocol: every refresh step of the LTS, whatever the first loop read *)
Theorem C13_refresh_choice :
  forall strat nconns tgt s obs old s',
    step strat false false nconns tgt s (LUpdDone obs old) = Some s' ->
    let cs1 := mk_conns nconns (first_read (head s) old) obs in
    let cs2 := mk_conns nconns (head s) obs in
    best s' = update_best2 strat cs1 cs2 (best s) /\
    is_choice strat (fun c => c_alive c = true /\ (newest cs1 - seq32 c <= 1)%N) cs2 (best s) (best s').
Proof. exact refresh_choice. Qed.

(** REFUTED for the currency test written as the uint32 difference maxSeqno - seqno <= 1
    (equal to the code's test on every snapshot): a head rising between the two reads wraps it
    and the refresh keeps a dead connection although an alive one has the newest head *)
Theorem C13_racing_head_refuted_sub32 :
  heads_rose race_cs1 race_cs2 /\
  update_best2_sub32 BestPing race_cs1 race_cs2 (Some 0) = Some 0 /\
  update_best2_sub32 FirstWorking race_cs1 race_cs2 (Some 0) = Some 0 /\
  ~ is_choice BestPing (fun c => c_alive c = true /\ (newest race_cs1 - seq32 c <= 1)%N) race_cs2 (Some 0)
      (update_best2_sub32 BestPing race_cs1 race_cs2 (Some 0)) /\
  update_best2 BestPing race_cs1 race_cs2 (Some 0) = Some 1 /\
  update_best2 FirstWorking race_cs1 race_cs2 (Some 0) = Some 1.
Proof. exact update_best_racing_head_refuted_sub32. Qed.

(** the two halves read out *)
Theorem C13_update_best_picks_eligible :
  forall st cs prev c, st <> OtherStrategy -> In c cs -> eligible cs c ->
    exists i d, update_best st cs prev = Some i /\ nth_error cs i = Some d /\ eligible cs d.
Proof. exact update_best_picks_eligible. Qed.

Theorem C13_update_best_keeps_prev :
  forall st cs prev, (forall c, In c cs -> ~ eligible cs c) -> update_best st cs prev = prev.
Proof. exact update_best_keeps_prev. Qed.

(** the code's test is the property's notion of "current", with no overflow *)
Theorem C13_usable_iff_eligible :
  forall cs c, usable_go (max_seqno cs) c = true <-> eligible cs c.
Proof. exact usable_iff_eligible. Qed.

(** "configuration order" is the order of the pool: whatever the order in which the
    connections arrive (InitializeConnections dials concurrently), after every sequence of
    addConnection calls the pool holds exactly the arrived connections in ascending id
    (= configuration index) order *)
Theorem C13_add_all_sorted :
  forall arrival, StronglySorted le (add_all arrival) /\ Permutation arrival (add_all arrival).
Proof. exact add_all_sorted. Qed.

Theorem C13_add_all_config_order :
  forall arrival, NoDup arrival -> StronglySorted lt (add_all arrival).
Proof. exact add_all_config_order. Qed.

(** ... so under first-working the chosen connection has the smallest configuration index
    among the eligible ones, for every arrival order *)
Theorem C13_first_working_config_order :
  forall arrival (obs : nat -> conn) prev i,
    NoDup arrival ->
    let ids := add_all arrival in
    let cs := map obs ids in
    update_best FirstWorking cs prev = Some i ->
    forall j d, nth_error cs j = Some d -> eligible cs d -> nth i ids 0 <= nth j ids 0.
Proof. exact first_working_config_order. Qed.
Print Assumptions C13_first_working_config_order.

(** ---- waiter contract (any number of waiters and connections, all interleavings) ---- *)

(** A waiter has left its loop with nil / returned nil only if it received a head
    at or beyond its target, and that head (c,h) was published for the connection
    that was bestConn at that moment ([log], characterised by C13_log_from_best),
    a head connection c had really reached. *)
Theorem C13_wait_success :
  forall strat nconns tgt heads b s w,
    reachable strat false false nconns tgt (init_state heads b) s ->
    succeeded (wpc s w) ->   (* = WUnsub ROk, WUnsubW ROk or WDone ROk *)
    exists c h, wgot s w = Some (c, h) /\ (tgt w <= h)%N /\ In (c, h) (log s) /\ (h <= head s c)%N.
Proof. exact wait_success. Qed.
Print Assumptions C13_wait_success.

Theorem C13_wait_success_iff :
  forall strat nconns tgt heads b s w,
    reachable strat false false nconns tgt (init_state heads b) s ->
    (succeeded (wpc s w) <-> exists m, wgot s w = Some m /\ (tgt w <= snd m)%N).
Proof. exact wait_success_iff. Qed.

Theorem C13_log_from_best :
  forall strat nconns tgt s l s',
    step strat false false nconns tgt s l = Some s' ->
    log s' = log s \/
    exists c h, log s' = log s ++ [(c, h)] /\ best s = Some c /\
      ((exists w, l = LSubBody w /\ h = head s c) \/
       (exists o, l = LRLock o /\ rpc s = RWantR (c, h))).
Proof. exact log_from_best. Qed.

(** BestMasterchainClient (and BestClientByAccountID / ByBlockID through it) on a pool whose
    choice has no head yet is the waiter with target 1 that hands the RECEIVED head to its
    caller: that head is >= 1 and was reported by the connection that was the best one when it
    was sent — also when the best connection switches while the call waits *)
Theorem C13_first_head_received :
  forall strat nconns tgt heads b s w,
    tgt w = 1%N ->
    reachable strat false false nconns tgt (init_state heads b) s -> succeeded (wpc s w) ->
    exists c h, wgot s w = Some (c, h) /\ (1 <= h)%N /\ In (c, h) (log s) /\ (h <= head s c)%N.
Proof.
  intros strat nconns tgt heads b s w Ht Hr Hs.
  destruct (wait_success strat nconns tgt heads b s w Hr Hs) as (c & h & H1 & H2 & H3 & H4).
  exists c, h. rewrite Ht in H2. auto.
Qed.

(** REFUTED for the design that hands out the head of the connection captured at call time
    instead: after a switch of the best connection during the wait the call succeeds while
    that connection is still at the all-zero head *)
Theorem C13_reread_captured_head_refuted :
  exists s, reachable BestPing false false 2 (fun _ => 1%N) (init_state (fun _ => 0%N) (Some 0)) s /\
    wpc s 0 = WUnsub ROk /\ wgot s 0 = Some (1, 8%N) /\ best s = Some 1 /\
    head s 0 = 0%N /\ ~ (1 <= head s 0)%N.
Proof. exact reread_captured_head_refuted. Qed.

(** ... immediately at subscribe if the best connection is already there *)
Theorem C13_wait_immediate :
  forall strat nconns tgt s w b,
    wpc s w = WSubL -> writer s = Some (AW w) -> best s = Some b -> (tgt w <= head s b)%N ->
    exists s1 s2, step strat false false nconns tgt s (LSubBody w) = Some s1 /\
                  step strat false false nconns tgt s1 (LRecv w) = Some s2 /\ wpc s2 w = WUnsub ROk /\
                  writer s1 = None /\ wl s1 = wl s.
Proof. exact wait_immediate. Qed.

(** completeness: once a head at or beyond the target has been sent to a caller that
    is still in its loop, a sufficient head IS in its channel and its receive step
    returns success (the non-blocking notification replaces a pending head only by
    one with a larger seqno) *)
Theorem C13_wait_not_missed :
  forall strat nconns tgt heads b s w m,
    reachable strat false false nconns tgt (init_state heads b) s ->
    wpc s w = WWait -> In m (woff s w) -> (tgt w <= snd m)%N ->
    exists m' s', wch s w = Some m' /\ (tgt w <= snd m')%N /\
                  step strat false false nconns tgt s (LRecv w) = Some s' /\ wpc s' w = WUnsub ROk.
Proof. exact wait_not_missed. Qed.
Print Assumptions C13_wait_not_missed.

(** ... and a head of the best connection that Run has finished notifying has been
    sent to every waiter registered at that moment *)
Theorem C13_notify_reaches_all :
  forall strat nconns tgt heads b s u,
    reachable strat false false nconns tgt (init_state heads b) s -> rpc s = RNotify u true [] ->
    forall id w, In (id, w) (wl s) -> In u (woff s w).
Proof. exact notify_reaches_all. Qed.

(** the timeout / cancel branch of a waiting caller is always enabled; the
    success branch is taken as soon as a sufficient head is in its channel; an
    error result comes from the timeout / cancel branch only *)
Theorem C13_wait_leave_enabled :
  forall strat nconns tgt s w r,
    wpc s w = WWait -> r <> ROk ->
    exists s', step strat false false nconns tgt s (LLeave w r) = Some s' /\ wpc s' w = WUnsub r.
Proof. exact wait_leave_enabled. Qed.

Theorem C13_wait_error :
  forall strat nconns tgt s l s' w r,
    step strat false false nconns tgt s l = Some s' -> wpc s' w = WUnsub r -> wpc s w <> WUnsub r -> r <> ROk ->
    l = LLeave w r.
Proof. exact wait_error. Qed.

(** a caller that has left its loop (nil, timeout or cancellation) returns: after moves
    of the pool's own goroutines (the lock holder finishes, an announced writer is
    served) its deferred unsubscribe announces itself, gets the lock and deletes its
    own registration *)
Theorem C13_wait_returns :
  forall strat nconns tgt heads b s w r,
    reachable strat false false nconns tgt (init_state heads b) s -> wpc s w = WUnsub r ->
    exists ls s', forallb internal ls = true /\
      run strat false false nconns tgt s (ls ++ [LUnsubWant w; LUnsub w]) = Some s' /\ wpc s' w = WDone r /\
      (forall e, In e (wl s') -> fst e <> wid s w).
Proof. exact wait_returns. Qed.
Print Assumptions C13_wait_returns.

(** ---- wait-list ids: a satisfied caller's unsubscribe(0) removes nobody ---- *)

(** subscribe hands out id 0 with nothing registered (head already in the caller's
    channel), or a fresh non-zero id under which the caller is registered *)
Theorem C13_subscribe_ids :
  forall strat nconns tgt heads b s w s',
    reachable strat false false nconns tgt (init_state heads b) s ->
    step strat false false nconns tgt s (LSubBody w) = Some s' ->
    (wid s' w = 0%N /\ wl s' = wl s /\ wch s' w <> None) \/
    (wid s' w <> 0%N /\ wl s' = wl s ++ [(wid s' w, w)] /\ forall e, In e (wl s) -> fst e <> wid s' w) \/
    wpc s' w = WPanicked.
Proof. exact subscribe_ids. Qed.

Theorem C13_registered_id_nonzero :
  forall strat nconns tgt heads b s id w,
    reachable strat false false nconns tgt (init_state heads b) s -> In (id, w) (wl s) -> id <> 0%N /\ wid s w = id.
Proof. exact registered_id_nonzero. Qed.

Theorem C13_unsub_satisfied_removes_nobody :
  forall strat nconns tgt heads b s w s',
    reachable strat false false nconns tgt (init_state heads b) s -> wid s w = 0%N ->
    step strat false false nconns tgt s (LUnsub w) = Some s' -> wl s' = wl s.
Proof. exact unsub_satisfied_removes_nobody. Qed.
Print Assumptions C13_unsub_satisfied_removes_nobody.

Theorem C13_unsub_removes_only_own :
  forall strat nconns tgt heads b s w s',
    reachable strat false false nconns tgt (init_state heads b) s ->
    step strat false false nconns tgt s (LUnsub w) = Some s' ->
    forall e, In e (wl s) -> (In e (wl s') <-> snd e <> w).
Proof. exact unsub_removes_only_own. Qed.

(** a registered waiter stays registered until its own unsubscribe, so a sufficient
    head of the best connection that Run has finished notifying is in its channel and
    its receive returns success *)
Theorem C13_waiter_stays_registered :
  forall strat nconns tgt heads b s w,
    reachable strat false false nconns tgt (init_state heads b) s -> subscribed (wpc s w) = true -> wid s w <> 0%N ->
    In (wid s w, w) (wl s).
Proof. exact waiter_stays_registered. Qed.

Theorem C13_registered_waiter_gets_head :
  forall strat nconns tgt heads b s w u,
    reachable strat false false nconns tgt (init_state heads b) s -> wpc s w = WWait -> wid s w <> 0%N ->
    rpc s = RNotify u true [] -> (tgt w <= snd u)%N ->
    exists m' s', wch s w = Some m' /\ (tgt w <= snd m')%N /\
                  step strat false false nconns tgt s (LRecv w) = Some s' /\ wpc s' w = WUnsub ROk.
Proof. exact registered_waiter_gets_head. Qed.
Print Assumptions C13_registered_waiter_gets_head.

(** ---- the pool never blocks ---- *)

Theorem C13_pool_lock_mutex :
  forall strat nconns tgt heads b s,
    reachable strat false false nconns tgt (init_state heads b) s ->
    (writer s <> None -> readers s = 0) /\
    (forall w w', wpc s w = WSubL -> wpc s w' = WSubL -> w = w') /\
    (forall w, wpc s w = WSubL -> rpc s <> RUpd).
Proof. exact pool_lock_mutex. Qed.

(** in every reachable state the holder of the pool lock (updateBest, subscribe, or
    Run inside notifySubscribers) has an enabled step *)
Theorem C13_pool_never_blocks :
  forall strat nconns tgt heads b s,
    reachable strat false false nconns tgt (init_state heads b) s -> holder_can_step strat false false nconns tgt s.
Proof. exact pool_never_blocks. Qed.
Print Assumptions C13_pool_never_blocks.

(** no goroutine asks for p.mu while it holds p.mu (no recursive locking) *)
Theorem C13_no_reacquire :
  forall strat nconns tgt heads b s,
    reachable strat false false nconns tgt (init_state heads b) s ->
    (forall a, wreq s = Some a -> writer s = None /\ (a = ARun -> readers s = 0)) /\
    (forall u, rpc s = RWantR u -> readers s = 0 /\ writer s <> Some ARun) /\
    (forall u, rpc s <> RInner u).
Proof. exact no_reacquire. Qed.

(** no reachable deadlock on the pool lock, under writer preference: moves of the
    pool's own goroutines free the lock and serve the announced writer *)
Theorem C13_lock_released :
  forall strat nconns tgt heads b s,
    reachable strat false false nconns tgt (init_state heads b) s ->
    exists ls s', forallb internal ls = true /\ run strat false false nconns tgt s ls = Some s' /\
                  lock_free s' = true /\ wreq s' = None.
Proof. exact lock_released. Qed.
Print Assumptions C13_lock_released.

(** Run is live: from every reachable state it gets back to its select by moves of
    the pool's own goroutines only (no new head, no new caller, no timeout needed),
    leaving the update buffer untouched *)
Theorem C13_run_is_live :
  forall strat nconns tgt heads b s,
    reachable strat false false nconns tgt (init_state heads b) s ->
    exists ls s', forallb internal ls = true /\ run strat false false nconns tgt s ls = Some s' /\ rpc s' = RIdle /\
                  updq s' = updq s /\ pend s' = pend s.
Proof. exact run_gets_home. Qed.

(** SetMasterHead holds the connection lock only for a non-blocking critical section
    (one step of the model, [LSetHead], always enabled) ... *)
Theorem C13_set_head_enabled :
  forall strat nconns tgt s c h, step strat false false nconns tgt s (LSetHead c h) <> None.
Proof. exact set_head_enabled. Qed.

(** ... and its send into the update buffer, done after the unlock, completes: at
    once if the buffer has room, otherwise after Run has taken one update *)
Theorem C13_publish_completes :
  forall strat nconns tgt heads b s k m,
    reachable strat false false nconns tgt (init_state heads b) s -> nth_error (pend s) k = Some m ->
    exists ls s', forallb internal ls = true /\
                  run strat false false nconns tgt s (ls ++ [LPublish k]) = Some s' /\ In m (updq s').
Proof. exact publish_completes. Qed.
Print Assumptions C13_publish_completes.

(** a connection's head never decreases *)
Theorem C13_head_monotone :
  forall strat nconns tgt s s' c,
    reachable strat false false nconns tgt s s' -> (head s c <= head s' c)%N.
Proof. exact head_monotone_reachable. Qed.

(** in a pool with at least one connection the best connection is always one of the
    pool's connections and subscribe never dereferences nil *)
Theorem C13_subscribe_never_panics :
  forall strat nconns tgt heads b s,
    b < nconns -> reachable strat false false nconns tgt (init_state heads (Some b)) s ->
    (exists b', best s = Some b' /\ b' < nconns) /\ forall w, wpc s w <> WPanicked.
Proof. exact subscribe_never_panics. Qed.

(** ---- Run handles the queued head updates one by one, in FIFO order ---- *)

(** along every run: what was queued plus what was published is exactly what Run took,
    in that order, followed by what is still queued (nothing lost, merged or reordered) *)
Theorem C13_run_fifo :
  forall strat nconns tgt ls s s' tk pb,
    run_log strat nconns tgt s ls = Some (s', tk, pb) -> updq s ++ pb = tk ++ updq s'.
Proof. exact run_fifo. Qed.
Print Assumptions C13_run_fifo.

Theorem C13_take_one_oldest :
  forall strat nconns tgt s s',
    step strat false false nconns tgt s LTake = Some s' ->
    exists u rest, rpc s = RIdle /\ updq s = u :: rest /\ updq s' = rest /\ rpc s' = RWantR u.
Proof. exact take_one_oldest. Qed.

(** the update taken is the one notifySubscribers is called with *)
Theorem C13_taken_is_notified :
  forall strat nconns tgt s u o s',
    rpc s = RWantR u -> step strat false false nconns tgt s (LRLock o) = Some s' ->
    exists rem, rpc s' = RNotify u (same_best s (fst u)) rem /\ updq s' = updq s /\
                (same_best s (fst u) = false -> rem = []).
Proof. exact taken_is_notified. Qed.

(** REFUTED for the design in which Run merges everything queued into the update with the
    highest seqno: a registered waiter whose target the best connection has reached —
    published, consumed by Run, nothing in flight — has been sent nothing *)
Theorem C13_coalescing_run_refuted :
  exists strat nconns tgt heads b s,
    reachable strat false true nconns tgt (init_state heads b) s /\
    wpc s 0 = WWait /\ In (wid s 0, 0) (wl s) /\ best s = Some 0 /\ (tgt 0%nat <= head s 0%nat)%N /\
    updq s = [] /\ pend s = [] /\ rpc s = RIdle /\ wch s 0 = None /\ woff s 0 = [].
Proof. exact wait_success_refuted_coalescing_run. Qed.

(** ---- why the lock model matters: the re-entrant variant deadlocks ---- *)

(** REFUTED for the variant of notifySubscribers that takes p.mu.RLock() again while
    holding it: one head update being notified while a caller arrives *)
Theorem C13_reentrant_rlock_refuted :
  exists strat nconns tgt heads b s,
    reachable strat true false nconns tgt (init_state heads b) s /\
    forall s', reachable strat true false nconns tgt s s' ->
      ~ holder_can_step strat true false nconns tgt s' /\ rpc s' = RInner (0, 1%N) /\ wpc s' 0 = WSubW.
Proof. exact pool_never_blocks_refuted_reentrant_rlock. Qed.

(** ---- non-vacuity ---- *)

(** three connections: 0 one block behind and slow, 1 dead, 2 current and fast;
    a fourth two blocks behind; and the former F15 witness *)
Example C13_selection_example :
  let cs := [mkConn true 99 30; mkConn false 100 1; mkConn true 100 5; mkConn true 98 1] in
  eligible cs (mkConn true 99 30) /\ ~ eligible cs (mkConn true 98 1) /\
  update_best BestPing cs None = Some 2 /\ update_best FirstWorking cs None = Some 0 /\
  update_best BestPing [mkConn true 4294967295 1] None = Some 0.
Proof.
  cbv zeta. split; [|split; [|split; [|split]]].
  - split; [reflexivity|]. vm_compute. discriminate.
  - intros [_ H]. vm_compute in H. apply H. reflexivity.
  - vm_compute. reflexivity.
  - vm_compute. reflexivity.
  - vm_compute. reflexivity.
Qed.

(** a complete successful wait, and the schedule of the former F14 deadlock
    running to completion *)
Example C13_wait_example :
  exists s,
    run BestPing false false 1 (fun _ => 10%N) (init_state (fun _ => 5%N) (Some 0))
      [LSubWant 0; LSubLock 0; LSubBody 0; LSetHead 0 12; LPublish 0; LTake; LRLock [0]; LSend; LRUnlock;
       LRecv 0; LUnsubWant 0; LUnsub 0] = Some s /\
    wpc s 0 = WDone ROk /\ wgot s 0 = Some (0, 12%N) /\ wl s = [] /\ readers s = 0 /\ writer s = None.
Proof. exact wait_example. Qed.

Example C13_f14_schedule_completes :
  exists s, run BestPing false false 1 w_tgt (init_state (fun _ => 5%N) (Some 0)) f14_trace = Some s /\
    wpc s 0 = WDone RTimeout /\ wch s 0 = Some (0, 7%N) /\ wl s = [] /\
    readers s = 0 /\ writer s = None /\ rpc s = RIdle.
Proof. exact f14_trace_completes. Qed.
