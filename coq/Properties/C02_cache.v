(** C02, second part — the hash does not depend on the caching hasher or on
    what was asked before (histories of requests on ONE hasher, failing
    requests included), and cells produced by the library's proof builder
    carry the level masks of the TON rule (so their Level() and higher-level
    hashes are the TON values).  Statements only; [H] is any hash function. *)
From Coq Require Import List NArith Arith Bool.
From Tongo Require Import Lib.Bits Lib.Res Spec.Sha256 Model.BocParse Model.CellHash Spec.ReprHash
  Model.HasherCache Model.Merkle Proofs.BocParseP Proofs.CellHashP Proofs.HasherCacheP
  Proofs.C02History Proofs.C02Masks Proofs.C02Depth.
Import ListNotations.

(** *** one caching hasher *)

(** newImmutableCell with ANY cache whose entries are right for their keys
    returns what a fresh evaluation (CellHash.eval_dag, Cell.Hash()) returns —
    the same error when that fails — and leaves such a cache behind, also when
    it fails. *)
Theorem C02_hash_cache_independent :
  forall (H : bytes -> bytes) cells, refs_forward cells ->
  forall fuel ch i, cache_ok H cells ch -> (length cells - i < fuel)%nat ->
  cache_ok H cells (fst (new_imm_gen H false cells fuel ch i)) /\
  snd (new_imm_gen H false cells fuel ch i) = fresh_imm H cells i.
Proof. exact hash_cache_independent. Qed.
Print Assumptions C02_hash_cache_independent.

Theorem C02_failed_evaluation_leaves_correct_cache :
  forall (H : bytes -> bytes) cells, refs_forward cells ->
  forall fuel ch i ch' e, cache_ok H cells ch -> (length cells - i < fuel)%nat ->
  new_imm_gen H false cells fuel ch i = (ch', Err e) ->
  cache_ok H cells ch' /\ fresh_imm H cells i = Err e.
Proof. exact failed_evaluation_leaves_correct_cache. Qed.

(** Every answer of every history of Hasher.Hash / Hasher.HashString requests
    on one hasher (any cells of the array, any order, any repetition, failing
    requests in between) is the answer of that request alone on a fresh map. *)
Theorem C02_hasher_history_fresh :
  forall (H : bytes -> bytes) cells, refs_forward cells ->
  forall ops, hasher_run H false cells new_hasher ops = map (fresh_op H cells) ops.
Proof. intros H cells Hfw ops. apply hasher_history_fresh; [exact Hfw|apply new_hasher_ok]. Qed.
Print Assumptions C02_hasher_history_fresh.

Theorem C02_hasher_history_position :
  forall (H : bytes -> bytes) cells, refs_forward cells ->
  forall before o after,
  nth_error (hasher_run H false cells new_hasher (before ++ o :: after)) (length before) =
  Some (fresh_op H cells o).
Proof. exact hasher_history_position. Qed.

(** the premise holds for every array the parser returns (C07 parse_sound) *)
Theorem C02_parsed_arrays_refs_forward : forall cells, dag_wf cells -> refs_forward cells.
Proof. exact dag_wf_refs_forward. Qed.

(** Not vacuous: a hasher that registers a cell in its cache BEFORE building it
    answers the depth-limit error once and crashes on the next request. *)
Theorem C02_register_before_build_refuted :
  nth_error (hasher_run sha256 true wit_cells new_hasher wit_history) 0 = Some (Err EDepth) /\
  nth_error (hasher_run sha256 true wit_cells new_hasher wit_history) 1 = Some (Panic PIndex) /\
  nth_error (hasher_run sha256 true wit_cells new_hasher wit_history) 2 = Some (Panic PIndex) /\
  hasher_run sha256 true wit_cells new_hasher wit_history <> map (fresh_op sha256 wit_cells) wit_history /\
  hasher_run sha256 false wit_cells new_hasher wit_history = map (fresh_op sha256 wit_cells) wit_history.
Proof. exact register_before_build_refuted. Qed.

(** *** cells produced by the proof builder *)

(** In a tree whose masks obey the rule (pruned: stored mask; Merkle: OR of the
    children >> 1; others: OR of the children) every mask field — hence
    Level() — is a function of the content alone. *)
Theorem C02_consistent_level_is_ton_level :
  forall c, masks_consistent c ->
  cell_mask c = ton_mask c /\ mask_level (cell_mask c) = ton_level c.
Proof. intros c Hc. split; [apply consistent_mask_is_ton_mask|apply consistent_level_is_ton_level]; exact Hc. Qed.

(** pruneCells keeps the rule, for every source tree obeying it with masks 0/1
    (ordinary and library cells, bodies of earlier proofs) and every pruned set *)
Theorem C02_prune_masks_consistent :
  forall (H : bytes -> bytes) c pruned path c',
  masks_consistent c -> masks_le1 c -> prune H pruned path c = Ok c' ->
  masks_consistent c' /\ masks_le1 c' /\ sub_mask (cell_mask c) (cell_mask c').
Proof. exact prune_masks_consistent. Qed.

(** CreateProof and ProveKeyInHashmap return trees that obey the rule, with
    masks below 8 and a Merkle-proof root of level 0 ... *)
Theorem C02_create_proof_masks_consistent :
  forall (H : bytes -> bytes) root pruned p,
  masks_consistent root -> masks_le1 root -> create_proof H pruned root = Ok p ->
  masks_consistent p /\ masks_ok p /\ ton_level p = 0%nat.
Proof. exact create_proof_masks_consistent. Qed.
Print Assumptions C02_create_proof_masks_consistent.

Theorem C02_prove_key_masks_consistent :
  forall (H : bytes -> bytes) root key vbits p,
  masks_consistent root -> masks_le1 root -> prove_key H root key vbits = Ok p ->
  masks_consistent p /\ masks_ok p.
Proof. exact prove_key_masks_consistent. Qed.

(** ... so the implementation's Hash(l) / Depth(l) of a built proof are the
    declarative TON values at every level (C02_impl_hash_is_spec applies). *)
Theorem C02_built_proof_hash_is_spec :
  forall (H : bytes -> bytes) root pruned p im,
  masks_consistent root -> masks_le1 root -> create_proof H pruned root = Ok p ->
  imm_of H p = Ok im ->
  forall l, imm_hash im l = Ok (ih im l) /\ imm_depth im l = Ok (idp im l) /\
            hd_at H p l = Ok (ih im l, idp im l).
Proof.
  intros H root pruned p im Hc Hl Hp Him l.
  destruct (create_proof_masks_consistent H root pruned p Hc Hl Hp) as (_ & Hok & _).
  destruct (impl_hash_is_spec H p im Hok Him) as (W & A). destruct (W l). auto.
Qed.

(** Not vacuous: raising the level only of the DIRECT parent of a pruned
    branch leaves the grandparent with mask 0 where the rule gives 1. *)
Theorem C02_direct_parent_only_refuted :
  let pb := pruned_cell (repeat 0%N 32) 0 in
  let inner := Cell false 0 (direct_parent_only 0 [pb]) [true] [pb] in
  let outer := Cell false 0 (direct_parent_only 0 [inner]) [false] [inner] in
  masks_consistent inner /\ ~ masks_consistent outer /\ cell_mask outer = 0%N /\ ton_mask outer = 1%N.
Proof. exact direct_parent_only_refuted. Qed.

(** Non-vacuity of the premises with SHA-256: a cell array with forward
    references on which a request fails, and a consistent source tree pruned two
    steps below its root whose proof is built and has a level-1 body. *)
Example C02_cache_premises_satisfiable :
  refs_forward wit_cells /\
  fresh_hash sha256 wit_cells 0 = Err EDepth /\
  let leaf := Cell false 0 0 [true; true] [] in
  let mid := Cell false 0 0 [false] [leaf] in
  let root := Cell false 0 0 [true] [mid; Cell false 0 0 [] []] in
  masks_consistent root /\ masks_le1 root /\
  exists data body,
    create_proof sha256 (fun p => match p with [0%nat; 0%nat] => true | _ => false end) root =
      Ok (Cell true T_MPROOF 0 data [body]) /\
    cell_mask body = 1%N.
Proof.
  split; [exact wit_refs_forward|]. split; [vm_compute; reflexivity|]. cbn zeta.
  split; [cbn; repeat split; try reflexivity; intros X; discriminate X|].
  split; [cbn; repeat split; reflexivity|].
  eexists. eexists. split; [vm_compute; reflexivity|reflexivity].
Qed.

(** *** depth limit at every level *)

(** A cell for which newImmutableCell returns hashes has Depth(l) <= 1024 at
    EVERY level l (the limit is checked inside the loop over the levels). *)
Theorem C02_depth_limit_every_level :
  forall (H : bytes -> bytes) special ty mask l refs im lev d,
  is_pruned special ty = false ->
  build_imm H special ty mask l refs = Ok im -> imm_depth im lev = Ok d -> (d <= 1024)%N.
Proof. exact depth_limit_every_level. Qed.
Print Assumptions C02_depth_limit_every_level.

(** Not vacuous: the level-0 depth does not bound the depths of the higher
    levels (a pruned branch stores one depth per level), so checking the limit
    only at level 0 would hash a cell of level 2 whose level-1 depth is 1025. *)
Theorem C02_level0_check_insufficient_refuted :
  res_map snd (hd_at sha256 wit_level2_parent 0) = Ok 6%N /\
  res_map snd (hd_at sha256 wit_pruned2 1) = Ok 1024%N /\
  hd_at sha256 wit_level2_parent 1 = Err EDepth /\
  imm_of sha256 wit_level2_parent = Err EDepth /\
  masks_ok wit_level2_parent.
Proof. exact level0_check_insufficient_refuted. Qed.

(** *** results are values *)

(** Not vacuous: a hasher that returns views of one scratch buffer answers
    every request correctly at the moment of the call (the answers are the fresh
    ones), yet the first answer the caller still holds shows the second. *)
Theorem C02_scratch_buffer_refuted :
  let answers := hasher_run sha256 false wit_two_cells new_hasher [OpHash 0; OpHash 1] in
  answers = map (fresh_op sha256 wit_two_cells) [OpHash 0; OpHash 1] /\
  nth_error (end_view_scratch answers) 0 = nth_error answers 1 /\
  end_view_scratch answers <> answers.
Proof. exact scratch_buffer_refuted. Qed.

(** *** the one-shot entry points: Cell.Hash / Hash256 / HashString *)

(** Every answer of every history of one-shot requests — the application may
    write into its cells between the calls, so each step carries the cell array
    as it is at that moment; failing requests included — is the fresh answer
    on the present cells: nothing an earlier call did can show. *)
Theorem C02_one_shot_history_fresh :
  forall (H : bytes -> bytes) steps,
  Forall (fun s => refs_forward (fst s)) steps ->
  one_shot_run H steps = map (fun s => fresh_hash H (fst s) (snd s)) steps.
Proof. exact one_shot_history_fresh. Qed.
Print Assumptions C02_one_shot_history_fresh.

(** A package-level scratch map shared by the one-shot calls is unobservable
    when it is emptied after EVERY call ... *)
Theorem C02_scratch_cleared_is_one_shot :
  forall (H : bytes -> bytes) steps, scratch_run H false [] steps = one_shot_run H steps.
Proof. exact scratch_cleared_is_one_shot. Qed.

(** ... and not when it survives a failed call (seeded mutation C02-r8m1):
    Hash(top) fails with the depth limit after the sub-tree below was recorded,
    the application writes into that sub-tree, and the next Hash of it answers
    the hash of the OLD content. *)
Theorem C02_shared_scratch_kept_on_error_refuted :
  os_is_err (nth_error (scratch_run os_id true [] os_steps) 0) = true /\
  nth_error (scratch_run os_id true [] os_steps) 1 = Some (one_shot os_id (os_cells [true]) 1) /\
  os_len (nth_error (scratch_run os_id true [] os_steps) 1) <> os_len (nth_error (one_shot_run os_id os_steps) 1) /\
  scratch_run os_id false [] os_steps = one_shot_run os_id os_steps.
Proof. exact shared_scratch_kept_on_error_refuted. Qed.
