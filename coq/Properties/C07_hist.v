(** C07 — refuted alternative of the root-count check of parseBocHeader
    (design history).  Statements only. *)
From Coq Require Import NArith Lia.
From Tongo Require Import Proofs.C07History.
Local Open Scope N_scope.

(** The shipped check establishes roots <= remaining bytes before the root
    list is allocated. *)
Theorem C07_root_check_bounds :
  forall rem roots size, shipped_check_passes rem roots size = true -> roots <= rem.
Proof. exact shipped_check_bounds. Qed.
Print Assumptions C07_root_check_bounds.

(** "len < roots*size computed in uint" does not: with a counter width of 8
    (lean magic) a root count of 2^61 passes in front of an empty rest, and
    make([]uint, 0, 2^61) exceeds every allocation bound. *)
Theorem C07_wrapping_product_check_refuted :
  exists rem roots size,
    roots < two64 /\ 1 <= size < 256 /\
    product_check_passes rem roots size = true /\
    ~ roots <= rem /\ 2 ^ 48 < 8 * roots.
Proof. exact product_check_refuted. Qed.
Print Assumptions C07_wrapping_product_check_refuted.

(** It is sound where the product cannot wrap, e.g. under the generic magic
    (size <= 7, roots < 2^56). *)
Theorem C07_product_check_sound_without_wrap :
  forall rem roots size, 1 <= size -> roots * size < two64 ->
  product_check_passes rem roots size = true -> roots <= rem.
Proof. exact product_check_sound_without_wrap. Qed.

Theorem C07_generic_magic_cannot_wrap :
  forall roots size, size <= 7 -> roots < 2 ^ 56 -> roots * size < two64.
Proof. exact generic_magic_cannot_wrap. Qed.
