(** C19 obligations over data translated from /repo's current source
    (Generated/TonConnectConsts.v is rewritten by harness/cmd/translate genC19 on every run):
    the constants and tables of tonconnect/server.go, wallet/models.go, wallet/wallet_v*.go and
    abi/get_methods.go that the model of CheckProof uses. *)
From Coq Require Import String List NArith ZArith Arith Bool.
From Tongo Require Import Lib.Bits Lib.Res Spec.Sha256 Model.BocParse Model.CellHash
     Model.TonConnect Generated.TonConnectConsts.
Import ListNotations.

(* the two prefixes of the signed message *)
Theorem C19_gen_prefixes :
  gen_tonProofPrefix = tonProofPrefix /\ gen_tonConnectPrefix = tonConnectPrefix.
Proof. split; vm_compute; reflexivity. Qed.

Theorem C19_gen_lifetimes :
  gen_defaultLifeTimeProof = defaultLifeTimeProof /\ gen_defaultLifeTimePayload = defaultLifeTimePayload.
Proof. split; reflexivity. Qed.

(* the get-method asked of the account is get_public_key:
   id = (crc16/XMODEM(name) land 0xffff) lor 0x10000 *)
Fixpoint crc16_bit (k : nat) (c : N) : N :=
  match k with
  | O => c
  | S k' =>
      let c2 := N.shiftl c 1 in
      crc16_bit k' (N.land (if N.testbit c 15 then N.lxor c2 4129 else c2) 65535)
  end.
Definition crc16 (l : list N) : N :=
  fold_left (fun c b => crc16_bit 8 (N.lxor c (N.shiftl b 8))) l 0%N.

Theorem C19_gen_method_id :
  gen_get_public_key_method = N.lor (crc16 (bytes_of_string "get_public_key")) 65536.
Proof. vm_compute. reflexivity. Qed.

(* knownHashes is filled for the versions 0 .. V5R1, in order *)
Theorem C19_gen_known_range :
  gen_known_lower = 0%N /\ gen_known_upper = 11%N /\
  map fst gen_known_hashes = map N.of_nat (seq 0 12).
Proof. repeat split; vm_compute; reflexivity. Qed.

(* the switch of ParseStateInit, as read by the translator (case labels -> data type ->
   offset of PublicKey, HashmapE after it), is the table the model uses; a version in
   knownHashes without a case label is an error (default clause), not a zero key *)
Definition switch_lookup (v : N) : option layout :=
  match find (fun e => N.eqb (fst e) v) gen_switch with
  | Some (_, (off, d)) => Some (mkLayout (N.to_nat off) (N.eqb d 1))
  | None => None
  end.

Definition layout_eqb (a b : option layout) : bool :=
  match a, b with
  | Some x, Some y => Nat.eqb (l_off x) (l_off y) && Bool.eqb (l_dict x) (l_dict y)
  | None, None => true
  | _, _ => false
  end.

Theorem C19_gen_switch :
  forallb (fun v => layout_eqb (version_layout v) (switch_lookup v))
          (map N.of_nat (seq 0 (N.to_nat gen_version_count))) = true /\
  gen_switch_default_is_error = true.
Proof. split; vm_compute; reflexivity. Qed.

(* exactly one version with a known hash has no data layout: V3R2Lockup (7) *)
Theorem C19_gen_versions_without_layout :
  filter (fun v => match version_layout v with None => true | Some _ => false end)
         (map fst gen_known_hashes) = [7%N].
Proof. vm_compute. reflexivity. Qed.

(* the code hashes: recomputed from the code BOC bytes of wallet/models.go with the Coq
   models of the BOC parser (C07) and of the representation hash (C02) over Gallina SHA-256 *)
Definition code_hash (b : list N) : option (list N) :=
  match parse_boc b with
  | Ok p =>
      match p_roots p with
      | [r] =>
          match nth_error (eval_dag sha256 0 (p_cells p)) r with
          | Some (Ok c) => match cell_hash c with Ok h => Some h | _ => None end
          | _ => None
          end
      | _ => None
      end
  | _ => None
  end.

Definition code_of (v : N) : list N :=
  match find (fun e => N.eqb (fst e) v) gen_code_bocs with Some (_, b) => b | None => [] end.

Definition opt_bytes_eqb (a : option (list N)) (b : list N) : bool :=
  match a with Some x => beqb x b | None => false end.

Theorem C19_gen_code_hashes :
  forallb (fun e => opt_bytes_eqb (code_hash (code_of (fst e))) (snd e)) gen_known_hashes = true.
Proof. vm_compute. reflexivity. Qed.

(* the hashes are pairwise different, so the lookup by hash identifies the version *)
Fixpoint distinct (l : list (list N)) : bool :=
  match l with
  | [] => true
  | x :: t => forallb (fun y => negb (beqb x y)) t && distinct t
  end.

Theorem C19_gen_hashes_distinct : distinct (map snd gen_known_hashes) = true.
Proof. vm_compute. reflexivity. Qed.

(* every hash is 32 bytes *)
Theorem C19_gen_hash_lengths :
  forallb (fun e => Nat.eqb (length (snd e)) 32) gen_known_hashes = true.
Proof. vm_compute. reflexivity. Qed.
