(** C09, TL-B half — what a passing check means for a Go type tlb/parser generated.

    Level: translation validation with a proved checker.  There is no theorem
    about tlb/parser for all schemas (that needs a semantics of Go).  Instead,
    for every schema the harness generates, the *generated program* (its struct
    types, read by reflection into a descriptor d) is checked against the
    meaning s of the declaration by [tlb_check s d] under vm_compute; the
    theorems below say what that buys: for ALL values, the reflection codec
    driven by the generated type writes exactly the bits and references the
    declaration prescribes, and decoding inverts encoding.

    Statements only; proofs are C04's refines_sound / encode_is_schema
    (Proofs/TlbSchemaP.v) and C03's generic_roundtrip (Proofs/TlbCoreC.v).
    "Generating twice gives identical output" has no Coq content: it is an
    equality of two strings, decided by the harness (kind c09.determinism). *)
From Coq Require Import List NArith ZArith Bool.
From Tongo Require Import Lib.Bits Lib.Res Model.TlbCore Spec.TlbSchema Model.C09CheckTlb
     Proofs.TlbCoreP Proofs.TlbCoreC Proofs.TlbSchemaP.
Import ListNotations.

Lemma tlb_check_parts s d : tlb_check s d = true ->
  refines (fuel_of [] d) s d = true /\ wf_ty [] d = true.
Proof.
  unfold tlb_check, tlb_check_list. cbn [forallb]. intros H.
  apply andb_true_iff in H as [H1 H]. apply andb_true_iff in H as [H2 _]. split; assumption.
Qed.

(** The cell tlb.Marshal builds from a value of the generated type is the
    schema's serialisation of that value: same bits, same references. *)
Theorem C09_tlb_generated_type_encodes_as_declared : forall s d,
  tlb_check s d = true ->
  forall v c, encode [] d v = Ok c ->
  exists bs rs, spec_encode s v = Some (bs, rs) /\ c = CT bs rs.
Proof.
  intros s d Hc v c He. destruct (tlb_check_parts s d Hc) as [Hr _].
  unfold encode in He. destruct (enc [] (fuel_of [] d) d v empty_bld) as [b| |] eqn:E; try discriminate.
  inversion He; subst c. destruct (encode_is_schema _ _ _ _ _ _ _ Hr E) as (bs & rs & Hs & Hb & Hrf).
  exists bs, rs. split; [exact Hs|]. unfold finish. rewrite Hb, Hrf. reflexivity.
Qed.
Print Assumptions C09_tlb_generated_type_encodes_as_declared.

(** ... also in the middle of a cell under construction (a field of a larger value). *)
Theorem C09_tlb_generated_type_appends_as_declared : forall fuel s d env v b b',
  refines fuel s d = true -> enc env fuel d v b = Ok b' ->
  exists bs rs, spec_encode s v = Some (bs, rs) /\ bb b' = bb b ++ bs /\ br b' = br b ++ rs.
Proof. exact encode_is_schema. Qed.

(** Decoding inverts encoding, consuming the whole cell. *)
Theorem C09_tlb_decode_inverts_encode : forall s d,
  tlb_check s d = true ->
  forall v c, in_domain [] d v = true -> encode [] d v = Ok c ->
  decode [] d c = Ok (v, mks [] []).
Proof.
  intros s d Hc v c Hd He. destruct (tlb_check_parts s d Hc) as [_ Hw].
  exact (generic_roundtrip [] d v c Hw Hd He).
Qed.
Print Assumptions C09_tlb_decode_inverts_encode.

(** Hence the decoder reads back the value from the schema's serialisation. *)
Theorem C09_tlb_decodes_the_declared_serialisation : forall s d,
  tlb_check s d = true ->
  forall v c, in_domain [] d v = true -> encode [] d v = Ok c ->
  exists bs rs, spec_encode s v = Some (bs, rs) /\ decode [] d (CT bs rs) = Ok (v, mks [] []).
Proof.
  intros s d Hc v c Hd He.
  destruct (C09_tlb_generated_type_encodes_as_declared s d Hc v c He) as (bs & rs & Hs & ->).
  exists bs, rs. split; [exact Hs|]. exact (C09_tlb_decode_inverts_encode s d Hc v _ Hd He).
Qed.

(** The checker discriminates: each of these descriptors is what a plausible
    generator mistake would produce for the declaration on the left. *)
Example C09_tlb_checker_rejects :
  (* a:uint8 b:uint16  —  fields swapped *)
  tlb_check (SSeq [SUint 8; SUint 16]) (TStruct [TUint 16; TUint 8]) = false /\
  (* a:(## 5)  —  wrong width *)
  tlb_check (SSeq [SUint 5]) (TStruct [TUint 8]) = false /\
  (* a:int7  —  signedness lost *)
  tlb_check (SSeq [SInt 7]) (TStruct [TUint 7]) = false /\
  (* c#ab12 a:Bool  —  wrong tag value, wrong tag width, tag dropped *)
  tlb_check (SSeq [STag 16 0xab12; SBool]) (TStruct [TMagic 16 0xab13; TBool]) = false /\
  tlb_check (SSeq [STag 16 0xab12; SBool]) (TStruct [TMagic 12 0xab1; TBool]) = false /\
  tlb_check (SSeq [STag 16 0xab12; SBool]) (TStruct [TBool]) = false /\
  (* x$0 | y$1 a:uint8  —  constructors in the wrong order / tags exchanged *)
  tlb_check (SAlt [(1%nat, 0%N, SSeq []); (1%nat, 1%N, SSeq [SUint 8])])
            (TSum [(1%nat, 1%N, TStruct []); (1%nat, 0%N, TStruct [TUint 8])]) = false /\
  (* a:^uint8  —  reference dropped;  a:(Maybe ^uint8)  —  inline instead of a reference *)
  tlb_check (SSeq [SRef (SUint 8)]) (TStruct [TUint 8]) = false /\
  tlb_check (SSeq [SMaybe (SRef (SUint 8))]) (TStruct [TMaybe (TUint 8)]) = false /\
  (* a:(Either uint8 ^uint16)  —  what tlb/parser emits today for this form (outside
     the supported subset): tlb.Either[uint8, uint16], the ^ is lost *)
  tlb_check (SSeq [SEither (SUint 8) (SRef (SUint 16))]) (TStruct [TEither (TUint 8) (TUint 16)]) = false /\
  (* a:(VarUInteger 16)  —  wrong length-prefix bound *)
  tlb_check (SSeq [SVar 16]) (TStruct [TVarUInt 32]) = false /\
  (* a:(HashmapE 8 uint16)  —  inline instead of Maybe ^ *)
  tlb_check (SSeq [SDictE 8]) (TStruct [TMaybe TAny]) = false /\
  (* tags that shadow each other: refines, but the decoder would not invert *)
  tlb_check (SAlt [(1%nat, 1%N, SSeq [SUint 1]); (2%nat, 3%N, SSeq [])])
            (TSum [(1%nat, 1%N, TStruct [TUint 1]); (2%nat, 3%N, TStruct [])]) = false.
Proof. vm_compute. repeat split. Qed.

(** Non-vacuity: a declaration with a tag, a conditional reference, an Either
    and a dictionary; the descriptor tlb/parser's output has for it passes, and
    a value has the serialisation one writes down by hand. *)
Example C09_tlb_premises_satisfiable :
  (* transfer#0f8a7ea5 query_id:uint64 amount:(VarUInteger 16) custom:(Maybe ^[ a:uint8 ])
     fwd:(Either uint8 ^uint8) book:(HashmapE 32 uint16) = Transfer; *)
  let s := SSeq [STag 32 0x0f8a7ea5; SUint 64; SVar 16; SMaybe (SRef (SSeq [SUint 8]));
                 SEither (SUint 8) (SRef (SUint 8)); SDictE 32] in
  let d := TStruct [TMagic 32 0x0f8a7ea5; TUint 64; TVarUInt 16; TMaybeRef (TStruct [TUint 8]);
                    TEitherRef (TUint 8); TMaybeRef TAny] in
  let v := VStruct [VUnit; VN 7; VN 300; VMaybe (Some (VStruct [VN 5])); VEither true (VN 9); VMaybe None] in
  tlb_check s d = true /\ in_domain [] d v = true /\
  exists c, encode [] d v = Ok c /\
            spec_encode s v = Some (ct_bits c, ct_refs c) /\
            ct_refs c = [CT (bits_of 8 5) []; CT (bits_of 8 9) []] /\
            decode [] d c = Ok (v, mks [] []).
Proof. vm_compute. repeat split. eexists. repeat split. Qed.
