(** C10 obligations over today's source: Generated/TlSchema.v is lite_api.tl,
    Generated/TlBindings.v is the structure of every MarshalTL / UnmarshalTL
    method and of every request method of Client of liteclient/generated.go
    and extensions.go (both rewritten by harness/cmd/translate on every run).
    Each [vm_compute] below re-runs the checker of Model/TlMatch.v; the
    theorems after them instantiate Properties/C10.v, so that the for-all-
    values statements hold for the checked-in bindings. *)
From Coq Require Import String List NArith Arith Bool.
From Tongo Require Import Lib.Bits Lib.Res Spec.TlWire Model.Tl Model.TlMatch Model.TlHand
     Proofs.TlWireP Proofs.TlGoP Proofs.TlApiP Proofs.TlHandP Generated.TlSchema Generated.TlBindings Generated.TlCopies.
Import ListNotations.
Local Open Scope N_scope.

Definition gonm : naming := go_naming tl_types.

(** * the schema is well formed *)
(* constructor ids pairwise distinct inside each boxed type *)
Theorem C10_gen_ids_distinct : ids_distinct tl_types = true.
Proof. vm_compute. reflexivity. Qed.

(* every mode.N? refers to an earlier # field, N <= 31, field names distinct, ids below 2^32 *)
Theorem C10_gen_decls_ok : forallb decl_ok (tl_types ++ tl_functions) = true.
Proof. vm_compute. reflexivity. Qed.

(* the translator understood every line: no "?unparsed" names, the file is not empty *)
Definition parsed (d : decl) : bool :=
  negb (String.prefix "?" (dname d)) &&
  forallb (fun f => negb (String.prefix "?" (fname f))) (dfields d).
Theorem C10_gen_schema_parsed :
  forallb parsed (tl_types ++ tl_functions) = true /\
  (40 <=? length tl_types)%nat = true /\ (25 <=? length tl_functions)%nat = true.
Proof. vm_compute. repeat split; reflexivity. Qed.

(** * every declaration and function has its binding, every field type is served *)
Theorem C10_gen_matches_all : matches_all tl_types tl_functions tl_bindings = true.
Proof. vm_compute. reflexivity. Qed.

(* every type of the types section can be used on its own (bare if single, boxed if a sum) *)
Theorem C10_gen_decl_types_served :
  forallb (fun d => ty_ok tl_types tl_bindings (decl_ty tl_types d)) tl_types = true.
Proof. vm_compute. reflexivity. Qed.

(* every TL binding of the Go package is called for by the schema: nothing hand-edited on the side *)
Theorem C10_gen_no_stray_binding : no_stray tl_types tl_functions tl_bindings = true.
Proof. vm_compute. reflexivity. Qed.

(* one request method per function: name, request type, request id, error id, result id and type *)
Theorem C10_gen_methods_ok : methods_ok tl_types tl_functions tl_methods = true.
Proof. vm_compute. reflexivity. Qed.

(* taggedRequestDecodeFunctions: one row per function under its own id *)
Theorem C10_gen_request_table_ok : table_ok tl_functions tl_request_table = true.
Proof. vm_compute. reflexivity. Qed.

(** * hence, for all values *)
Theorem C10_gen_bindings_sound : forall d, In d tl_types ->
  exists g, goty (decl_ty tl_types d) = Some g /\
  forall v e, tl_encode gonm tl_types (decl_ty tl_types d) v = Some e ->
    go_marshal tl_bindings g v = Ok e /\
    forall rest, exists st, go_unmarshal tl_bindings g (e ++ rest) = (Ok v, st) /\ inp st = rest.
Proof.
  intros d Hd.
  pose proof C10_gen_decl_types_served as Hs. rewrite forallb_forall in Hs. specialize (Hs d Hd).
  assert (Hg : exists g, goty (decl_ty tl_types d) = Some g)
    by (unfold decl_ty; destruct (single tl_types d); eexists; reflexivity).
  destruct Hg as (g & Hg). exists g. split; [exact Hg|]. intros v e He.
  exact (binding_roundtrip tl_types tl_functions tl_bindings C10_gen_matches_all _ g v e
           C10_gen_ids_distinct Hs Hg He).
Qed.

Theorem C10_gen_requests_sound : forall f, In f tl_functions ->
  exists m, In m tl_methods /\ m_name m = camel (dname f) /\
  (forall v e, tl_request gonm tl_types f v = Some e ->
     go_request tl_bindings m (match dfields f with [] => None | _ => Some v end) = Ok e /\
     firstn 4 e = le_bytes 4 (did f)) /\
  (forall v e, tl_encode gonm tl_types (TBoxed (dres f)) v = Some e ->
     go_response tl_bindings m e = Ok (RResult v)) /\
  (forall v e, tl_encode gonm tl_types (TBoxed "liteServer.Error") v = Some e ->
     go_response tl_bindings m e = Ok (RError v)).
Proof.
  intros f Hf. pose proof C10_gen_methods_ok as Hm. unfold methods_ok in Hm.
  apply andb_true_iff in Hm as [_ Hm]. rewrite forallb_forall in Hm. specialize (Hm f Hf).
  apply existsb_exists in Hm as (m & Hin & Hmm). exists m. split; [exact Hin|].
  assert (Hname : m_name m = camel (dname f)).
  { pose proof Hmm as Hn. unfold matches_method in Hn. do 7 (apply andb_true_iff in Hn as [Hn _]).
    apply andb_true_iff in Hn as [_ Hn]. apply String.eqb_eq; exact Hn. }
  split; [exact Hname|]. repeat split.
  - exact (request_refines tl_types tl_functions tl_bindings C10_gen_matches_all f m v e Hf Hmm H).
  - exact (proj1 (request_starts_with_id gonm tl_types f v e H)).
  - intros v e He.
    exact (response_result tl_types tl_functions tl_bindings C10_gen_matches_all f m v e
             C10_gen_ids_distinct Hf Hmm He).
  - intros v e He.
    destruct (find_ctor tl_types "liteServer.error") as [e0|] eqn:E0; [|vm_compute in E0; discriminate].
    assert (Hr : dres e0 = "liteServer.Error"%string) by (vm_compute in E0; inversion E0; reflexivity).
    rewrite <- Hr in He.
    exact (response_error tl_types tl_functions tl_bindings C10_gen_matches_all f m v e
             C10_gen_ids_distinct Hmm e0 E0 He).
Qed.

(** * the hand-written codecs against today's declarations *)
Definition has_fields (c : string) (fs : list field) : bool :=
  match find_ctor tl_types c with
  | Some d => list_eqb (fun a b => String.eqb (fname a) (fname b) &&
                          match fcond a, fcond b with None, None => true | _, _ => false end &&
                          match goty (fty a), goty (fty b) with
                          | Some x, Some y => gty_eqb x y | _, _ => false end &&
                          match fty a, fty b with
                          | TInt, TInt | TLong, TLong | TInt256, TInt256 => true | _, _ => false end)
                (dfields d) fs
  | None => false
  end.

Theorem C10_gen_hand_declarations :
  has_fields "liteServer.accountId" fields_account_id = true /\
  has_fields "tonNode.blockId" fields_block_id = true /\
  has_fields "tonNode.blockIdExt" fields_block_id_ext = true.
Proof. vm_compute. repeat split; reflexivity. Qed.

Lemma has_fields_sound c fs : has_fields c fs = true ->
  exists d, find_ctor tl_types c = Some d /\ dfields d = fs.
Proof.
  unfold has_fields. destruct (find_ctor tl_types c) as [d|]; [|discriminate]. intros H.
  exists d. split; [reflexivity|]. revert H. apply list_eqb_eq.
  intros [n1 c1 t1] [n2 c2 t2]; cbn [fname fcond fty]. intros H.
  repeat (apply andb_true_iff in H as [H ?]). apply String.eqb_eq in H. subst n2.
  destruct c1, c2; try discriminate. destruct t1, t2; try discriminate; reflexivity.
Qed.

(* ton.AccountID, ton.BlockID, ton.BlockIDExt write what lite_api.tl says, for all values *)
Theorem C10_gen_hand_codecs_sound :
  (forall w a, w < two32 -> hash_ok a ->
     tl_encode gonm tl_types (TBare "liteServer.accountId") (val_account_id w a)
       = Some (hand_account_marshal w a)) /\
  (forall w sh sq, w < two32 -> sh < two64 -> sq < two32 ->
     tl_encode gonm tl_types (TBare "tonNode.blockId") (val_block_id w sh sq)
       = Some (hand_blockid_marshal w sh sq)) /\
  (forall w sh sq rh fh, w < two32 -> sh < two64 -> sq < two32 -> hash_ok rh -> hash_ok fh ->
     tl_encode gonm tl_types (TBare "tonNode.blockIdExt") (val_block_id_ext w sh sq rh fh)
       = Some (hand_blockidext_marshal w sh sq rh fh)).
Proof.
  destruct C10_gen_hand_declarations as (H1 & H2 & H3).
  apply has_fields_sound in H1 as (d1 & F1 & D1). apply has_fields_sound in H2 as (d2 & F2 & D2).
  apply has_fields_sound in H3 as (d3 & F3 & D3).
  repeat split; intros.
  - apply (hand_account_layout tl_types d1); assumption.
  - apply (hand_block_id_layout tl_types d2); assumption.
  - apply (hand_block_id_ext_layout tl_types d3); assumption.
Qed.

(** * Client.Request writes today's adnl.message.query, for all ids and queries *)
Theorem C10_gen_adnl_query_sound : forall id q,
  hash_ok id -> all_bytes q = true -> N.of_nat (length q) < two24 ->
  tl_encode gonm tl_types (TBoxed "adnl.Message") (val_adnl_query id q) = Some (lc_request_payload id q).
Proof.
  intros id q Hi Hq Hl.
  destruct (find (fun d => String.eqb "AdnlMessageQuery" (xlbl gonm d)) (ctors_of tl_types "adnl.Message"))
    as [d|] eqn:Hf; [|vm_compute in Hf; discriminate].
  apply (lc_request_is_adnl_query tl_types d id q Hf); auto.
  - vm_compute in Hf. inversion Hf. reflexivity.
  - vm_compute in Hf. inversion Hf. reflexivity.
Qed.

(** * every copy of a primitive TL codec in tl, liteclient, liteapi, ton is one the harness drives
    (Generated/TlCopies.v: functions containing the literal 254, places containing a Bool id) *)
Local Open Scope string_scope.
Theorem C10_gen_length_copies :
  tl_length_sites =
    [("tl/decoder.go", "readByteSlice");          (* kinds c10.unmarshal, c10.cunmarshal, c10.bunmarshal *)
     ("tl/encoder.go", "EncodeLength");           (* c10.enclen, c10.cmarshal, c10.bmarshal *)
     ("liteclient/client.go", "encodeLength");    (* c10.lclen, c10.adnlreq *)
     ("liteclient/client.go", "decodeLength")].   (* c10.lcdec, c10.adnlreq *)
Proof. vm_compute. reflexivity. Qed.

Definition bswap32 (x : N) : N := le_num (rev (le_bytes 4 x)).
Theorem C10_gen_bool_copies :
  tl_bool_sites =
    [("tl/decoder.go", "decode", bool_true_id); ("tl/decoder.go", "decode", bool_false_id);
     ("tl/encoder.go", "Marshal", bswap32 bool_true_id);     (* written with binary.BigEndian *)
     ("tl/encoder.go", "Marshal", bswap32 bool_false_id);
     ("liteapi/models.go", "BoolTrueTag", bswap32 bool_true_id);
     ("liteapi/models.go", "BoolFalseTag", bswap32 bool_false_id)].
Proof. vm_compute. reflexivity. Qed.
Local Close Scope string_scope.

Print Assumptions C10_gen_adnl_query_sound.
Print Assumptions C10_gen_hand_codecs_sound.
Print Assumptions C10_gen_bindings_sound.
Print Assumptions C10_gen_requests_sound.
