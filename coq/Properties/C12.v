(** C12 — concurrent lite-client requests each receive their own answer.
    Statements only.  All theorems are about the labelled transition system of
    Model/Client.v and hold for every trace: any number of callers and
    connections, every interleaving, every server behaviour (answers in any
    order, delayed, duplicated, for unknown ids, malformed, pongs, junk) and every
    sequence of connection drops (idle, mid-request, during a reconnect).

    The model is the model of the REPAIRED code: before "fix: do not answer an
    auth nonce without an auth key" a tcp.authentificationNonce packet processed
    while the status was Connecting blocked Connection.reader forever on
    authCompleteChan with Connection.mu held (every later Send hung beyond its
    deadline); reproduced on the real code by the harness (nonce flood, then RST).

    Runtime-only (DESIGN §1.5, not expressible in the model): absence of data
    races, goroutine counts, wall-clock bounds (deadline of the timeout, reconnect
    latency).  Liveness of reconnection needs fairness and is stated as an
    enabled path (partial).  Connections with an auth key (handshake that sends on
    a channel while holding Connection.mu) are not modelled.  Critical sections
    are atomic steps: the three mutexes are never nested on the modelled paths and
    no blocking operation happens under them (checked on the source by the
    harness' go/ast structure check), so mutual exclusion adds no blocked state. *)
From Coq Require Import List NArith Bool.
From Tongo Require Import Model.Client Proofs.ClientP Proofs.ClientHistory.
Import ListNotations.

(** A call that returns data returns an answer the server emitted for that call's
    own query id, and it is the only delivery ever made to that call.  (With
    pairwise distinct ids — math/rand 256-bit ids, assumed — "own id" identifies
    the call; the statement itself needs no such assumption.) *)
Theorem C12_own_answer :
  forall nconn ids s i d,
    reachable nconn ids init_state s ->
    (pc s i = CLeaving (ROk d) \/ pc s i = CReturned (ROk d)) ->
    In (ids i, d) (emitted s) /\ In (i, d) (delivered s) /\
    forall d', In (i, d') (delivered s) -> d' = d.
Proof. exact own_answer. Qed.
Print Assumptions C12_own_answer.

(** ... hence, when the server answers query id [ids j] only with [payload j] and the
    ids are pairwise distinct (256-bit math/rand ids: assumed, visible premise), no
    call ever returns the answer addressed to another call. *)
Theorem C12_no_foreign_answer :
  forall nconn ids (payload : nat -> N) s i d,
    reachable nconn ids init_state s ->
    (forall a b, ids a = ids b -> a = b) ->
    (forall id d', In (id, d') (emitted s) -> exists j, id = ids j /\ d' = payload j) ->
    (pc s i = CLeaving (ROk d) \/ pc s i = CReturned (ROk d)) ->
    d = payload i.
Proof. exact no_foreign_answer. Qed.
Print Assumptions C12_no_foreign_answer.

(** ... and the answer gets through when it arrives while the call waits *)
Theorem C12_answer_gets_through :
  forall nconn ids s i k d rest,
    reachable nconn ids init_state s ->
    pc s i = CSent -> In (ids i, i) (reg s) -> wire s k = PAnswer (ids i) d :: rest ->
    exists s1 s2, step nconn ids s (LDeliver k) = Some s1 /\ step nconn ids s1 (LRecv i) = Some s2 /\
                  pc s2 i = CLeaving (ROk d).
Proof. exact answer_gets_through. Qed.

(** The reader goroutine never blocks: whenever a packet is pending, processing it
    is enabled (every registered channel is empty; duplicates and unknown ids are
    dropped; pongs and junk are skipped). *)
Theorem C12_reader_never_blocks :
  forall nconn ids s k,
    reachable nconn ids init_state s -> wire s k <> [] -> step nconn ids s (LDeliver k) <> None.
Proof. exact reader_never_blocks. Qed.
Print Assumptions C12_reader_never_blocks.

(** A waiting call can always take its timeout branch, and no call that has not
    returned is ever without an enabled step of its own. *)
Theorem C12_timeout_enabled :
  forall nconn ids s i, pc s i = CSent -> step nconn ids s (LTimeout i) <> None.
Proof. exact timeout_enabled. Qed.

Theorem C12_no_stuck_call :
  forall nconn ids s i,
    (forall r, pc s i <> CReturned r) -> exists l, own_label i l /\ step nconn ids s l <> None.
Proof. exact no_stuck_call. Qed.

(** The registry contains entries of calls in flight only (one per id); once all
    calls have returned it is empty: no growth with completed calls. *)
Theorem C12_registry_bounded :
  forall nconn ids s,
    reachable nconn ids init_state s ->
    (forall id i, In (id, i) (reg s) -> id = ids i /\ in_flight (pc s i) = true) /\
    NoDup (map fst (reg s)).
Proof. exact registry_bounded. Qed.

Theorem C12_registry_empty_when_idle :
  forall nconn ids s,
    reachable nconn ids init_state s -> (forall i, in_flight (pc s i) = false) -> reg s = [].
Proof. exact registry_empty_when_idle. Qed.
Print Assumptions C12_registry_empty_when_idle.

(** At most one reconnect loop per connection, exactly while it is Connecting
    (Send succeeds only on a Connected, unbroken connection by definition of step). *)
Theorem C12_single_reconnect :
  forall nconn ids s k,
    reachable nconn ids init_state s -> loops s k <= 1 /\ (loops s k = 1 <-> status s k = false).
Proof. exact single_reconnect. Qed.

Theorem C12_send_only_connected :
  forall nconn ids s i s',
    step nconn ids s (LSendOk i) = Some s' -> exists k, pc s i = CPicked k /\ status s k = true.
Proof. exact send_only_connected. Qed.

Theorem C12_reconnect_can_finish :
  forall nconn ids s k,
    reachable nconn ids init_state s -> status s k = false -> step nconn ids s (LReconnectDone k) <> None.
Proof. exact reconnect_can_finish. Qed.

(** An outage of any length does not disable the reconnection: the attempts of the
    loop are independent (LReconnectFail carries nothing over), so after any number
    of failed attempts and any waiting time the connection is still Connecting and
    the successful attempt is still enabled. *)
Theorem C12_reconnect_done_after_failed_attempts :
  forall nconn ids ls s s' k,
    reachable nconn ids init_state s -> status s k = false ->
    (forall l, In l ls -> waiting_label k l) ->
    exec nconn ids s ls = Some s' ->
    status s' k = false /\ reachable nconn ids init_state s' /\ step nconn ids s' (LReconnectDone k) <> None.
Proof. exact reconnect_done_after_failed_attempts. Qed.
Print Assumptions C12_reconnect_done_after_failed_attempts.

Theorem C12_reconnect_fail_enabled :
  forall nconn ids s k,
    reachable nconn ids init_state s -> status s k = false -> step nconn ids s (LReconnectFail k) = Some s.
Proof. exact reconnect_fail_enabled. Qed.

(** Why each attempt must have a deadline of its own (Proofs/ClientHistory.v, model
    of the loop alone: seconds since its start, finished or not): with per-attempt
    deadlines the first attempt that finds the server up ends the loop after any
    history; with ONE deadline in front of the loop, after an outage of [deadline]
    seconds no attempt ever succeeds although the server is up. *)
Theorem C12_per_attempt_deadline_recovers :
  forall deadline ls, done (lstep false deadline (lexec false deadline linit ls) (RAttempt true)) = true.
Proof. exact per_attempt_deadline_recovers. Qed.

Theorem C12_single_loop_deadline_refuted :
  forall deadline ls,
    let outage := flat_map (fun _ => [RAttempt false; RTick]) (seq 0 deadline) in
    (forall l, In l ls -> l = RTick \/ l = RAttempt true) ->
    done (lexec true deadline linit (outage ++ ls)) = false.
Proof. exact single_loop_deadline_refuted. Qed.

(** "later calls succeed": in every reachable state a new call whose round-robin
    connection is Connected completes with the answer the server sends for it on
    any healthy connection with an idle reader. *)
Theorem C12_call_completes :
  forall nconn ids s i kr d,
    reachable nconn ids init_state s ->
    pc s i = CInit -> status s (next s) = true ->
    status s kr = true -> broken s kr = false -> wire s kr = [] ->
    exists s', exec nconn ids s [LRegister i; LPick i; LSendOk i; LEmit kr (PAnswer (ids i) d);
                                 LDeliver kr; LRecv i; LUnregister i] = Some s' /\
               pc s' i = CReturned (ROk d) /\ ~ In (ids i) (map fst (reg s')).
Proof. exact call_completes. Qed.
Print Assumptions C12_call_completes.

(** The silence rule (reader: reconnectTimeout without a packet).  Time is the label
    LTick k (one second for connection k); ticks_since reads the seconds since the
    reader's last packet off the trace.  Wherever a trace contains the silence step
    of connection k, a full period has passed since that reader received its last
    packet of ANY kind (answer, pong, auth nonce, junk) or was started: a connection
    that receives some packet at least once per period - e.g. a pong for each 3 s
    ping - is never dropped by the silence rule, so a delayed answer still finds it. *)
Theorem C12_silence_only_after_quiet_period :
  forall nconn ids l1 l2 k s,
    exec nconn ids init_state (l1 ++ LSilence k :: l2) = Some s ->
    silence_ticks <= ticks_since k l1 0.
Proof. exact silence_only_after_quiet_period. Qed.
Print Assumptions C12_silence_only_after_quiet_period.

Theorem C12_any_packet_restarts_silence_timer :
  forall nconn ids s k s',
    step nconn ids s (LDeliver k) = Some s' -> since s' k = 0 /\ step nconn ids s' (LSilence k) = None.
Proof. exact any_packet_restarts_silence_timer. Qed.

(** non-vacuity: 9 seconds without a server packet (the pinger pings every 3 s), a
    pong, 9 more such seconds: silence is not enabled; ten quiet seconds: it is *)
Example C12_silence_example :
  let ids := fun i => (100 + N.of_nat i)%N in
  let t3 := [LTick 0; LTick 0; LTick 0; LPingOk 0] in
  let t9 := t3 ++ t3 ++ t3 in
  (exists s, exec 1 ids init_state (t9 ++ [LEmit 0 PPong; LDeliver 0] ++ t9) = Some s /\
             step 1 ids s (LSilence 0) = None) /\
  (exists s, exec 1 ids init_state (t9 ++ [LTick 0; LSilence 0]) = Some s /\ rq s 0 = 1).
Proof.
  cbv zeta. split; eexists; (split; [vm_compute; reflexivity|]); vm_compute; reflexivity.
Qed.

(** The pinger (`go c.ping()` of NewConnection) is a process of the connection, not
    of one transport: in every reachable state it is alive and enabled - after any
    number of failed pings, failed sends and reconnects - and on a Connected
    connection it writes its ping; time cannot run more than [ping_ticks] seconds
    past its last ping.  (So a re-established connection is pinged like a fresh one,
    the server's pongs keep restarting the silence timer, C12_silence_only_after_
    quiet_period applies.)  The design in which the pinger returns after a failed
    ping is refuted in Proofs/ClientHistory.v. *)
Theorem C12_pinger_alive :
  forall nconn ids s k, reachable nconn ids init_state s -> pinger s k = true.
Proof. exact pinger_alive. Qed.

Theorem C12_pinger_enabled :
  forall nconn ids s k,
    reachable nconn ids init_state s ->
    (exists l, ping_label k l /\ step nconn ids s l <> None) /\
    (status s k = true -> step nconn ids s (LPingOk k) <> None).
Proof. exact pinger_enabled. Qed.
Print Assumptions C12_pinger_enabled.

Theorem C12_ping_deadline :
  forall nconn ids s k, reachable nconn ids init_state s -> psince s k <= ping_ticks.
Proof. exact psince_bounded. Qed.

Theorem C12_pinger_lost_refuted :
  exists s, pexec true pinit [PDrop; PPing; PReconnect] = Some s /\
            pconnected s = true /\ pbroken s = false /\
            forall ls s', pexec true s ls = Some s' -> pstep true s' PPing = None.
Proof. exact pinger_lost_refuted. Qed.

Theorem C12_pinger_kept :
  forall ls s, pexec false pinit ls = Some s -> pstep false s PPing <> None.
Proof. exact pinger_kept. Qed.

(** The deadline of a call: Request wraps the caller's context in
    context.WithTimeout(ctx, c.timeout), so the client timeout bounds every call
    whatever deadline the caller's context carries; the caller's earlier deadline
    is respected too.  "Apply the client timeout only when the caller has no
    deadline" is refuted (Proofs/ClientHistory.v). *)
Theorem C12_effective_deadline_bounds :
  forall timeout caller,
    effective_deadline timeout caller <= timeout /\
    (forall c, caller = Some c -> effective_deadline timeout caller <= c) /\
    (effective_deadline timeout caller = timeout \/ caller = Some (effective_deadline timeout caller)).
Proof. exact effective_deadline_bounds. Qed.

Theorem C12_caller_deadline_only_refuted :
  forall timeout, exists caller, timeout < caller_deadline_only timeout caller.
Proof. exact caller_deadline_only_refuted. Qed.

(** Connections with an auth key: the channel on which the reader reports the end of
    the authentication is made once and used by the first connect and by every
    reconnect.  Never closed, it serves any number of authentications and each one
    re-establishes the connection; closed after the first one, the second
    authentication panics (send on closed channel). *)
Theorem C12_auth_chan_open_never_panics :
  forall ls s, aexec false ainit ls = Some s -> aout_ s = ARunning /\ aclosed s = false.
Proof. exact auth_chan_open_never_panics. Qed.

Theorem C12_auth_chan_open_reconnects :
  forall ls s, aexec false ainit ls = Some s -> aconnected s = false -> awaiting s = false ->
    exists s', aexec false s [ASetup; ANonce] = Some s' /\ aconnected s' = true /\ aout_ s' = ARunning.
Proof. exact auth_chan_open_reconnects. Qed.

Theorem C12_auth_chan_closed_refuted :
  exists s, aexec true ainit [ASetup; ANonce; ADrop; ASetup; ANonce] = Some s /\ aout_ s = APanic.
Proof. exact auth_chan_closed_refuted. Qed.

(** A connection attempt that falls into a black hole (TCP accepted, handshake never
    answered): with a deadline on the handshake the attempt ends and the loop goes on
    to its next attempt (C12_reconnect_done_after_failed_attempts then applies);
    without one it never ends - the repaired defect. *)
Theorem C12_handshake_deadline_ends_attempt :
  forall d waited, d <= waited -> hstep (Some d) waited HGiveUp = Some 0.
Proof. exact handshake_deadline_ends_attempt. Qed.

Theorem C12_handshake_without_deadline_refuted :
  forall waited, hstep None waited HGiveUp = None.
Proof. exact handshake_without_deadline_refuted. Qed.

(** Overlapping reconnect() calls (several failed Sends, the pinger, the silence rule):
    the status check and its update are one critical section, so exactly one of them
    dials (in the LTS: LReconnectEnter is one atomic step, C12_single_reconnect);
    checking before taking the lock is refuted. *)
Theorem C12_reconnect_atomic_dials_once :
  forall ls, (forall l, In l ls -> exists i, l = KAtomic i) -> dials (fold_left kstep ls kinit) <= 1.
Proof. exact reconnect_atomic_dials_once. Qed.

Theorem C12_reconnect_split_check_refuted :
  dials (fold_left kstep [KCheck 0; KCheck 1; KSet 0; KSet 1] kinit) = 2.
Proof. exact reconnect_split_check_refuted. Qed.

(** The length prefix of the query bytes (adnl.message.query) and of the answer bytes
    (adnl.message.answer): what one side writes the other reads back, for every size
    below 2^24 - so a raw Request of ANY size reaches the server decodable and its
    answer comes back whole (sizes 253/254/255 are where the two forms meet).  The
    variant that keeps the short form for 254 is refuted. *)
Theorem C12_len_prefix_roundtrip :
  forall n r, (n < 16777216)%N -> dec_len (enc_len n ++ r) = Some (n, r).
Proof. exact len_prefix_roundtrip. Qed.

Theorem C12_len_prefix_gt_refuted :
  exists r, dec_len (enc_len_gt 254 ++ r) <> Some (254%N, r).
Proof. exact len_prefix_gt_refuted. Qed.

(** PARTIAL (liveness): after a drop the path ping failure -> reconnect -> done is
    enabled and re-establishes the connection; that it is taken within a bounded
    time is a fairness / wall-clock fact, not proved. *)
Theorem C12_reconnect_path_partial :
  forall nconn ids s k,
    reachable nconn ids init_state s -> status s k = true -> broken s k = false ->
    exists s', exec nconn ids s [LDrop k; LPingFail k; LReconnectEnter k; LReconnectDone k] = Some s' /\
               status s' k = true /\ broken s' k = false /\ loops s' k = 0.
Proof. exact reconnect_path_partial. Qed.

(** Non-vacuity: three calls on two connections; the server answers call 2 first,
    then an unknown id, a pong, call 0, a duplicate for call 0, junk; call 1 is
    never answered.  Calls 0 and 2 return their own data, call 1 times out, the
    registry ends empty. *)
Example C12_example :
  let ids := fun i => (100 + N.of_nat i)%N in
  exists s,
    exec 2 ids init_state
      [LRegister 0; LRegister 1; LPick 0; LRegister 2; LSendOk 0; LPick 1; LPick 2; LSendOk 2; LSendOk 1;
       LEmit 0 (PAnswer 102 72); LEmit 1 (PAnswer 999 1); LEmit 0 PPong; LEmit 0 (PAnswer 100 70);
       LEmit 1 (PAnswer 100 71); LEmit 1 PJunk;
       LDeliver 0; LDeliver 1; LDeliver 0; LDeliver 0; LDeliver 1; LDeliver 1;
       LRecv 2; LRecv 0; LTimeout 1; LUnregister 0; LUnregister 1; LUnregister 2] = Some s /\
    pc s 0 = CReturned (ROk 70) /\ pc s 1 = CReturned RTimeout /\ pc s 2 = CReturned (ROk 72) /\
    reg s = [] /\ delivered s = [(2, 72%N); (0, 70%N)].
Proof. cbv zeta. eexists. split; [vm_compute; reflexivity|]. repeat apply conj; reflexivity. Qed.

(** The repaired defect (Proofs/ClientHistory.v: status + "Connection.mu held by a
    blocked handleAuthResponse"): before the fix a tcp.authentificationNonce packet
    processed during a reconnect disables every later operation on the connection;
    after the fix no trace ever does. *)
Theorem C12_auth_nonce_wedges_before_fix :
  exists s, cexec false cinit [CSend; CReconnectEnter; CNonce] = Some s /\
            forall l, cstep false s l = None.
Proof. exact auth_nonce_wedges_before_fix. Qed.

Theorem C12_never_wedged_after_fix :
  forall ls s, cexec true cinit ls = Some s -> stuck s = false /\ forall l, cstep true s l <> None.
Proof. exact never_wedged_after_fix. Qed.

(** Observation (reachable, not a violation of the safety theorems): two Sends fail
    on a dead connection, each queues `go c.reconnect()`; the first re-establishes
    the connection, the second — scheduled late — finds the status Connected and
    tears the fresh connection down again (packets in flight are lost, the calls
    waiting for them time out).  Still at most one loop at a time. *)
Example C12_stale_reconnect_request :
  let ids := fun i => (100 + N.of_nat i)%N in
  exists s,
    exec 1 ids init_state
      [LDrop 0; LRegister 0; LPick 0; LSendFail 0; LRegister 1; LPick 1; LSendFail 1;
       LReconnectEnter 0; LReconnectDone 0;
       LRegister 2; LPick 2; LSendOk 2; LEmit 0 (PAnswer 102 7);
       LReconnectEnter 0] = Some s /\
    status s 0 = false /\ loops s 0 = 1 /\ wire s 0 = [] /\ pc s 2 = CSent.
Proof. cbv zeta. eexists. split; [vm_compute; reflexivity|]. repeat apply conj; reflexivity. Qed.
