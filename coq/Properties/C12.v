(** C12 — concurrent lite-client requests each receive their own answer.
    Statements only.  All theorems are about the labelled transition system of
    Model/Client.v and hold for every trace: any number of callers and
    connections, every interleaving, every server behaviour (answers in any
    order, delayed, duplicated, for unknown ids, malformed, pongs, junk) and every
    sequence of connection drops.

    Runtime-only (DESIGN §1.5, not expressible in the model): absence of data
    races, goroutine counts, wall-clock bounds (deadline of the timeout, reconnect
    latency).  Liveness of reconnection needs fairness and is stated as an
    enabled path (partial).  Connections with an auth key (handshake that sends on
    a channel while holding Connection.mu) are not modelled. *)
From Coq Require Import List NArith Bool.
From Tongo Require Import Model.Client Proofs.ClientP.
Import ListNotations.

(** A call that returns data returns an answer the server emitted for that call's
    own query id, and it is the only delivery ever made to that call.  (With
    pairwise distinct ids — math/rand 256-bit ids, assumed — "own id" identifies
    the call; the statement itself needs no such assumption.) *)
Theorem C12_own_answer :
  forall nconn ids s i d,
    reachable nconn ids init_state s ->
    (pc s i = CLeaving (ROk d) \/ pc s i = CReturned (ROk d)) ->
    In (ids i, d) (emitted s) /\ In (i, d) (delivered s) /\
    forall d', In (i, d') (delivered s) -> d' = d.
Proof. exact own_answer. Qed.
Print Assumptions C12_own_answer.

(** ... and the answer gets through when it arrives while the call waits *)
Theorem C12_answer_gets_through :
  forall nconn ids s i k d rest,
    reachable nconn ids init_state s ->
    pc s i = CSent -> In (ids i, i) (reg s) -> wire s k = PAnswer (ids i) d :: rest ->
    exists s1 s2, step nconn ids s (LDeliver k) = Some s1 /\ step nconn ids s1 (LRecv i) = Some s2 /\
                  pc s2 i = CLeaving (ROk d).
Proof. exact answer_gets_through. Qed.

(** The reader goroutine never blocks: whenever a packet is pending, processing it
    is enabled (every registered channel is empty; duplicates and unknown ids are
    dropped; pongs and junk are skipped). *)
Theorem C12_reader_never_blocks :
  forall nconn ids s k,
    reachable nconn ids init_state s -> wire s k <> [] -> step nconn ids s (LDeliver k) <> None.
Proof. exact reader_never_blocks. Qed.
Print Assumptions C12_reader_never_blocks.

(** A waiting call can always take its timeout branch, and no call that has not
    returned is ever without an enabled step of its own. *)
Theorem C12_timeout_enabled :
  forall nconn ids s i, pc s i = CSent -> step nconn ids s (LTimeout i) <> None.
Proof. exact timeout_enabled. Qed.

Theorem C12_no_stuck_call :
  forall nconn ids s i,
    (forall r, pc s i <> CReturned r) -> exists l, own_label i l /\ step nconn ids s l <> None.
Proof. exact no_stuck_call. Qed.

(** The registry contains entries of calls in flight only (one per id); once all
    calls have returned it is empty: no growth with completed calls. *)
Theorem C12_registry_bounded :
  forall nconn ids s,
    reachable nconn ids init_state s ->
    (forall id i, In (id, i) (reg s) -> id = ids i /\ in_flight (pc s i) = true) /\
    NoDup (map fst (reg s)).
Proof. exact registry_bounded. Qed.

Theorem C12_registry_empty_when_idle :
  forall nconn ids s,
    reachable nconn ids init_state s -> (forall i, in_flight (pc s i) = false) -> reg s = [].
Proof. exact registry_empty_when_idle. Qed.
Print Assumptions C12_registry_empty_when_idle.

(** At most one reconnect loop per connection, exactly while it is Connecting
    (Send succeeds only on a Connected, unbroken connection by definition of step). *)
Theorem C12_single_reconnect :
  forall nconn ids s k,
    reachable nconn ids init_state s -> loops s k <= 1 /\ (loops s k = 1 <-> status s k = false).
Proof. exact single_reconnect. Qed.

(** PARTIAL (liveness): after a drop the path ping failure -> reconnect -> done is
    enabled and re-establishes the connection; that it is taken within a bounded
    time is a fairness / wall-clock fact, not proved. *)
Theorem C12_reconnect_path_partial :
  forall nconn ids s k,
    reachable nconn ids init_state s -> status s k = true -> broken s k = false ->
    exists s', exec nconn ids s [LDrop k; LPingFail k; LReconnectEnter k; LReconnectDone k] = Some s' /\
               status s' k = true /\ broken s' k = false /\ loops s' k = 0.
Proof. exact reconnect_path_partial. Qed.

(** Non-vacuity: three calls on two connections; the server answers call 2 first,
    then an unknown id, a pong, call 0, a duplicate for call 0, junk; call 1 is
    never answered.  Calls 0 and 2 return their own data, call 1 times out, the
    registry ends empty. *)
Example C12_example :
  let ids := fun i => (100 + N.of_nat i)%N in
  exists s,
    exec 2 ids init_state
      [LRegister 0; LRegister 1; LPick 0; LRegister 2; LSendOk 0; LPick 1; LPick 2; LSendOk 2; LSendOk 1;
       LEmit 0 (PAnswer 102 72); LEmit 1 (PAnswer 999 1); LEmit 0 PPong; LEmit 0 (PAnswer 100 70);
       LEmit 1 (PAnswer 100 71); LEmit 1 PJunk;
       LDeliver 0; LDeliver 1; LDeliver 0; LDeliver 0; LDeliver 1; LDeliver 1;
       LRecv 2; LRecv 0; LTimeout 1; LUnregister 0; LUnregister 1; LUnregister 2] = Some s /\
    pc s 0 = CReturned (ROk 70) /\ pc s 1 = CReturned RTimeout /\ pc s 2 = CReturned (ROk 72) /\
    reg s = [] /\ delivered s = [(2, 72%N); (0, 70%N)].
Proof. cbv zeta. eexists. split; [vm_compute; reflexivity|]. repeat apply conj; reflexivity. Qed.
