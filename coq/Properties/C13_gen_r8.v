(** C13 obligations (round 8) over data translated from /repo's current source
    (Generated/PoolSections.v is rewritten by harness/cmd/translate genC13r8 on every run):
    the critical sections of liteapi/pool, their reads and writes.

    The LTS of Model/PoolWait.v treats "compare the reported head with the stored one and
    store it if it is newer" (connection.SetMasterHead) and "look at the choice's head and
    register the waiter" (subscribe) as ONE atomic step each.  That is only true of the
    source if the check and the store it guards sit in one Lock..Unlock section: with the
    check under RLock and the store under a later Lock, two callers pass the check and the
    older head is stored last (the head of a connection goes backwards).  The window is a
    few instructions wide, a stress run may miss it; the shape of the sections is a
    syntactic fact, re-checked here. *)
From Coq Require Import String List NArith Bool.
From Tongo Require Import Generated.PoolLocks Generated.PoolSections Properties.C13_gen.
Import ListNotations.
Local Open Scope string_scope.

Definition sfacts_of (t : string) : list section_fact :=
  filter (fun f => String.eqb (sf_type f) t) pool_section_facts.

Definition find_sfact (t n : string) : option section_fact :=
  find (fun f => String.eqb (sf_name f) n) (sfacts_of t).

Definition sections_of (t n : string) : list (N * list string * list string) :=
  match find_sfact t n with
  | Some f => map (fun s => (cs_kind s, cs_reads s, cs_writes s)) (sf_sections f)
  | None => []
  end.

(** SetMasterHead: exactly one section, under the write lock, and it contains both the read
    of the stored head (the staleness comparison) and the assignment; no method of the
    connection that takes the lock is called before or after it *)
Theorem C13_gen_sethead_check_and_store_one_section :
  sections_of "connection" "SetMasterHead" = [(2%N, ["masterHead"], ["masterHead"])] /\
  option_map sf_calls_outside (find_sfact "connection" "SetMasterHead") = Some [].
Proof. vm_compute. split; reflexivity. Qed.

(** subscribe: the read of the choice (whose head is compared with the target) and the
    registration in the wait list are one section under the write lock *)
Theorem C13_gen_subscribe_check_and_register_one_section :
  sections_of "ConnPool" "subscribe" =
    [(2%N, ["bestConn"; "waitListID"], ["waitListID"; "waitList"])] /\
  sections_of "ConnPool" "updateBest" = [(2%N, ["conns"; "strategy"], ["bestConn"])].
Proof. vm_compute. split; reflexivity. Qed.

(** the fields a lock guards: those declared after [mu] in the struct *)
Fixpoint after_mu (fs : list string) : list string :=
  match fs with
  | [] => []
  | f :: r => if String.eqb f "mu" then r else after_mu r
  end.

Definition guarded (t : string) : list string :=
  match find (fun p => String.eqb (fst p) t) pool_struct_fields with
  | Some p => after_mu (snd p)
  | None => []
  end.

Definition mem (x : string) (xs : list string) : bool := existsb (String.eqb x) xs.

Theorem C13_gen_guarded_fields :
  guarded "ConnPool" = ["conns"; "bestConn"; "waitListID"; "waitList"] /\
  guarded "connection" = ["masterHead"; "isArchive"].
Proof. vm_compute. split; reflexivity. Qed.

(** lock episodes of a method: its own critical sections plus its calls, outside them, of
    methods of the same receiver that take the lock (directly or through callees) *)
Definition episodes (f : section_fact) : nat :=
  List.length (sf_sections f) +
  List.length (filter (acquires fuel0 (sf_type f)) (sf_calls_outside f)).

Definition writes_guarded (f : section_fact) : bool :=
  existsb (fun s => existsb (fun w => mem w (guarded (sf_type f))) (cs_writes s)) (sf_sections f)
  || existsb (fun w => mem w (guarded (sf_type f))) (sf_writes_outside f).

(** check-then-act cannot be split: every method that writes a guarded field has exactly one
    lock episode - whatever it reads to decide on the write, it reads in the section that
    writes (a second section, or a locked getter called beforehand, would be a second episode) *)
Definition writers_with_several_episodes : list (string * string * nat) :=
  map (fun f => (sf_type f, sf_name f, episodes f))
      (filter (fun f => writes_guarded f && negb (Nat.eqb (episodes f) 1)) pool_section_facts).

Theorem C13_gen_writers_single_lock_episode : writers_with_several_episodes = [].
Proof. vm_compute. reflexivity. Qed.

Definition guarded_writers : list (string * string) :=
  map (fun f => (sf_type f, sf_name f)) (filter writes_guarded pool_section_facts).

(** ... and the statement is not vacuous: these are the writers it speaks about *)
Theorem C13_gen_guarded_writers :
  guarded_writers = [("ConnPool", "addConnection"); ("ConnPool", "subscribe"); ("ConnPool", "unsubscribe");
                     ("ConnPool", "updateBest"); ("connection", "SetMasterHead"); ("connection", "setArchive")].
Proof. vm_compute. reflexivity. Qed.

(** guarded fields are written under the write lock only: never outside a section, never in
    an RLock section *)
Definition bad_writes : list (string * string) :=
  map (fun f => (sf_type f, sf_name f))
      (filter (fun f =>
         existsb (fun w => mem w (guarded (sf_type f))) (sf_writes_outside f)
         || existsb (fun s => N.eqb (cs_kind s) 1 && existsb (fun w => mem w (guarded (sf_type f))) (cs_writes s))
                    (sf_sections f))
       pool_section_facts).

Theorem C13_gen_guarded_writes_under_write_lock : bad_writes = [].
Proof. vm_compute. reflexivity. Qed.

(** guarded fields read outside every section: the two helpers of updateBest (called only
    while updateBest holds the write lock: C13_gen.v, lf_calls_held) and BestArchiveClient
    (archive selection, outside this property: it ranges over conns without the lock) *)
Definition reads_outside_sections : list (string * string * list string) :=
  map (fun f => (sf_type f, sf_name f, filter (fun r => mem r (guarded (sf_type f))) (sf_reads_outside f)))
      (filter (fun f => existsb (fun r => mem r (guarded (sf_type f))) (sf_reads_outside f)) pool_section_facts).

Theorem C13_gen_guarded_reads_outside_sections :
  reads_outside_sections =
    [("ConnPool", "BestArchiveClient", ["conns"]);
     ("ConnPool", "findBestPingConnection", ["conns"]);
     ("ConnPool", "findFirstWorkingConnection", ["conns"])] /\
  option_map lf_calls_held (find_fact "ConnPool" "updateBest") =
    Some ["findBestPingConnection"; "findFirstWorkingConnection"].
Proof. vm_compute. split; reflexivity. Qed.
