(** C15 — wallet address and send parameters follow from key, version and
    chain state.  Statements only.

    [code v] is the code cell of version v (for the shipped codes see
    C15_gen.v), [chash] is Cell.Hash, [sign] Ed25519; none is unfolded.  Hash
    injectivity is an explicit hypothesis.  A wallet [w] is what newWallet keeps:
    version, key, workchain (Go int) and the resolved ids; [new_wallet] resolves
    the options. *)
From Coq Require Import List NArith ZArith Arith Bool.
From Tongo Require Import Lib.Bits Lib.Res Spec.Sha256 Model.BocParse Model.CellHash Spec.ReprHash
  Model.Wallet Model.WalletSend Proofs.WalletP Proofs.WalletSigP Proofs.WalletSendP Proofs.WalletDataP.
From Tongo Require Spec.Dict Model.Hashmap.
Import ListNotations.

(** The address is (int32 workchain, hash of the StateInit cell 00110 ^code ^data)
    where data is the version's initial data (seqno 0, ids, public key, empty
    dictionaries: [data_bits]). *)
Theorem C15_address_is_hash :
  forall (code : version -> cell) (chash : cell -> res bytes) w a,
  address code chash w = Ok a ->
  exists db, data_bits w = Ok db /\
    a = (int32_of (w_wc w), snd a) /\
    chash (ocell stateinit_bits [code (w_ver w); ocell db []]) = Ok (snd a).
Proof. exact address_is_hash. Qed.
Print Assumptions C15_address_is_hash.

(** initial data per version, bit by bit *)
Theorem C15_data_layout :
  forall w,
  data_bits w =
  match w_ver w with
  | V1R1 | V1R2 | V1R3 | V2R1 | V2R2 => Ok (u32 0 ++ pk_bits w)
  | V3R1 | V3R2 => Ok (u32 0 ++ u32 (w_sub w) ++ pk_bits w)
  | V4R1 | V4R2 => Ok (u32 0 ++ u32 (w_sub w) ++ pk_bits w ++ [false])
  | V5Beta => Ok (bits_of 33 0 ++ u32 (w_net w) ++ u8 (Z.to_N (w_wc w mod 256)) ++ u8 0 ++
                  u32 (w_sub w) ++ pk_bits w ++ [false])
  | V5R1 => Ok ([true] ++ u32 0 ++ u32 (w_wid w) ++ pk_bits w ++ [false])
  | HLV2R2 => Ok (u32 (w_sub w) ++ u64 0 ++ pk_bits w ++ [false])
  | _ => Err EWallet
  end.
Proof. reflexivity. Qed.

(** New(...).GetAddress, GenerateWalletAddress and GenerateStateInit are the same
    function of the resolved wallet (New without WithWorkchain = workchain 0). *)
Theorem C15_apis_agree :
  forall (code : version -> cell) (chash : cell -> res bytes) pk v net wc sub,
  api_generate_address code chash pk v net wc sub = api_new code chash pk v (mkopt (Some wc) sub net) /\
  api_new code chash pk v (mkopt None sub net) = api_generate_address code chash pk v net 0 sub /\
  (forall w, new_wallet pk v (mkopt (Some wc) sub net) = Ok w ->
     api_generate_state_init code pk v net wc sub = state_init code w /\
     api_generate_address code chash pk v net wc sub =
       (do si <- state_init code w; do h <- chash si; Ok (int32_of (w_wc w), h))).
Proof. exact apis_agree. Qed.

(** If the hash is injective on state-init cells and distinct versions have
    distinct code cells (C15_gen_codes_distinct for the shipped codes), equal
    addresses force equal version, key, int32 workchain and id fields ... *)
Theorem C15_address_injective :
  forall (code : version -> cell) (chash : cell -> res bytes) w1 w2 a,
  hash_injective_on chash (is_state_init code) -> codes_distinct code ->
  has_data (w_ver w1) -> has_data (w_ver w2) ->
  address code chash w1 = Ok a -> address code chash w2 = Ok a ->
  w_ver w1 = w_ver w2 /\ pk_bits w1 = pk_bits w2 /\ int32_of (w_wc w1) = int32_of (w_wc w2) /\
  id_fields w1 = id_fields w2.
Proof. exact address_injective. Qed.
Print Assumptions C15_address_injective.

(** ... and conversely, so the address differs exactly when one of them differs. *)
Theorem C15_address_complete :
  forall (code : version -> cell) (chash : cell -> res bytes) w1 w2,
  w_ver w1 = w_ver w2 -> pk_bits w1 = pk_bits w2 -> int32_of (w_wc w1) = int32_of (w_wc w2) ->
  id_fields w1 = id_fields w2 ->
  address code chash w1 = address code chash w2.
Proof. exact address_complete. Qed.

(** The caveats of the code, characterised: the id fields are
    v3/v4/highload: the sub-wallet id, explicit or 698983191 + workchain (uint32);
    v5 beta: (uint32 network id, workchain byte, sub-wallet id);
    v5r1: one word, (1|workchain:8|0:23) xor uint32(network id). *)
Theorem C15_resolved_subwallet :
  forall pk v o w,
  v = V3R1 \/ v = V3R2 \/ v = V4R1 \/ v = V4R2 \/ v = HLV2R2 ->
  new_wallet pk v o = Ok w ->
  w_sub w = match o_sub o with
            | Some s => s
            | None => to_u32 (default_subwallet + opt_or (o_wc o) 0%Z)
            end.
Proof. exact resolved_subwallet. Qed.

Theorem C15_default_subwallet_same_wallet :
  forall pk v wc net,
  v = V3R1 \/ v = V3R2 \/ v = V4R1 \/ v = V4R2 \/ v = HLV2R2 ->
  new_wallet pk v (mkopt wc None net) =
  new_wallet pk v (mkopt wc (Some (to_u32 (default_subwallet + opt_or wc 0%Z))) net).
Proof. exact default_subwallet_same_wallet. Qed.

Theorem C15_v5r1_wallet_id :
  forall pk o w,
  new_wallet pk V5R1 o = Ok w ->
  w_wid w = N.lxor (2147483648 + Z.to_N (opt_or (o_wc o) 0 mod 256)%Z * 8388608)%N
                   (to_u32 (opt_or (o_net o) mainnet_global_id)).
Proof. exact v5r1_wallet_id. Qed.

Theorem C15_v5r1_network_id_injective :
  forall ctx n1 n2, N.lxor ctx n1 = N.lxor ctx n2 -> n1 = n2.
Proof. exact v5r1_network_id_injective. Qed.

(** two (workchain, network id) pairs with the same v5r1 wallet id exist, but
    only across workchains, where the address differs in its workchain *)
Example C15_v5r1_xor_collision :
  exists w1 w2,
    new_wallet (zeros 256) V5R1 (mkopt (Some 0%Z) None (Some (-239)%Z)) = Ok w1 /\
    new_wallet (zeros 256) V5R1 (mkopt (Some 1%Z) None (Some (-8388847)%Z)) = Ok w2 /\
    w_wid w1 = w_wid w2 /\ int32_of (w_wc w1) <> int32_of (w_wc w2).
Proof. do 2 eexists. split; [reflexivity|]. split; [reflexivity|]. split; [reflexivity|]. vm_compute. discriminate. Qed.

(** NextMessageParams.  Seqno-bearing versions: an active account gives the
    seqno stored in its data and no state-init; any other status gives the
    wallet's own state-init and seqno 0. *)
Theorem C15_next_params_spec :
  forall (code : version -> cell) w st,
  seq_version (w_ver w) ->
  next_params code w st =
    match st with
    | AActive d => do s <- seqno_of_data (w_ver w) d; Ok (s, None)
    | _ => do si <- state_init code w; Ok (0%N, Some si)
    end.
Proof. exact next_params_spec. Qed.

(** The account state is the one decoded LAST: whatever earlier polls left in
    the variable the application decodes account records into (tlb.Unmarshal
    does not clear the unselected variant), NextMessageParams answers for the
    current record (active -> deleted -> ...: own state-init and seqno 0 again).
    The design reading the inner state tag only is refuted in Proofs/WalletHistory.v. *)
Theorem C15_next_params_polled :
  forall (code : version -> cell) w v0 recs rec,
  next_params_var code w (fold_left decode_into (recs ++ [rec]) v0) = next_params code w rec.
Proof. exact next_params_polled. Qed.

(** highload has no seqno; its state-init is attached exactly for a
    non-existent or uninitialised account *)
Theorem C15_next_params_highload :
  forall (code : version -> cell) w st,
  w_ver w = HLV2R2 ->
  next_params code w st =
    match st with
    | ANone | AUninit => do si <- state_init code w; Ok (0%N, Some si)
    | _ => Ok (0%N, None)
    end.
Proof. exact next_params_highload. Qed.

(** On EVERY well-formed data cell of a version (any seqno, ids, key, flag, any
    dictionary of plugins / extensions / old queries with distinct keys of the
    key width and values of the value width, serialised by the encoder of C05)
    the data struct decodes to exactly its fields, keys in ascending order ... *)
Theorem C15_decode_wellformed_data :
  forall s (a t : N) (pk : bits) (flag : bool) (wid80 : bits) kvs bit refs,
  length pk = 256%nat -> length wid80 = 80%nat ->
  let keys := map fst (Hashmap.bsort kvs) in
  (decode_data V3R1 (ocell (u32 s ++ u32 a ++ pk) []) =
     Ok (mkwd (s mod 4294967296) (a mod 4294967296) pk false 0 []) /\
   decode_data V3R2 (ocell (u32 s ++ u32 a ++ pk) []) =
     Ok (mkwd (s mod 4294967296) (a mod 4294967296) pk false 0 [])) /\
  (wf_dict 264 0 kvs -> dict_field 264 kvs bit refs ->
   decode_data V4R1 (ocell (u32 s ++ u32 a ++ pk ++ bit) refs) =
     Ok (mkwd (s mod 4294967296) (a mod 4294967296) pk false 0 keys) /\
   decode_data V4R2 (ocell (u32 s ++ u32 a ++ pk ++ bit) refs) =
     Ok (mkwd (s mod 4294967296) (a mod 4294967296) pk false 0 keys)) /\
  (wf_dict 256 8 kvs -> dict_field 256 kvs bit refs ->
   decode_data V5Beta (ocell (bits_of 33 s ++ wid80 ++ pk ++ bit) refs) =
     Ok (mkwd (s mod 8589934592) (N_of_bits wid80) pk false 0 keys)) /\
  (wf_dict 256 1 kvs -> dict_field 256 kvs bit refs ->
   decode_data V5R1 (ocell ([flag] ++ u32 s ++ u32 a ++ pk ++ bit) refs) =
     Ok (mkwd (s mod 4294967296) (a mod 4294967296) pk flag 0 keys)) /\
  (wf_dict 64 0 kvs -> dict_field 64 kvs bit refs ->
   decode_data HLV2R2 (ocell (u32 a ++ u64 t ++ pk ++ bit) refs) =
     Ok (mkwd 0 (a mod 4294967296) pk false (t mod 18446744073709551616) keys)).
Proof. exact decode_wellformed_data. Qed.

(** ... so the seqno NextMessageParams reads from an active account is the stored
    one whatever plugins / extensions are installed (with C15_next_params_spec:
    that seqno and no state-init). *)
Theorem C15_seqno_of_wellformed_data :
  forall s (a : N) (pk : bits) (flag : bool) (wid80 : bits) kvs bit refs,
  (s < 4294967296)%N -> length pk = 256%nat -> length wid80 = 80%nat ->
  seqno_of_data V3R1 (ocell (u32 s ++ u32 a ++ pk) []) = Ok s /\
  seqno_of_data V3R2 (ocell (u32 s ++ u32 a ++ pk) []) = Ok s /\
  (wf_dict 264 0 kvs -> dict_field 264 kvs bit refs ->
   seqno_of_data V4R1 (ocell (u32 s ++ u32 a ++ pk ++ bit) refs) = Ok s /\
   seqno_of_data V4R2 (ocell (u32 s ++ u32 a ++ pk ++ bit) refs) = Ok s) /\
  (wf_dict 256 8 kvs -> dict_field 256 kvs bit refs ->
   seqno_of_data V5Beta (ocell (bits_of 33 s ++ wid80 ++ pk ++ bit) refs) = Ok s) /\
  (wf_dict 256 1 kvs -> dict_field 256 kvs bit refs ->
   seqno_of_data V5R1 (ocell ([flag] ++ u32 s ++ u32 a ++ pk ++ bit) refs) = Ok s).
Proof. exact seqno_of_wellformed_data. Qed.
Print Assumptions C15_seqno_of_wellformed_data.

(** non-vacuity of the dictionary premises: a v5r1 data cell with two installed
    extensions (1-bit values) *)
Example C15_wellformed_data_satisfiable :
  let kvs := [(zeros 255 ++ [true], Dict.Cell [true] []); (true :: zeros 255, Dict.Cell [true] [])] in
  wf_dict 256 1 kvs /\
  exists root, Hashmap.encode Hashmap.venc_any 256 kvs = Ok root /\ dict_field 256 kvs [true] [of_dict root].
Proof.
  cbn zeta. split.
  - split; [|split].
    + repeat constructor; cbn; intuition discriminate.
    + repeat constructor.
    + repeat constructor.
  - vm_compute. eexists. split; [reflexivity|]. eexists. split; [reflexivity|]. split; reflexivity.
Qed.

(** Confirmation: for EVERY poll history (elapsed time read by the loop
    condition, answer or error of GetSeqno) the loop succeeds iff some poll
    reports a seqno greater than the sent one while every loop condition up to it
    was still before the deadline ... *)
Theorem C15_confirm_iff :
  forall wait sent (h : list poll),
  confirm wait sent h = true <->
  exists i t s, nth_error h i = Some (t, Some s) /\ (sent < s)%N /\
                forall j tj aj, (j <= i)%nat -> nth_error h j = Some (tj, aj) -> (tj < wait)%Z.
Proof. exact confirm_iff. Qed.
Print Assumptions C15_confirm_iff.

(** ... i.e., the clock never going back, iff some poll before the deadline
    reports a greater seqno. *)
Theorem C15_confirm_monotone :
  forall wait sent (h : list poll),
  clock_monotone h ->
  (confirm wait sent h = true <->
   exists i t s, nth_error h i = Some (t, Some s) /\ (sent < s)%N /\ (t < wait)%Z).
Proof. exact confirm_monotone. Qed.

(** Clock in ticks (as the loop really runs: a sleep of wait/10 between polls):
    the result is decided by the polls made before the deadline, at most n of
    them when n*step >= wait — ten for a deadline that is a multiple of ten units;
    later answers are never looked at. *)
Theorem C15_confirm_poll_bound :
  forall wait sent (h : list poll) step n,
  ticks step h -> (wait <= Z.of_nat n * step)%Z ->
  confirm wait sent h = confirm wait sent (firstn n h).
Proof. exact confirm_poll_bound. Qed.

Theorem C15_confirm_ten_polls :
  forall wait sent (h : list poll),
  ticks (wait / 10) h -> (wait mod 10 = 0)%Z ->
  confirm wait sent h = confirm wait sent (firstn 10 h).
Proof. exact confirm_ten_polls. Qed.

(** mnemonic: the library accepts a phrase iff strings.Split gives at least 12
    parts and the version byte (PBKDF2, an oracle) is 0; the wallet is then the
    v4r2 wallet of the derived key with default options *)
Theorem C15_seed_accepted_spec :
  forall (code : version -> cell) (chash : cell -> res bytes) s vbyte pk,
  api_from_seed code chash s vbyte pk =
    if (12 <=? S (length (filter (N.eqb 32) s)))%nat && N.eqb vbyte 0
    then api_new code chash pk V4R2 (mkopt None None None) else Err EWallet.
Proof. reflexivity. Qed.

(** RawSendV2 after the message is built: the message goes to SendMessage; an
    error there is returned; without confirmation the hash is returned; with
    confirmation the result is Ok iff the loop confirms, else the timeout error
    (highload: confirmation is refused). *)
Theorem C15_raw_send_v2_spec :
  forall (chash : cell -> res bytes) (SK : Type) (sign : SK -> bytes -> bits)
         w sk wc addr seqno valid ms init rnd wait send_err hist hh e,
  raw_send_msg SK chash sign w sk wc addr seqno valid ms init rnd = Ok (hh, e) ->
  raw_send_v2 chash SK sign w sk wc addr seqno valid ms init rnd wait send_err hist =
    (Some e,
     if send_err then Err EChain
     else if (wait =? 0)%Z then Ok hh
     else match w_ver w with
          | HLV2R2 => Err EWallet
          | _ => if confirm wait seqno hist then Ok hh else Err ETimeout
          end).
Proof. exact raw_send_v2_spec. Qed.

(** SendV2: what reaches SendMessage is addressed to the wallet's own address,
    carries the seqno and state-init chosen by NextMessageParams, and the outcome
    is the one above. *)
Theorem C15_send_v2_spec :
  forall (code : version -> cell) (chash : cell -> res bytes) (SK : Type) (sign : SK -> bytes -> bits),
  (forall c h, chash c = Ok h -> length h = 32%nat) ->
  forall w sk a ms valid rnd wait send_err hist e r,
  send_v2 code chash SK sign w sk (Some a) ms valid rnd wait send_err hist = (Some e, r) ->
  exists seqno init wc h hh body,
    next_params code w a = Ok (seqno, init) /\ address code chash w = Ok (wc, h) /\
    raw_send_msg SK chash sign w sk wc (bytes_to_bits h) seqno valid ms init rnd = Ok (hh, e) /\
    create_body SK chash sign w sk ms seqno valid op_signed_external rnd = Ok body /\
    (init_ok chash init ->
     parse_ext chash e = Ok (mkext (ext_in_std (w_wc w) (bytes_to_bits h)) init body)) /\
    r = (if send_err then Err EChain
         else if (wait =? 0)%Z then Ok hh
         else match w_ver w with
              | HLV2R2 => Err EWallet
              | _ => if confirm wait seqno hist then Ok hh else Err ETimeout
              end).
Proof. exact send_v2_spec. Qed.
Print Assumptions C15_send_v2_spec.

(** SendV2 / Send with the clock as a parameter: what is sent carries expiry =
    now + the wallet's configured lifetime — the default CreateMessageBody takes
    too (C14_create_message_body_expiry), so the entry points agree — and exactly
    the requested messages *)
Theorem C15_api_send_v2_expiry :
  forall (code : version -> cell) (chash : cell -> res bytes) (SK : Type) (sign : SK -> bytes -> bits),
  (forall c h, chash c = Ok h -> length h = 32%nat) ->
  forall w sk life now a ms rnd wait send_err hist e r,
  (forall sk m, length (sign sk m) = 512%nat) ->
  modes_ok ms -> sendable (w_ver w) ->
  (forall seqno init, next_params code w a = Ok (seqno, init) -> (seqno < 4294967296)%N) ->
  api_send_v2 code chash SK sign w sk life now (Some a) ms rnd wait send_err hist = (Some e, r) ->
  exists d, decode_msg chash (w_ver w) e = Ok d /\ extract_raw chash (w_ver w) e = Ok ms /\
            d_valid d = unix32 (expiry now life).
Proof. exact api_send_v2_expiry. Qed.
Print Assumptions C15_api_send_v2_expiry.

(** History independence: a Wallet object keeps nothing between calls, so after
    ANY sequence of calls — StateInit(), the caller overwriting the value it got
    back, GetAddress(), NextMessageParams / Send on any account state — every
    answer is the answer of a fresh wallet with the same parameters.  (The
    memoising design that hands its cache out by pointer is refuted in
    Proofs/WalletHistory.v: memoising_design_refuted.) *)
Theorem C15_history_independent :
  forall (code : version -> cell) (chash : cell -> res bytes) w ops,
  run_history code chash w ops = map (fresh_answer code chash w) ops.
Proof. exact history_independent. Qed.

Theorem C15_history_prefix_irrelevant :
  forall (code : version -> cell) (chash : cell -> res bytes) w pre op,
  nth_error (run_history code chash w (pre ++ [op])) (length pre) = Some (fresh_answer code chash w op).
Proof. exact history_prefix_irrelevant. Qed.

Theorem C15_send_v2_state_error :
  forall (code : version -> cell) (chash : cell -> res bytes) (SK : Type) (sign : SK -> bytes -> bits)
         w sk ms valid rnd wait send_err hist,
  send_v2 code chash SK sign w sk None ms valid rnd wait send_err hist = (None, Err EChain).
Proof. exact send_v2_state_error. Qed.

(** Non-vacuity: a v4r2 wallet on an active account with stored seqno 41: the
    send is confirmed by the third poll (an error and an equal seqno before it),
    and times out when the advance comes after the deadline. *)
Example C15_premises_satisfiable :
  let code (_ : version) := ocell [true] [] in
  let chash (c : cell) := repr_hash sha256 c in
  let sign (_ : unit) (_ : bytes) := zeros 512 in
  let w := mkw V4R2 (zeros 256) 0 698983191 0 0 in
  let data := ocell (u32 41 ++ u32 698983191 ++ zeros 256 ++ [false]) [] in
  let h1 := [(0%Z, None); (20%Z, Some 41%N); (40%Z, Some 42%N)] in
  let h2 := [(0%Z, Some 41%N); (100%Z, Some 41%N); (200%Z, Some 42%N)] in
  (exists e hh, send_v2 code chash unit sign w tt (Some (AActive data)) [] 0 0 200 false h1 = (Some e, Ok hh)) /\
  (exists e, send_v2 code chash unit sign w tt (Some (AActive data)) [] 0 0 200 false h2 = (Some e, Err ETimeout)).
Proof. cbn zeta. split; vm_compute; repeat eexists. Qed.
