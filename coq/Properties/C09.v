(** C09 — schema compilers emit Go code that implements the schema (TL half;
    the TL-B half is Properties/C09_tlb.v).

    Level: TRANSLATION VALIDATION WITH A PROVED CHECKER.  Nothing here is a
    theorem about tl/parser for all schemas: that would need a semantics of Go
    for the generator's own source.  What is proved is about every *generated
    program*: the harness generates a schema s, runs the real tl/parser on it,
    compiles the output, reads its structure p = (B, Ms, Tab) off the Go source
    (harness/tlx, the go/ast extractor of C10) and has Coq evaluate
    [tl_check s p] by vm_compute (per-run files C09Tl*.v).  The theorems below
    state what [tl_check s p = true] means: for ALL values v, running p on v
    gives exactly the bytes the TL wire format (Spec/TlWire.v, written from the
    TL specification) prescribes for s, with the constructor ids of s, and
    UnmarshalTL inverts MarshalTL on every continuation of the input.

    The mini-language semantics (Model/Tl.v) and the extractor are tied to the
    compiled code by the correspondence kinds c09.tl / c09.tlreq (random values
    through the compiled program vs. tl_encode / tl_request evaluated with the
    schema as data).

    Determinism of the generators ("generating twice gives identical output")
    has no Coq content: it is an equality of strings decided by the harness.

    Statements only; proofs in Proofs/C09P.v (corollaries of C10's
    binding_roundtrip, request_refines, response_result, response_error). *)
From Coq Require Import String List NArith Arith Bool.
From Tongo Require Import Lib.Bits Lib.Res Spec.TlWire Model.Tl Model.TlMatch Model.C09Check
     Proofs.TlWireP Proofs.TlApiP Proofs.C09P.
Import ListNotations.
Local Open Scope N_scope.

Section Checked.
  Variables (S F : list decl) (B : bindings) (Ms : list method) (Tab : list (N * N * string * string)).
  Hypothesis HC : tl_check S F B Ms Tab = true.
  Let nm := go_naming S.

  (** Every declared type (bare for one constructor, boxed for several): for all
      values, MarshalTL = the wire format, UnmarshalTL inverts it and leaves the rest. *)
  Theorem C09_tl_generated_type_implements_schema : forall d, In d S ->
    exists g, goty (decl_ty S d) = Some g /\
    forall v e, tl_encode nm S (decl_ty S d) v = Some e ->
      go_marshal B g v = Ok e /\
      forall rest, exists st, go_unmarshal B g (e ++ rest) = (Ok v, st) /\ inp st = rest.
  Proof. exact (checked_decl_sound S F B Ms Tab HC). Qed.

  (** ... and every type expression over them the program serves: vectors,
      builtins, nested references (fields are of these types). *)
  Theorem C09_tl_generated_code_implements_type_expressions : forall t g v e,
    ty_ok S B t = true -> goty t = Some g -> tl_encode nm S t v = Some e ->
    go_marshal B g v = Ok e /\
    forall rest, exists st, go_unmarshal B g (e ++ rest) = (Ok v, st) /\ inp st = rest.
  Proof. exact (checked_ty_sound S F B Ms Tab HC). Qed.

  (** The constructor ids are the schema's: the bytes of a value of a
      multi-constructor type start with the id of its constructor. *)
  Theorem C09_tl_constructor_ids_are_the_schemas : forall T g c fs e,
    ty_ok S B (TBoxed T) = true -> goty (TBoxed T) = Some g ->
    tl_encode nm S (TBoxed T) (VRec c fs) = Some e ->
    go_marshal B g (VRec c fs) = Ok e /\
    exists d, In d (ctors_of S T) /\ xlbl nm d = c /\ firstn 4 e = le_bytes 4 (did d).
  Proof. exact (checked_boxed_id S F B Ms Tab HC). Qed.

  (** Functions (result type with one constructor): the request method sends the
      function id followed by the arguments, returns a boxed result as the
      result and a boxed liteServer.error as the error. *)
  Theorem C09_tl_request_methods_implement_functions : forall f, In f F -> single_result S f = true ->
    exists m, In m Ms /\
    (forall v e, tl_request nm S f v = Some e ->
       go_request B m (match dfields f with [] => None | _ => Some v end) = Ok e /\
       firstn 4 e = le_bytes 4 (did f)) /\
    (forall v e, tl_encode nm S (TBoxed (dres f)) v = Some e -> go_response B m e = Ok (RResult v)) /\
    (forall e0 v e, find_ctor S "liteServer.error" = Some e0 ->
       tl_encode nm S (TBoxed (dres e0)) v = Some e -> go_response B m e = Ok (RError v)).
  Proof. exact (checked_request_sound S F B Ms Tab HC). Qed.

  (** The server side: the request structs decode the arguments of their function,
      and the decoder table has exactly one row per function under its id. *)
  Theorem C09_tl_request_structs_decode_arguments : forall f bs v rest, In f F ->
    dec_args nm S tl_fuel f bs = Some (v, rest) ->
    exists st, go_unmarshal B (GNamed (camel (dname f) ++ "Request")) bs = (Ok v, st) /\ inp st = rest.
  Proof. exact (checked_request_args S F B Ms Tab HC). Qed.

  Theorem C09_tl_request_table_rows : forall f, In f F ->
    exists row, In row Tab /\ row = (did f, did f, (camel (dname f) ++ "Request")%string, dname f).
  Proof. exact (checked_table S F B Ms Tab HC). Qed.
End Checked.

Print Assumptions C09_tl_generated_type_implements_schema.
Print Assumptions C09_tl_constructor_ids_are_the_schemas.
Print Assumptions C09_tl_request_methods_implement_functions.

(** * What is NOT claimed (gaps)
    - no statement about tl/parser or tlb/parser on schemas the harness did not generate;
    - functions whose result type has several constructors: only name, request type, request id and
      error id of the method are checked ([matches_method_head]); their response path is exercised by
      execution only (kind c09.tlreq);
    - values are those in the domain of the wire-format spec (see C10_gaps); nesting below tl_fuel = 64;
    - the extractor and the mini-language semantics are trusted by correspondence (c09.tl, c09.tlreq);
    - compiling ("go build") is an observation of the harness, not a theorem. *)
Definition C09_gaps := tt.

(** * The checker discriminates *)
Local Open Scope string_scope.
Definition ex_S : schema :=
  [mkdecl "liteServer.error" 0x48e1a9bb [mkfield "code" None TInt; mkfield "message" None TString] "liteServer.Error";
   mkdecl "t.inner" 0xaabbccdd [mkfield "a" None TInt; mkfield "b" None TLong] "t.Inner";
   mkdecl "t.pair" 0x11223344
     [mkfield "mode" None TNat; mkfield "lt" (Some ("mode", 1)) TLong;
      mkfield "data" None TBytes; mkfield "xs" None (TVector (TBare "t.inner"))] "t.Pair";
   mkdecl "t.shapeA" 0x0a0a0a0a [mkfield "r" None TInt] "t.Shape";
   mkdecl "t.shapeB" 0x0b0b0b0b [] "t.Shape"].
Definition ex_F : list decl := [mkdecl "t.get" 0x01020304 [mkfield "n" None TInt] "t.Pair"].
Definition ex_B : bindings :=
  [mkbinding "LiteServerErrorC" (GStruct [("Code", GU32); ("Message", GString)])
     (MPlain [Field (["Code"], None); Field (["Message"], None)])
     (UPlain [Field (["Code"], None); Field (["Message"], None)]);
   mkbinding "TInnerC" (GStruct [("A", GU32); ("B", GU64)])
     (MPlain [Field (["A"], None); Field (["B"], None)])
     (UPlain [Field (["A"], None); Field (["B"], None)]);
   mkbinding "TPairC" (GStruct [("Mode", GU32); ("Lt", GPtr GU64); ("Data", GBytes); ("Xs", GSlice (GNamed "TInnerC"))])
     (MPlain [Field (["Mode"], None); IfBit "Mode" 1 [(["Lt"], None)]; Field (["Data"], None); Field (["Xs"], None)])
     (UPlain [Field (["Mode"], None); IfBit "Mode" 1 [(["Lt"], Some (GU64, true))]; Field (["Data"], None); Field (["Xs"], None)]);
   mkbinding "TShape" (GStruct [("SumType", GSumTag); ("TShapeA", GStruct [("R", GU32)]); ("TShapeB", GStruct [])])
     (MSwitch [("TShapeA", [WriteTag 0x0a0a0a0a; Field (["TShapeA"; "R"], None)]); ("TShapeB", [WriteTag 0x0b0b0b0b])])
     (USwitch [(0x0a0a0a0a, "TShapeA", [Field (["TShapeA"; "R"], None)]); (0x0b0b0b0b, "TShapeB", [])]);
   mkbinding "TGetRequest" (GStruct [("N", GU32)])
     (MPlain [Field (["N"], None)]) (UPlain [Field (["N"], None)])].
Definition ex_Ms : list method :=
  [mkmethod "TGet" (Some "TGetRequest") 0x01020304 0x48e1a9bb [0x11223344] "TPairC" true].
Definition ex_Tab : list (N * N * string * string) := [(0x01020304, 0x01020304, "TGetRequest", "t.get")].

(* mutations of one binding *)
Definition on (name : string) (f : binding -> binding) (B : bindings) : bindings :=
  map (fun b => if String.eqb (b_name b) name then f b else b) B.
Definition swap2 {A} (l : list A) : list A := match l with a :: b :: t => b :: a :: t | _ => l end.
Definition map_m (f : list stmt -> list stmt) (b : binding) : binding :=
  mkbinding (b_name b) (b_type b)
    (match b_marshal b with MPlain ss => MPlain (f ss) | MSwitch cs => MSwitch (map (fun c => (fst c, f (snd c))) cs) | MNone => MNone end)
    (b_unmarshal b).
Definition map_u (f : list stmt -> list stmt) (b : binding) : binding :=
  mkbinding (b_name b) (b_type b) (b_marshal b)
    (match b_unmarshal b with UPlain ss => UPlain (f ss) | USwitch cs => USwitch (map (fun c => (fst c, f (snd c))) cs) end).
Definition unguard (ss : list stmt) : list stmt :=
  flat_map (fun s => match s with IfBit _ _ body => map Field body | _ => [s] end) ss.
Definition rebit (ss : list stmt) : list stmt :=
  map (fun s => match s with IfBit m n body => IfBit m (n + 1) body | _ => s end) ss.
Definition retag (ss : list stmt) : list stmt :=
  map (fun s => match s with WriteTag i => WriteTag (i + 1) | _ => s end) ss.
Definition widen (b : binding) : binding :=
  mkbinding (b_name b)
    (match b_type b with
     | GStruct fs => GStruct (map (fun f => (fst f, match snd f with GU32 => GU64 | t => t end)) fs)
     | t => t end) (b_marshal b) (b_unmarshal b).

Example C09_tl_checker_accepts_and_rejects :
  tl_check ex_S ex_F ex_B ex_Ms ex_Tab = true /\
  (* fields written in the wrong order / read in the wrong order *)
  tl_check ex_S ex_F (on "TInnerC" (map_m swap2) ex_B) ex_Ms ex_Tab = false /\
  tl_check ex_S ex_F (on "TInnerC" (map_u swap2) ex_B) ex_Ms ex_Tab = false /\
  (* an int held in a uint64: 8 bytes on the wire instead of 4 *)
  tl_check ex_S ex_F (on "TInnerC" widen ex_B) ex_Ms ex_Tab = false /\
  (* the mode test dropped on the writing side / on the reading side *)
  tl_check ex_S ex_F (on "TPairC" (map_m unguard) ex_B) ex_Ms ex_Tab = false /\
  tl_check ex_S ex_F (on "TPairC" (map_u unguard) ex_B) ex_Ms ex_Tab = false /\
  (* the wrong bit of mode tested *)
  tl_check ex_S ex_F (on "TPairC" (map_m rebit) ex_B) ex_Ms ex_Tab = false /\
  tl_check ex_S ex_F (on "TPairC" (map_u rebit) ex_B) ex_Ms ex_Tab = false /\
  (* a constructor id that is not the schema's, when writing / when reading *)
  tl_check ex_S ex_F (on "TShape" (map_m retag) ex_B) ex_Ms ex_Tab = false /\
  tl_check ex_S ex_F (on "TShape"
     (fun b => mkbinding (b_name b) (b_type b) (b_marshal b)
        (USwitch [(0x0a0a0a0b, "TShapeA", [Field (["TShapeA"; "R"], None)]); (0x0b0b0b0b, "TShapeB", [])])) ex_B)
     ex_Ms ex_Tab = false /\
  (* request id, error id, response id of the method; a decoder-table row under another id *)
  tl_check ex_S ex_F ex_B [mkmethod "TGet" (Some "TGetRequest") 0x01020305 0x48e1a9bb [0x11223344] "TPairC" true] ex_Tab = false /\
  tl_check ex_S ex_F ex_B [mkmethod "TGet" (Some "TGetRequest") 0x01020304 0x48e1a9bc [0x11223344] "TPairC" true] ex_Tab = false /\
  tl_check ex_S ex_F ex_B [mkmethod "TGet" (Some "TGetRequest") 0x01020304 0x48e1a9bb [0x11223345] "TPairC" true] ex_Tab = false /\
  tl_check ex_S ex_F ex_B ex_Ms [(0x01020305, 0x01020304, "TGetRequest", "t.get")] = false /\
  (* a statement the extractor could not read *)
  tl_check ex_S ex_F (on "TInnerC" (map_m (fun ss => (ss ++ [Unrecognised "x"])%list)) ex_B) ex_Ms ex_Tab = false.
Proof. vm_compute. repeat split. Qed.

(** The rejections are not spurious: the mutated programs really produce other
    bytes than the wire format on some value. *)
Definition ex_inner : value := VRec "" [("A", VNum 7); ("B", VNum 9)].
Definition ex_pair : value :=
  VRec "" [("Mode", VNum 2); ("Lt", VNum 5); ("Data", VBytes [1; 2; 3]); ("Xs", VVec [ex_inner])].
Example C09_tl_rejected_programs_misbehave :
  tl_encode (go_naming ex_S) ex_S (TBare "t.inner") ex_inner = Some [7;0;0;0; 9;0;0;0;0;0;0;0] /\
  go_marshal ex_B (GNamed "TInnerC") ex_inner = Ok [7;0;0;0; 9;0;0;0;0;0;0;0] /\
  go_marshal (on "TInnerC" (map_m swap2) ex_B) (GNamed "TInnerC") ex_inner = Ok [9;0;0;0;0;0;0;0; 7;0;0;0] /\
  go_marshal (on "TPairC" (map_m rebit) ex_B) (GNamed "TPairC") ex_pair
    = Ok [2;0;0;0; 3;1;2;3; 1;0;0;0; 7;0;0;0; 9;0;0;0;0;0;0;0] /\
  tl_encode (go_naming ex_S) ex_S (TBare "t.pair") ex_pair
    = Some [2;0;0;0; 5;0;0;0;0;0;0;0; 3;1;2;3; 1;0;0;0; 7;0;0;0; 9;0;0;0;0;0;0;0] /\
  go_marshal (on "TShape" (map_m retag) ex_B) (GNamed "TShape") (VRec "TShapeB" []) = Ok [0x0c;0x0b;0x0b;0x0b] /\
  tl_encode (go_naming ex_S) ex_S (TBoxed "t.Shape") (VRec "TShapeB" []) = Some [0x0b;0x0b;0x0b;0x0b].
Proof. vm_compute. repeat split. Qed.

(** Non-vacuity of the Section's premise, with a value through both sides. *)
Example C09_tl_premises_satisfiable :
  tl_check ex_S ex_F ex_B ex_Ms ex_Tab = true /\
  In (nth 2 ex_S (mkdecl "" 0 [] "")) ex_S /\
  go_marshal ex_B (GNamed "TPairC") ex_pair
    = Ok [2;0;0;0; 5;0;0;0;0;0;0;0; 3;1;2;3; 1;0;0;0; 7;0;0;0; 9;0;0;0;0;0;0;0] /\
  fst (go_unmarshal ex_B (GNamed "TPairC") ([2;0;0;0; 5;0;0;0;0;0;0;0; 3;1;2;3; 1;0;0;0; 7;0;0;0; 9;0;0;0;0;0;0;0] ++ [0xff])%list)
    = Ok ex_pair.
Proof. vm_compute. repeat split. right; right; left; reflexivity. Qed.
