(** C06 — bit-string read/write primitives behave like an ideal bit list.
    Statements only; every proof is [exact <lemma>] into Proofs/. *)
From Coq Require Import List NArith ZArith Arith Lia Bool.
From Tongo Require Import Lib.Bits Lib.Res Model.BitString
  Proofs.BitStringW Proofs.BitStringR Proofs.BitStringR2 Proofs.BitStringSeq
  Proofs.MinBits Proofs.Fift.
Import ListNotations.

(** Any sequence of in-domain writes that fits, followed by the matching reads,
    returns exactly the values written — from any starting state, hence at
    every cursor alignment; the bits appended are exactly the items' encodings. *)
Theorem C06_write_then_read :
  forall tab, debruijn_ok tab = true ->
  forall its s,
  Inv s -> rcur s = len s -> Forall item_ok its ->
  (len s + length (enc_items its) <= cap s)%nat ->
  exists s1, write_items tab its s = (s1, Ok tt) /\
    abs s1 = abs s ++ enc_items its /\ Inv s1 /\
    exists s2, read_items tab its s1 = (s2, Ok its) /\
      rcur s2 = len s1 /\ abs s2 = abs s1.
Proof. exact write_then_read. Qed.
Print Assumptions C06_write_then_read.

(** A write beyond capacity fails with Overflow and leaves the previously
    written data intact. *)
Theorem C06_overflow_keeps_prefix :
  forall tab, debruijn_ok tab = true ->
  forall its s,
  Inv s -> Forall item_ok its ->
  (cap s < len s + length (enc_items its))%nat ->
  exists s1, write_items tab its s = (s1, Err EOverflow) /\
    firstn (len s) (abs s1) = abs s /\ Inv s1.
Proof. exact write_overflow_keeps_prefix. Qed.
Print Assumptions C06_overflow_keeps_prefix.

Theorem C06_write_succeeds_iff_fits :
  forall l s, Inv s ->
  (snd (write_bits l s) = Ok tt <-> (len s + length l <= cap s)%nat).
Proof. exact write_bits_iff. Qed.
Print Assumptions C06_write_succeeds_iff_fits.

(** ReadUint, all three implementation paths, every width 0..64 and every
    cursor position: the big-endian value of the next w ideal bits, or
    NotEnoughBits with the state unchanged — never invented data. *)
Theorem C06_read_uint :
  forall w s, Inv s -> (w <= 64)%nat ->
  read_uint w s =
    if (rcur s + w <=? len s)%nat then (adv s w, Ok (N_of_bits (rd s w)))
    else (s, Err ENotEnoughBits).
Proof. exact read_uint_spec. Qed.
Print Assumptions C06_read_uint.

Theorem C06_pick_uint_does_not_move :
  forall w s, Inv s -> (w <= 64)%nat ->
  pick_uint w s =
    if (rcur s + w <=? len s)%nat then (s, Ok (N_of_bits (rd s w)))
    else (s, Err ENotEnoughBits).
Proof. exact pick_uint_spec. Qed.

Theorem C06_read_int :
  forall w s, Inv s -> (1 <= w <= 64)%nat ->
  read_int w s =
    if (rcur s + w <=? len s)%nat then (adv s w, Ok (dec_int (rd s w)))
    else (s, Err ENotEnoughBits).
Proof. exact read_int_spec. Qed.
Print Assumptions C06_read_int.

Theorem C06_twos_complement_roundtrip :
  forall v w, (1 <= w)%nat -> int_fits v w -> dec_int (enc_int v w) = v.
Proof. exact dec_enc_int. Qed.

Theorem C06_write_int_is_twos_complement :
  forall v w s, (1 <= w <= 64)%nat -> int_fits v w ->
  write_int v w s = write_bits (enc_int v w) s.
Proof. exact write_int_is_twos_complement. Qed.

Theorem C06_read_byte :
  forall s, Inv s ->
  read_byte s =
    if (rcur s + 8 <=? len s)%nat then (adv s 8, Ok (N_of_bits (rd s 8)))
    else (s, Err ENotEnoughBits).
Proof. exact read_byte_spec. Qed.

Theorem C06_read_bytes :
  forall n s, Inv s ->
  read_bytes n s =
    if (rcur s + 8 * n <=? len s)%nat
    then (adv s (8 * n), Ok (bytes_of_bits n (skipn (rcur s) (abs s))))
    else (s, Err ENotEnoughBits).
Proof. exact read_bytes_spec. Qed.

Theorem C06_read_bits :
  forall n s, Inv s ->
  read_bits n s =
    if (rcur s + n <=? len s)%nat then (adv s n, Ok (rd s n)) else (s, Err ENotEnoughBits).
Proof. exact read_bits_spec. Qed.

Theorem C06_read_big_uint :
  forall w s, Inv s ->
  read_big_uint w s =
    if (rcur s + w <=? len s)%nat then (adv s w, Ok (N_of_bits (rd s w)))
    else (s, Err ENotEnoughBits).
Proof. exact read_big_uint_spec. Qed.
Print Assumptions C06_read_big_uint.

Theorem C06_read_big_int :
  forall w s, Inv s -> (1 <= w)%nat ->
  read_big_int w s =
    if (rcur s + w <=? len s)%nat then (adv s w, Ok (dec_int (rd s w)))
    else (s, Err ENotEnoughBits).
Proof. exact read_big_int_spec. Qed.

Theorem C06_skip :
  forall n s, Inv s ->
  skip n s = if (rcur s + n <=? len s)%nat then (adv s n, Ok tt) else (s, Err ENotEnoughBits).
Proof. exact skip_spec. Qed.

(** #<= n integers use exactly N.size n bits for every uint64 bound, given the
    finite de Bruijn table check (discharged on the translated table in
    C06_gen.v). *)
Theorem C06_min_bits_required :
  forall tab, debruijn_ok tab = true ->
  forall v, (v < 2 ^ 64)%N -> min_bits_required tab v = N.to_nat (N.size v).
Proof. exact min_bits_required_spec. Qed.
Print Assumptions C06_min_bits_required.

(** Fift hex: parsing the printed form gives back the same bits, any length. *)
Theorem C06_fift_roundtrip :
  forall l : bits, let '(ds, u) := to_fift l in from_fift ds u = Some l.
Proof. exact fift_roundtrip. Qed.
Print Assumptions C06_fift_roundtrip.

(** Non-vacuity: a concrete non-trivial state and item list meet the premises. *)
Example C06_premises_satisfiable :
  let s := fst (write_bits [true; false; true] (new_bs 200)) in
  let s := set_rcur s 3 in
  let its := [IUint 200 9; IInt (-3) 5; IBigUint 1000 17; IBigInt (-70000) 65;
              IBytes [1; 255]%N; IBits [true]; IUnary 4; ILim 5 9] in
  Inv s /\ rcur s = len s /\ Forall item_ok its /\
  (len s + length (enc_items its) <= cap s)%nat.
Proof.
  cbn zeta. split; [|split; [reflexivity|split]].
  - unfold Inv. vm_compute. repeat split; lia.
  - repeat constructor; unfold int_fits; cbn; try lia.
  - vm_compute. lia.
Qed.
