(** C06 — bit-string read/write primitives behave like an ideal bit list.
    Statements only; every proof is [exact <lemma>] into Proofs/. *)
From Coq Require Import List NArith ZArith Arith Lia Bool.
From Tongo Require Import Lib.Bits Lib.Res Model.BitString Model.BitStringD Model.CellRefs Model.BitStringOwn
  Proofs.BitStringW Proofs.BitStringR Proofs.BitStringR2 Proofs.BitStringSeq
  Proofs.MinBits Proofs.Fift Proofs.BitStringD Proofs.C06History Proofs.CellRefsP Proofs.BitStringOwnP.
Import ListNotations.

(** Any sequence of in-domain writes that fits, followed by the matching reads,
    returns exactly the values written — from any starting state, hence at
    every cursor alignment; the bits appended are exactly the items' encodings. *)
Theorem C06_write_then_read :
  forall tab, debruijn_ok tab = true ->
  forall its s,
  Inv s -> rcur s = len s -> Forall item_ok its ->
  (len s + length (enc_items its) <= cap s)%nat ->
  exists s1, write_items tab its s = (s1, Ok tt) /\
    abs s1 = abs s ++ enc_items its /\ Inv s1 /\
    exists s2, read_items tab its s1 = (s2, Ok its) /\
      rcur s2 = len s1 /\ abs s2 = abs s1.
Proof. exact write_then_read. Qed.
Print Assumptions C06_write_then_read.

(** A write beyond capacity fails with Overflow and leaves the previously
    written data intact. *)
Theorem C06_overflow_keeps_prefix :
  forall tab, debruijn_ok tab = true ->
  forall its s,
  Inv s -> Forall item_ok its ->
  (cap s < len s + length (enc_items its))%nat ->
  exists s1, write_items tab its s = (s1, Err EOverflow) /\
    firstn (len s) (abs s1) = abs s /\ Inv s1.
Proof. exact write_overflow_keeps_prefix. Qed.
Print Assumptions C06_overflow_keeps_prefix.

Theorem C06_write_succeeds_iff_fits :
  forall l s, Inv s ->
  (snd (write_bits l s) = Ok tt <-> (len s + length l <= cap s)%nat).
Proof. exact write_bits_iff. Qed.
Print Assumptions C06_write_succeeds_iff_fits.

(** ReadUint, all three implementation paths, every width 0..64 and every
    cursor position: the big-endian value of the next w ideal bits, or
    NotEnoughBits with the state unchanged — never invented data. *)
Theorem C06_read_uint :
  forall w s, Inv s -> (w <= 64)%nat ->
  read_uint w s =
    if (rcur s + w <=? len s)%nat then (adv s w, Ok (N_of_bits (rd s w)))
    else (s, Err ENotEnoughBits).
Proof. exact read_uint_spec. Qed.
Print Assumptions C06_read_uint.

Theorem C06_pick_uint_does_not_move :
  forall w s, Inv s -> (w <= 64)%nat ->
  pick_uint w s =
    if (rcur s + w <=? len s)%nat then (s, Ok (N_of_bits (rd s w)))
    else (s, Err ENotEnoughBits).
Proof. exact pick_uint_spec. Qed.

Theorem C06_read_int :
  forall w s, Inv s -> (1 <= w <= 64)%nat ->
  read_int w s =
    if (rcur s + w <=? len s)%nat then (adv s w, Ok (dec_int (rd s w)))
    else (s, Err ENotEnoughBits).
Proof. exact read_int_spec. Qed.
Print Assumptions C06_read_int.

Theorem C06_twos_complement_roundtrip :
  forall v w, (1 <= w)%nat -> int_fits v w -> dec_int (enc_int v w) = v.
Proof. exact dec_enc_int. Qed.

Theorem C06_write_int_is_twos_complement :
  forall v w s, (1 <= w <= 64)%nat -> int_fits v w ->
  write_int v w s = write_bits (enc_int v w) s.
Proof. exact write_int_is_twos_complement. Qed.

Theorem C06_read_byte :
  forall s, Inv s ->
  read_byte s =
    if (rcur s + 8 <=? len s)%nat then (adv s 8, Ok (N_of_bits (rd s 8)))
    else (s, Err ENotEnoughBits).
Proof. exact read_byte_spec. Qed.

Theorem C06_read_bytes :
  forall n s, Inv s ->
  read_bytes n s =
    if (rcur s + 8 * n <=? len s)%nat
    then (adv s (8 * n), Ok (bytes_of_bits n (skipn (rcur s) (abs s))))
    else (s, Err ENotEnoughBits).
Proof. exact read_bytes_spec. Qed.

Theorem C06_read_bits :
  forall n s, Inv s ->
  read_bits n s =
    if (rcur s + n <=? len s)%nat then (adv s n, Ok (rd s n)) else (s, Err ENotEnoughBits).
Proof. exact read_bits_spec. Qed.

Theorem C06_read_big_uint :
  forall w s, Inv s ->
  read_big_uint w s =
    if (rcur s + w <=? len s)%nat then (adv s w, Ok (N_of_bits (rd s w)))
    else (s, Err ENotEnoughBits).
Proof. exact read_big_uint_spec. Qed.
Print Assumptions C06_read_big_uint.

Theorem C06_read_big_int :
  forall w s, Inv s -> (1 <= w)%nat ->
  read_big_int w s =
    if (rcur s + w <=? len s)%nat then (adv s w, Ok (dec_int (rd s w)))
    else (s, Err ENotEnoughBits).
Proof. exact read_big_int_spec. Qed.

Theorem C06_skip :
  forall n s, Inv s ->
  skip n s = if (rcur s + n <=? len s)%nat then (adv s n, Ok tt) else (s, Err ENotEnoughBits).
Proof. exact skip_spec. Qed.

(** #<= n integers use exactly N.size n bits for every uint64 bound, given the
    finite de Bruijn table check (discharged on the translated table in
    C06_gen.v). *)
Theorem C06_min_bits_required :
  forall tab, debruijn_ok tab = true ->
  forall v, (v < 2 ^ 64)%N -> min_bits_required tab v = N.to_nat (N.size v).
Proof. exact min_bits_required_spec. Qed.
Print Assumptions C06_min_bits_required.

(** Fift hex: parsing the printed form gives back the same bits, any length. *)
Theorem C06_fift_roundtrip :
  forall l : bits, let '(ds, u) := to_fift l in from_fift ds u = Some l.
Proof. exact fift_roundtrip. Qed.
Print Assumptions C06_fift_roundtrip.

(** ** Bit strings derived from other bit strings (junk bits past [len])

    [Inv] constrains lengths only: NOTHING is assumed about the buffer bits at
    positions >= len.  That matters, because such bits really occur: On(n) /
    Off(n) are exported and write any position below cap without moving len
    ([C06_on_off]); Copy and Grow keep them.  (Before the repair "fix: ReadBits
    clears the bits past the requested length when the read cursor is
    byte-aligned" the fast path of ReadBits(n), n mod 8 <> 0, also left the
    source's following bits in its result:
    [C06_read_bits_before_fix_kept_stale_bits]; Model/BitStringD.v is
    byte-faithful about the returned buffer, [C06_read_bits_result_buffer].)
    All the writer theorems above are therefore already statements "for every
    garbage past len"; the next one says so explicitly: the state is given as
    its ideal content [pre] followed by ARBITRARY [junk]. *)
Theorem C06_writers_ignore_stale_bits :
  forall (pre junk l : bits) (c r : nat),
  (length (pre ++ junk) mod 8 = 0)%nat ->
  (length pre + length l <= c)%nat -> (c <= length (pre ++ junk))%nat ->
  (r <= length pre)%nat ->
  exists s', write_bits l (mkbs (pre ++ junk) c (length pre) r) = (s', Ok tt) /\
    abs s' = pre ++ l /\ Inv s' /\ len s' = (length pre + length l)%nat.
Proof. exact write_bits_any_junk. Qed.
Print Assumptions C06_writers_ignore_stale_bits.

(** every composite writer is [write_bits] of its encoding (so the theorem
    above covers WriteUint/Int/BigUint/BigInt/Bytes/BitString/Unary/LimUint) *)
Theorem C06_every_writer_is_write_bits :
  forall tab, debruijn_ok tab = true ->
  forall it s, item_ok it -> write_item tab it s = write_bits (enc_item it) s.
Proof. exact write_item_enc. Qed.

(** The BitString RETURNED by ReadBits(n): its ideal content is the n bits
    read, it satisfies [Inv] (so every theorem of this file applies to it,
    whatever its last byte holds after position n), capacity n, cursor 0. *)
Theorem C06_read_bits_result :
  forall n s, Inv s ->
  if (rcur s + n <=? len s)%nat then
    exists r, read_bits_bs n s = (adv s n, Ok r) /\
      abs r = rd s n /\ Inv r /\ len r = n /\ cap r = n /\ rcur r = 0%nat
  else read_bits_bs n s = (s, Err ENotEnoughBits).
Proof. exact read_bits_bs_spec. Qed.
Print Assumptions C06_read_bits_result.

(** the buffer of an aligned ReadBits result: the n bits, then zeros *)
Theorem C06_read_bits_result_buffer :
  forall n s s' r, (rcur s mod 8 = 0)%nat -> read_bits_bs n s = (s', Ok r) ->
  buf r = firstn n (skipn (rcur s) (buf s)) ++ zeros (8 * nbytes n - n).
Proof. exact read_bits_bs_aligned_clean. Qed.

Theorem C06_read_bits_before_fix_kept_stale_bits :
  exists s' r r', read_bits_bs_before_fix 1 src_BFFF = (s', Ok r) /\
    abs r = [true] /\ buf r = buf junk_one /\
    read_bits_bs 1 src_BFFF = (s', Ok r') /\
    abs r' = [true] /\ buf r' = [true; false; false; false; false; false; false; false].
Proof. exact read_bits_before_fix_kept_stale_bits. Qed.

(** On(n) / Off(n): Overflow iff n >= cap; below len the ideal bit n changes,
    at or after len the ideal list is untouched (only junk changes) *)
Theorem C06_on_off :
  forall n v s, Inv s ->
  if (n <? cap s)%nat then
    exists s', set_bit n v s = (s', Ok tt) /\ Inv s' /\
      len s' = len s /\ cap s' = cap s /\ rcur s' = rcur s /\
      abs s' = (if (n <? len s)%nat then set_nth n v (abs s) else abs s)
  else set_bit n v s = (s, Err EOverflow).
Proof. exact set_bit_spec. Qed.

Theorem C06_read_remaining_result :
  forall s, Inv s ->
  exists r, read_remaining_bs s = (set_rcur s (len s), r) /\
    abs r = skipn (rcur s) (abs s) /\ Inv r /\ len r = (len s - rcur s)%nat /\
    cap r = len r /\ rcur r = 0%nat.
Proof. exact read_remaining_bs_spec. Qed.

Theorem C06_copy : forall s, Inv s -> Inv (copy_bs s) /\ abs (copy_bs s) = abs s.
Proof. exact copy_bs_spec. Qed.

Theorem C06_grow :
  forall k s, Inv s -> Inv (grow k s) /\ abs (grow k s) = abs s /\
    cap (grow k s) = (cap s + k)%nat /\ len (grow k s) = len s.
Proof. exact grow_spec. Qed.

(** Append never fails and appends exactly the ideal content of its argument —
    for every buffer content of the receiver beyond its length. *)
Theorem C06_append :
  forall b s, Inv s -> Inv b ->
  exists s', append_bs b s = (s', Ok tt) /\ abs s' = abs s ++ abs b /\ Inv s' /\
    rcur s' = rcur s /\ len s' = (len s + len b)%nat.
Proof. exact append_bs_spec. Qed.
Print Assumptions C06_append.

(** ToFiftHex as the Go code computes it (hex of the buffer; Copy + Grow +
    completion tag + zero padding when len mod 4 <> 0) is the ideal text form of
    the ideal bit list; with [C06_fift_roundtrip]: the text converts back to the
    same bits, whatever the buffer holds past len. *)
Theorem C06_to_fift_on_buffer :
  forall s, Inv s -> to_fift_bs s = Ok (to_fift (abs s)).
Proof. exact to_fift_bs_spec. Qed.
Print Assumptions C06_to_fift_on_buffer.

(** GetTopUppedArray (the bytes serialised / hashed for a cell) *)
Theorem C06_top_upped :
  forall s, Inv s ->
  let tu := (8 * nbytes (len s) - len s)%nat in
  top_upped s =
    if (tu =? 0)%nat then Ok (bytes_of_bits (nbytes (len s)) (abs s))
    else if (len s + tu <=? cap s)%nat
         then Ok (bytes_of_bits (nbytes (len s)) (abs s ++ true :: zeros (tu - 1)))
         else Err EOverflow.
Proof. exact top_upped_spec. Qed.

(** What makes the above true is that WriteBit(false) CLEARS its bit.  With a
    WriteBit whose false branch only checks the range ([write_bit_noclear],
    Proofs/C06History.v) the statement is false, with concrete witnesses on
    [junk_one] (the bit 1 followed by junk 0111111, reachable through
    NewBitString(8); WriteBit(true); On(2..7)); it stays true only for all-zero
    junk, which is why fresh buffers do not show the difference. *)
Theorem C06_writers_ignore_stale_bits_noclear_refuted :
  ~ (forall (pre junk l : bits) (c r : nat),
       (length (pre ++ junk) mod 8 = 0)%nat ->
       (length pre + length l <= c)%nat -> (c <= length (pre ++ junk))%nat ->
       (r <= length pre)%nat ->
       exists s', write_bits_g write_bit_noclear l (mkbs (pre ++ junk) c (length pre) r) = (s', Ok tt) /\
         abs s' = pre ++ l).
Proof. exact writers_any_junk_noclear_refuted. Qed.

Theorem C06_junk_reachable_through_on :
  let s0 := fst (write_bit true (new_bs 8)) in
  fold_left (fun s n => fst (set_bit n true s)) [2; 3; 4; 5; 6; 7]%nat s0 = junk_one.
Proof. exact junk_one_reachable. Qed.

Theorem C06_append_noclear_refuted :
  exists r zs, Inv r /\ Inv zs /\
    exists r', append_g write_bit_noclear zs r = (r', Ok tt) /\
      abs r' <> abs r ++ abs zs /\
      abs r' = [true; false; true; true; true; true].
Proof. exact append_noclear_refuted. Qed.

Theorem C06_to_fift_noclear_refuted :
  Inv junk_one /\ abs junk_one = [true] /\
  to_fift_bs_g write_bit_noclear junk_one = Ok ([15%N], true) /\
  to_fift (abs junk_one) = ([12%N], true) /\
  to_fift_bs junk_one = Ok ([12%N], true) /\
  from_fift [15%N] true = Some [true; true; true].
Proof. exact to_fift_noclear_refuted. Qed.

Theorem C06_top_upped_noclear_refuted :
  top_upped_g write_bit_noclear junk_one = Ok [255%N] /\
  top_upped junk_one = Ok [192%N].
Proof. exact top_upped_noclear_refuted. Qed.

Theorem C06_noclear_unobservable_on_zero_junk :
  forall (pre l : bits) k c r,
  (length l <= k)%nat -> (length pre + length l <= c)%nat ->
  exists s', write_bits_g write_bit_noclear l (mkbs (pre ++ zeros k) c (length pre) r) = (s', Ok tt) /\
    abs s' = pre ++ l.
Proof. exact writers_zero_junk_noclear. Qed.

(** ** Nested bit strings: WriteBitString / Cell.WriteBitString / Append write
    ALL bits of the argument, whatever its read cursor is (partly read, fully
    consumed, even out of range); the argument is passed by value, so the
    caller's bit string — cursor included — is untouched (in the model the
    argument is not part of the result state at all). *)
Theorem C06_write_bitstring_whole_argument :
  forall a r s, Inv s -> Inv a ->
  if (len s + len a <=? cap s)%nat then
    exists s', write_bitstring (set_rcur a r) s = (s', Ok tt) /\
      abs s' = abs s ++ abs a /\ Inv s' /\ len s' = (len s + len a)%nat /\ rcur s' = rcur s
  else
    exists s', write_bitstring (set_rcur a r) s = (s', Err EOverflow) /\
      firstn (len s) (abs s') = abs s /\ Inv s'.
Proof. exact write_bitstring_spec. Qed.
Print Assumptions C06_write_bitstring_whole_argument.

Theorem C06_write_bitstring_ignores_argument_cursor :
  forall a r s, write_bitstring (set_rcur a r) s = write_bitstring a s.
Proof. exact write_bitstring_any_cursor. Qed.

Theorem C06_append_ignores_argument_cursor :
  forall b r s, append_bs (set_rcur b r) s = append_bs b s.
Proof. exact append_any_cursor. Qed.

(** a WriteBitString that starts at the argument's read cursor stores only the
    unread remainder: 0xBEEF after ReadUint(4) into a 3-bit string gives 15
    bits instead of 19; a fully consumed 8-bit argument stores nothing *)
Theorem C06_write_bitstring_from_cursor_refuted :
  exists a a' v s, Inv a /\ Inv s /\ read_uint 4 a = (a', Ok v) /\ Inv a' /\
    (len s + len a' <= cap s)%nat /\
    let s' := fst (write_bitstring_from_cursor a' s) in
    len s' = 15%nat /\ abs s' <> abs s ++ abs a' /\
    abs (fst (write_bitstring a' s)) = abs s ++ abs a' /\ len (fst (write_bitstring a' s)) = 19%nat.
Proof. exact write_bitstring_from_cursor_refuted. Qed.

Theorem C06_write_bitstring_from_cursor_consumed_refuted :
  exists a s, Inv a /\ Inv s /\ rcur a = len a /\ len a = 8%nat /\
    write_bitstring_from_cursor a s = (s, Ok tt) /\
    len (fst (write_bitstring a s)) = (len s + 8)%nat.
Proof. exact write_bitstring_from_cursor_consumed_refuted. Qed.

(** ** References of a cell: 4 slots and a cursor (Model/CellRefs.v: a heap of
    cells, a cell is named by its index; [crefs] is the used prefix of the Go
    array [4]*Cell) *)

(** AddRef fails exactly when the 4 slots are used, and then leaves the cell
    unchanged; otherwise the reference goes into the first free slot. *)
Theorem C06_add_ref :
  forall j c,
  add_ref j c =
    if (length (crefs c) <? 4)%nat
    then (mkcc (cbits c) (crefs c ++ [j]) (crc c), Ok tt)
    else (c, Err ERefsOverflow).
Proof. exact add_ref_spec. Qed.

(** NextRef, one call, for EVERY value of the cursor: the reference under the
    cursor (cursor + 1, the child's counters reset) or ErrNotEnoughRefs with
    nothing changed — never a panic, in particular not on a full cell after its
    fourth reference. *)
Theorem C06_next_ref :
  forall h i, (length (crefs (hget h i)) <= 4)%nat ->
  let c := hget h i in
  next_ref h i =
    match nth_error (crefs c) (crc c) with
    | Some r =>
        let h1 := hset h i (mkcc (cbits c) (crefs c) (S (crc c))) in
        (hset h1 r (reset_counters (hget h1 r)), Ok r)
    | None => (h, Err ENotEnoughRefs)
    end.
Proof. exact next_ref_spec. Qed.
Print Assumptions C06_next_ref.

Theorem C06_next_ref_never_panics :
  forall h i p, (length (crefs (hget h i)) <= 4)%nat -> snd (next_ref h i) <> Panic p.
Proof. exact next_ref_never_panics. Qed.

Theorem C06_next_ref_past_end :
  forall h i, (length (crefs (hget h i)) <= 4)%nat ->
  (length (crefs (hget h i)) <= crc (hget h i))%nat ->
  next_ref h i = (h, Err ENotEnoughRefs).
Proof. exact next_ref_past_end. Qed.

(** Reading from the start yields the references in insertion order, then the
    error for ever. *)
Theorem C06_next_refs_in_insertion_order :
  forall h i, wf h i -> crc (hget h i) = 0%nat ->
  exists h', next_refs_g next_ref (length (crefs (hget h i))) h i [] = (h', Ok (crefs (hget h i))) /\
    next_ref h' i = (h', Err ENotEnoughRefs) /\
    refs_avail (hget h' i) = 0%nat.
Proof. exact next_refs_all_in_order. Qed.
Print Assumptions C06_next_refs_in_insertion_order.

(** CopyRemaining: a new cell with exactly the unread bits and the unread
    references; the source keeps both cursors; cells that are neither the
    source nor among the unread references are untouched. *)
Theorem C06_copy_remaining :
  forall h i, wf h i -> Inv (cbits (hget h i)) ->
  (crc (hget h i) <= length (crefs (hget h i)))%nat ->
  let c := hget h i in
  exists h2 rem,
    copy_remaining h i = (h2 ++ [mkcc rem (skipn (crc c) (crefs c)) 0], Ok (length h)) /\
    length h2 = length h /\
    hget h2 i = c /\
    (forall j, j <> i -> ~ In j (skipn (crc c) (crefs c)) -> hget h2 j = hget h j) /\
    abs rem = skipn (rcur (cbits c)) (abs (cbits c)) /\ Inv rem /\ rcur rem = 0%nat.
Proof. exact copy_remaining_spec. Qed.
Print Assumptions C06_copy_remaining.

(** a NextRef whose guard is [refCursor > 4] instead of [> 3]: the fifth call
    on a full cell indexes refs[4] and panics; with fewer than 4 references it
    cannot be told apart *)
Theorem C06_next_ref_guard4_refuted :
  exists h', next_refs_g next_ref_guard4 4 full_heap 0 [] = (h', Ok [1; 2; 3; 4]%nat) /\
    next_ref_guard4 h' 0 = (h', Panic PIndex) /\
    next_ref h' 0 = (h', Err ENotEnoughRefs).
Proof. exact next_ref_guard4_refuted. Qed.

Theorem C06_next_ref_guard4_same_below_4 :
  forall h i, (crc (hget h i) <= length (crefs (hget h i)))%nat ->
  (length (crefs (hget h i)) < 4)%nat ->
  next_ref_guard4 h i = next_ref h i.
Proof. exact next_ref_guard4_same_below_4. Qed.

Example C06_full_cell_premises :
  let h := [mkcc (new_bs 1023) [1; 2; 3; 4]%nat 0; new_cell; new_cell; new_cell; new_cell] in
  wf h 0 /\ Inv (cbits (hget h 0)) /\ length (crefs (hget h 0)) = 4%nat.
Proof. exact full_cell_premises. Qed.

(** ** Ownership: what Copy returns is the caller's (Model/BitStringOwn.v: bit
    strings as handles into a store of buffers, so that sharing is expressible) *)

(** any value-level operation done through one handle leaves the bit string
    behind every other buffer as it was *)
Theorem C06_write_through_handle_frame :
  forall A (f : bs -> bs * A) st b st' b' r other,
  h_apply f st b = (st', b', r) -> bid other <> bid b ->
  view st' other = view st other.
Proof. exact @h_apply_frame. Qed.

(** Copy yields a NEW buffer with the same bits and cursor 0 ... *)
Theorem C06_copy_fresh_buffer :
  forall st b, (bid b < length st)%nat ->
  let '(st', c) := h_copy st b in
  bid c = length st /\ bid c <> bid b /\
  view st' c = copy_bs (view st b) /\
  (forall o, (bid o < length st)%nat -> view st' o = view st o).
Proof. exact h_copy_spec. Qed.

(** ... hence source, copy and a sibling copy are independent, whichever is
    written first, for every operation f (incl. an EMPTY source) *)
Theorem C06_copy_independent :
  forall A (f : bs -> bs * A) st b, (bid b < length st)%nat ->
  let '(st1, c) := h_copy st b in
  (let '(st2, _, _) := h_apply f st1 c in view st2 b = view st b) /\
  (let '(st2, _, _) := h_apply f st1 b in view st2 c = copy_bs (view st b)) /\
  (let '(st2, c2) := h_copy st1 b in
   let '(st3, _, _) := h_apply f st2 c2 in view st3 c = copy_bs (view st b)).
Proof. exact @copy_independent. Qed.
Print Assumptions C06_copy_independent.

(** a Copy that shares the buffer of a source with nothing written: the first
    copy (0xAAAA) reads back what was written into its sibling (0x1234), and
    the empty source's buffer holds bits *)
Theorem C06_copy_shared_buffer_refuted :
  let '(st0, s) := h_new 16 [] in
  let '(st1, a) := h_copy_shared st0 s in
  let '(st2, b) := h_copy_shared st1 s in
  let '(st3, a', _) := h_write_bits (bits_of 16 43690) st2 a in
  let '(st4, b', _) := h_write_bits (bits_of 16 4660) st3 b in
  abs (view st3 a') = bits_of 16 43690 /\
  abs (view st4 a') = bits_of 16 4660 /\
  buf (view st4 s) <> buf (view st0 s) /\ hlen s = 0%nat /\
  (let '(st1, a) := h_copy st0 s in
   let '(st2, b) := h_copy st1 s in
   let '(st3, a', _) := h_write_bits (bits_of 16 43690) st2 a in
   let '(st4, b', _) := h_write_bits (bits_of 16 4660) st3 b in
   abs (view st4 a') = bits_of 16 43690 /\ abs (view st4 b') = bits_of 16 4660 /\
   buf (view st4 s) = buf (view st0 s)).
Proof. exact h_copy_shared_refuted. Qed.

(** Non-vacuity: a concrete non-trivial state and item list meet the premises. *)
Example C06_premises_satisfiable :
  let s := fst (write_bits [true; false; true] (new_bs 200)) in
  let s := set_rcur s 3 in
  let its := [IUint 200 9; IInt (-3) 5; IBigUint 1000 17; IBigInt (-70000) 65;
              IBytes [1; 255]%N; IBits [true]; IUnary 4; ILim 5 9] in
  Inv s /\ rcur s = len s /\ Forall item_ok its /\
  (len s + length (enc_items its) <= cap s)%nat.
Proof.
  cbn zeta. split; [|split; [reflexivity|split]].
  - unfold Inv. vm_compute. repeat split; lia.
  - repeat constructor; unfold int_fits; cbn; try lia.
  - vm_compute. lia.
Qed.
