(** C01 — the serialiser stores every cell once and emits references strictly
    forward: the cell re-ordering of boc.go ([reorderCells], [revisit]) and the
    import phase ([importRoots], [importCell]) are valid for EVERY input.
    Statements only; proofs in Proofs/BocReorderP1..P4.v. *)
From Coq Require Import List NArith ZArith Arith Bool Lia Permutation.
From Tongo Require Import Lib.Bits Lib.Res Model.BocParse Model.BocSer
  Proofs.BocReorderP1 Proofs.BocReorderP2 Proofs.BocReorderP3 Proofs.BocReorderP4.
Import ListNotations.

(** [reorder_valid].  For every cell array [st] in which each cell refers only
    to cells of smaller index (the post-order built by importCell) and no cell
    has been numbered yet, with ARBITRARY weights / cache flags / payloads, and
    every list of roots inside the array:
    - the model returns [Ok] (in particular the fuel 4n+8 is never exhausted),
    - the emitted list [nl] has no duplicates and contains only cells of the array,
    - the new index of a cell is exactly its position in [nl],
    - every cell reachable from a root is in [nl],
    - every emitted cell keeps its number of references; its j-th reference now
      holds the new index of its ORIGINAL j-th child (the same child may occur
      several times), that child is emitted too and its new index is strictly
      smaller than the cell's own,
    - the roots are emitted and the returned root indices are their new indices,
    - payload index, cache flag and hash count of every cell are untouched. *)
Theorem C01_reorder_valid :
  forall (st : list cinfo) (roots : list nat),
  (forall i, i < length st ->
     ci_new (get_ci st i) = (-1)%Z /\ forall c, In c (ci_refs (get_ci st i)) -> c < i) ->
  (forall r, In r roots -> r < length st) ->
  exists stf nl,
    reorder st roots = Ok (stf, nl, map (fun r => Z.to_nat (ci_new (get_ci stf r))) roots) /\
    length stf = length st /\
    NoDup nl /\
    (forall i, In i nl -> i < length st) /\
    (forall k i, nth_error nl k = Some i <-> ci_new (get_ci stf i) = Z.of_nat k) /\
    (forall i, reach (fun x => ci_refs (get_ci st x)) roots i -> In i nl) /\
    (forall i, In i nl ->
       length (ci_refs (get_ci stf i)) = length (ci_refs (get_ci st i)) /\
       forall j, j < length (ci_refs (get_ci st i)) ->
         In (nth j (ci_refs (get_ci st i)) 0) nl /\
         nth j (ci_refs (get_ci stf i)) 0
           = Z.to_nat (ci_new (get_ci stf (nth j (ci_refs (get_ci st i)) 0))) /\
         Z.to_nat (ci_new (get_ci stf (nth j (ci_refs (get_ci st i)) 0)))
           < Z.to_nat (ci_new (get_ci stf i))) /\
    (forall r, In r roots -> In r nl) /\
    (forall i, ci_node (get_ci stf i) = ci_node (get_ci st i) /\
               ci_cache (get_ci stf i) = ci_cache (get_ci st i) /\
               ci_hashcount (get_ci stf i) = ci_hashcount (get_ci st i)).
Proof. exact reorder_valid. Qed.
Print Assumptions C01_reorder_valid.

(** Fuel exhaustion of the model is unreachable. *)
Theorem C01_reorder_never_out_of_fuel :
  forall (st : list cinfo) (roots : list nat),
  (forall i, i < length st ->
     ci_new (get_ci st i) = (-1)%Z /\ forall c, In c (ci_refs (get_ci st i)) -> c < i) ->
  (forall r, In r roots -> r < length st) ->
  reorder st roots <> Err EFuel.
Proof. exact reorder_no_fuel. Qed.

(** "Shared sub-trees are stored once": when every cell of the array is
    reachable from the roots, the emitted list is a permutation of the array. *)
Theorem C01_reorder_stores_each_cell_once :
  forall (st : list cinfo) (roots : list nat),
  (forall i, i < length st ->
     ci_new (get_ci st i) = (-1)%Z /\ forall c, In c (ci_refs (get_ci st i)) -> c < i) ->
  (forall r, In r roots -> r < length st) ->
  (forall i, i < length st -> reach (fun x => ci_refs (get_ci st x)) roots i) ->
  exists stf nl ri, reorder st roots = Ok (stf, nl, ri) /\ Permutation nl (seq 0 (length st)).
Proof. exact reorder_permutation. Qed.

(** The serialiser writes cell [i] at position [length nl - 1 - newIndex i] and
    reference [r] as [length nl - 1 - r]: references point strictly forward and
    stay inside the bag — the premise of [C01_parse_layout]. *)
Theorem C01_reorder_refs_forward :
  forall (st : list cinfo) (roots : list nat) stf nl ri,
  (forall i, i < length st ->
     ci_new (get_ci st i) = (-1)%Z /\ forall c, In c (ci_refs (get_ci st i)) -> c < i) ->
  (forall r, In r roots -> r < length st) ->
  reorder st roots = Ok (stf, nl, ri) ->
  forall i, In i nl -> forall j, j < length (ci_refs (get_ci stf i)) ->
    length nl - 1 - Z.to_nat (ci_new (get_ci stf i))
      < length nl - 1 - nth j (ci_refs (get_ci stf i)) 0 /\
    nth j (ci_refs (get_ci stf i)) 0 < length nl.
Proof. exact reorder_forward. Qed.

(** The two weight passes and the root marking of reorderCells change nothing
    but [ci_wt] and [ci_root]: for the traversal the weights are an arbitrary
    assignment (so the theorems survive any retuning of the heuristic). *)
Theorem C01_reorder_passes_touch_only_weights :
  forall (st : list cinfo) (roots : list nat),
  length (prep st roots) = length st /\
  forall i,
    ci_node (get_ci (prep st roots) i) = ci_node (get_ci st i) /\
    ci_cache (get_ci (prep st roots) i) = ci_cache (get_ci st i) /\
    ci_refs (get_ci (prep st roots) i) = ci_refs (get_ci st i) /\
    ci_hashcount (get_ci (prep st roots) i) = ci_hashcount (get_ci st i) /\
    ci_new (get_ci (prep st roots) i) = ci_new (get_ci st i).
Proof. exact prep_shape. Qed.

(** Import + re-ordering on a forward-referencing input array (any sharing
    decided by the supplied hashes): the model never runs out of fuel; when it
    succeeds, the import array satisfies the precondition above, all its cells
    are reachable, and the emitted list is a permutation of it
    ([reorder_pre] / [reorder_post] are the premise / the conjuncts 2.. of the
    conclusion of [C01_reorder_valid], defined in Proofs/BocReorderP3.v). *)
Theorem C01_import_roots_valid :
  forall (dag : list node) (hashes : list (res bytes)),
  (forall cell nd, nth_error dag cell = Some nd -> forall r, In r (n_refs nd) -> cell < r) ->
  (forall cell e, nth_error hashes cell = Some (Err e) -> e <> EFuel) ->
  forall roots : list nat,
  match import_roots dag hashes roots with
  | Ok (stf, nl, rootidx) =>
      exists st m rootpos,
        import_phase dag hashes roots = Ok (st, m, rootpos) /\
        reorder_pre st /\
        rootidx = map (newidx stf) rootpos /\
        reorder_post st rootpos stf nl /\
        Permutation nl (seq 0 (length st))
  | Err e => e <> EFuel
  | Panic _ => True
  end.
Proof. exact import_roots_valid. Qed.
Print Assumptions C01_import_roots_valid.

(** Hence [Err EFuel] ("model ran out of fuel: never a real outcome") is
    unreachable for the whole serialiser model. *)
Theorem C01_serialize_never_out_of_fuel :
  forall (dag : list node) (hashes : list (res bytes)) (roots : list nat) (idx hasCrc cacheBits : bool),
  (forall cell nd, nth_error dag cell = Some nd -> forall r, In r (n_refs nd) -> cell < r) ->
  (forall cell e, nth_error hashes cell = Some (Err e) -> e <> EFuel) ->
  serialize dag hashes roots idx hasCrc cacheBits <> Err EFuel.
Proof. exact serialize_no_fuel. Qed.

(** Non-vacuity: five cells, cell 2 refers twice to cell 1 and becomes special
    (weight 0 after the passes), cell 3 refers twice to cell 2 and shares cell 0,
    two roots (one of them an inner cell).  The emitted order is not the
    identity and every reference is remapped. *)
Definition ex_st : list cinfo :=
  [ mkci 10 false 1 [] 1 (-1) false;
    mkci 11 false 1 [] 1 (-1) false;
    mkci 12 true 1 [1; 1] 1 (-1) false;
    mkci 13 false 9 [2; 0; 2] 1 (-1) false;
    mkci 14 false 200 [3; 1] 1 (-1) false ].

Example C01_reorder_example :
  (forall i, i < length ex_st ->
     ci_new (get_ci ex_st i) = (-1)%Z /\ forall c, In c (ci_refs (get_ci ex_st i)) -> c < i) /\
  (forall r, In r [4; 2] -> r < length ex_st) /\
  (forall i, i < length ex_st -> reach (fun x => ci_refs (get_ci ex_st x)) [4; 2] i) /\
  exists stf,
    reorder ex_st [4; 2] = Ok (stf, [1; 2; 0; 3; 4], [4; 1]) /\
    map ci_refs stf = [[]; []; [0; 0]; [1; 2; 1]; [3; 0]] /\
    map ci_wt stf = [1; 1; 0; 2; 4].
Proof.
  split; [|split; [|split]].
  - intros i Hi.
    do 5 (destruct i as [|i];
          [cbn; split; [reflexivity|intros c Hc; cbn in Hc; intuition lia]|]).
    cbn in Hi. lia.
  - intros r Hr. cbn in *. intuition lia.
  - assert (R4 : reach (fun x => ci_refs (get_ci ex_st x)) [4; 2] 4)
      by (apply reach_root; cbn; auto).
    assert (R3 : reach (fun x => ci_refs (get_ci ex_st x)) [4; 2] 3)
      by (apply reach_child with (i := 4); [exact R4|cbn; auto]).
    assert (R2 : reach (fun x => ci_refs (get_ci ex_st x)) [4; 2] 2)
      by (apply reach_root; cbn; auto).
    assert (R1 : reach (fun x => ci_refs (get_ci ex_st x)) [4; 2] 1)
      by (apply reach_child with (i := 4); [exact R4|cbn; auto]).
    assert (R0 : reach (fun x => ci_refs (get_ci ex_st x)) [4; 2] 0)
      by (apply reach_child with (i := 3); [exact R3|cbn; auto]).
    intros i Hi. do 5 (destruct i as [|i]; [assumption|]). cbn in Hi. lia.
  - eexists. split; [vm_compute; reflexivity|]. split; vm_compute; reflexivity.
Qed.

(** Non-vacuity of the import theorem: cells 1 and 2 of the input have the same
    hash (same structure, different pointers) and are stored once. *)
Definition ex_dag : list node :=
  [ mknode false 0 0 [true] [1; 2; 3];
    mknode false 0 0 [false] [3];
    mknode false 0 0 [false] [3];
    mknode false 0 0 [] [] ].
Definition ex_hashes : list (res bytes) := [Ok [0%N]; Ok [1%N]; Ok [1%N]; Ok [3%N]].

Example C01_import_example :
  (forall cell nd, nth_error ex_dag cell = Some nd -> forall r, In r (n_refs nd) -> cell < r) /\
  (forall cell e, nth_error ex_hashes cell = Some (Err e) -> e <> EFuel) /\
  exists stf,
    import_roots ex_dag ex_hashes [0] = Ok (stf, [0; 1; 2], [2]) /\
    map ci_node stf = [3; 1; 0] /\ map ci_refs stf = [[]; [0]; [1; 1; 0]] /\
    map ci_cache stf = [true; true; false].
Proof.
  split; [|split].
  - intros cell nd Hc r Hr.
    do 4 (destruct cell as [|cell]; [injection Hc as <-; cbn in Hr; intuition lia|]).
    destruct cell; discriminate.
  - intros cell e Hc.
    do 4 (destruct cell as [|cell]; [discriminate|]). destruct cell; discriminate.
  - eexists. split; [vm_compute; reflexivity|]. split; [|split]; vm_compute; reflexivity.
Qed.
