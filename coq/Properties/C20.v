(** C20 — JSON forms of chain values parse back to the same value.

    Statements only; proofs are in Proofs/Json*.v.  [print_*] / [parse_*] are
    the MarshalJSON / UnmarshalJSON methods of Model/Json.v over byte strings,
    [json_unmarshal parse doc] is json.Unmarshal(doc, &x), [json_valid] is the
    scanner of encoding/json (ported state by state; the Go package itself is
    trusted and tied by the correspondence run only). *)
From Coq Require Import List NArith ZArith Bool.
From Tongo Require Import Lib.Bits Lib.Res Model.BitString Model.BitStringD Model.JsonText Model.Json
  Proofs.BitStringR  Proofs.JsonTextP Proofs.JsonValidP Proofs.JsonP Proofs.JsonAddrP Proofs.JsonAcctP Proofs.C20CellP.
From Tongo Require Model.Address.
Import ListNotations.
Local Open Scope N_scope.

(** * 1. round trip at method level, per family, over the whole domain *)

(* tlb.Uint1 .. Uint64: any width, any value of that width *)
Theorem C20_uint_roundtrip :
  forall w v, v < 2 ^ w -> parse_uint_json w (print_uint w v) = Ok v.
Proof. exact uint_roundtrip. Qed.

(* tlb.Int1 .. Int64, including the minimum -2^(w-1) *)
Theorem C20_int_roundtrip :
  forall w z, 1 <= w -> (- Z.of_N (2 ^ (w - 1)) <= z < Z.of_N (2 ^ (w - 1)))%Z ->
  parse_int_json w (print_int w z) = Ok z.
Proof. exact int_roundtrip. Qed.

(* Uint128/256/257, Int128/256/257, VarUInteger1..32 (big.Int): every integer *)
Theorem C20_big_roundtrip : forall z, parse_big_json (print_big z) = Ok z.
Proof. exact big_roundtrip. Qed.

(* tlb.Bits80 .. Bits512, tlb.Bits256: n bytes *)
Theorem C20_bytes_hex_roundtrip :
  forall n bs, bytes_ok bs -> length bs = n -> parse_bytes_hex n (print_bytes_hex bs) = Ok bs.
Proof. exact bytes_hex_roundtrip. Qed.

Theorem C20_grams_roundtrip : forall v, v < 2 ^ 64 -> parse_grams (print_grams v) = Ok v.
Proof. exact grams_roundtrip. Qed.

(* SignedCoins, all of int64 (after the repair of F8) *)
Theorem C20_coins_roundtrip :
  forall z, (- 2 ^ 63 <= z < 2 ^ 63)%Z -> parse_coins (print_coins z) = Ok z.
Proof. exact coins_roundtrip. Qed.

(* history: the method as it was (ParseUint) rejected every negative amount *)
Theorem C20_coins_before_fix_refuted : parse_coins_before_fix (print_coins (-1)) = Err ESyntax.
Proof. exact coins_before_fix_refuted. Qed.

Theorem C20_magic_roundtrip : forall m, m < 2 ^ 32 -> parse_magic (print_magic m) = Ok m.
Proof. exact magic_roundtrip. Qed.

(* Maybe[T] over any family whose printed form is a number or a plain string *)
Theorem C20_maybe_roundtrip :
  forall (A : Type) (pr : A -> str) (pa : str -> res A),
  (forall v, json_number_or_plain_string (pr v)) -> (forall v, pa (pr v) = Ok v) ->
  forall m, parse_maybe pa (print_maybe pr m) = Ok m.
Proof. exact @maybe_roundtrip. Qed.

(* boc.Cell / tlb.Any: relative to the serialiser round trip (C01) *)
Theorem C20_cell_roundtrip :
  forall (cell : Type) (ser : cell -> res (list N)) (deser : list N -> res (list cell)),
  (forall c bs, ser c = Ok bs -> bytes_ok bs) ->
  (forall c bs, ser c = Ok bs -> deser bs = Ok [c]) ->
  forall c doc, print_cell ser c = Ok doc ->
  parse_cell deser doc = Ok c /\ json_number_or_plain_string doc.
Proof.
  intros cell ser deser Hb Hrt c doc H. split;
    [exact (cell_roundtrip ser deser Hb Hrt c doc H)|exact (cell_shape ser Hb c doc H)].
Qed.

(* a well-formed bag of cells whose number of roots is not one -- zero roots
   included -- is reported as an error (cells[0] is an explicit panic site of the
   model; the refuted "more than one" design is in Proofs/C20History.v) *)
Theorem C20_cell_root_count_is_error :
  forall (cell : Type) (deser : list N -> res (list cell)) p bs cs,
  hex_decode (trim_quotes p) = Some bs -> deser bs = Ok cs -> length cs <> 1%nat ->
  parse_cell deser p = Err EOther.
Proof. exact @parse_cell_root_count. Qed.

(* Cell.UnmarshalJSON with the BOC parser of C07 plugged in: for EVERY text --
   any header variant (index, CRC, cache bits, lean magics, any field widths,
   any number of roots), cut or altered anywhere -- a value or an error, never
   a panic *)
Theorem C20_cell_decoder_total :
  forall (s : str) p, parse_cell deser_boc s <> Panic p.
Proof. exact parse_cell_boc_total. Qed.

(* boc.BitString: every bit list, empty and 1023 bits included *)
Theorem C20_bitstring_roundtrip : forall l : bits, parse_bitstring (print_bitstring l) = Ok l.
Proof. exact bitstring_roundtrip. Qed.

(* MarshalJSON of a bit string is ToFiftHex on the writer's buffer (Copy, Grow,
   completion tag: Model.BitStringD.to_fift_bs).  For every buffer state it is
   the text of the WRITTEN bits alone: independent of the capacity (free bits
   left in the buffer) and of what the buffer holds past the length.  So two
   bit strings with the same written bits print identically ... *)
Theorem C20_print_depends_only_on_written_bits :
  forall s : bs, Inv s -> print_bitstring_bs s = Ok (print_bitstring (abs s)).
Proof. exact print_bitstring_bs_spec. Qed.

Theorem C20_print_capacity_independent :
  forall s1 s2 : bs, Inv s1 -> Inv s2 -> abs s1 = abs s2 ->
  print_bitstring_bs s1 = print_bitstring_bs s2.
Proof.
  intros s1 s2 H1 H2 E. rewrite (print_bitstring_bs_spec s1 H1), (print_bitstring_bs_spec s2 H2), E.
  reflexivity.
Qed.

(* ... and a string written into a fresh buffer with any number of free bits
   prints as the ideal form and parses back *)
Theorem C20_written_bitstring_roundtrip :
  forall (l : bits) (free : nat),
  print_bitstring_bs (written_bs l free) = Ok (print_bitstring l)
  /\ parse_bitstring (print_bitstring l) = Ok l.
Proof. exact written_bitstring_roundtrip. Qed.

(* the BitString that ReadBits returns (what the TL-B decoder puts into
   addr_extern / addr_var / bit-string fields): whatever source bits its last
   byte keeps behind the length, the JSON text is that of the bits read and it
   parses back to them (the design that rounds the length up instead of writing
   the zero padding is refuted in Proofs/C20History.v) *)
Theorem C20_read_bitstring_roundtrip :
  forall n (s s' r : bs), Inv s -> read_bits_bs n s = (s', Ok r) ->
  abs r = rd s n /\ print_bitstring_bs r = Ok (print_bitstring (rd s n))
  /\ parse_bitstring (print_bitstring (rd s n)) = Ok (rd s n).
Proof. exact read_bitstring_roundtrip. Qed.

(* bits switched on behind the length with the exported On(n) -- since the
   repair of ReadBits the public way to have junk there -- do not show *)
Theorem C20_on_bitstring_roundtrip :
  forall l tail : bits, print_bitstring_bs (on_bs l tail) = Ok (print_bitstring l).
Proof. exact on_bitstring_roundtrip. Qed.

(* cells: every cell of the domain HAS a JSON form -- relative to the
   serialiser being total on the domain (C01; the harness checks it at the
   limits: depth 1023/1024 and 255..257, 65535..65537 distinct cells) *)
Theorem C20_cell_has_json :
  forall (cell : Type) (dom : cell -> Prop)
         (ser : cell -> res (list N)) (deser : list N -> res (list cell)),
  (forall c, dom c -> exists bs, ser c = Ok bs) ->
  (forall c bs, ser c = Ok bs -> bytes_ok bs) ->
  (forall c bs, ser c = Ok bs -> deser bs = Ok [c]) ->
  forall c, dom c -> exists doc, print_cell ser c = Ok doc /\ parse_cell deser doc = Ok c.
Proof.
  intros cell dom ser deser Ht Hb Hrt c Hc. destruct (Ht c Hc) as [bs E].
  exists (quote (print_hex bs)). assert (Hp : print_cell ser c = Ok (quote (print_hex bs))).
  { unfold print_cell. rewrite E. reflexivity. }
  split; [exact Hp|exact (cell_roundtrip ser deser Hb Hrt c _ Hp)].
Qed.

(* tlb.MsgAddress: every kind, with and without anycast.  Guards: the
   property's excluded case (variable address of 256 bits with an 8-bit
   workchain) and the finding F17 (external address of length 0). *)
Theorem C20_msgaddr_roundtrip :
  forall a, msgaddr_wf a -> ~ std_lookalike a -> a <> AddrExtern [] ->
  parse_msgaddr (print_msgaddr a) = Ok a.
Proof. exact msgaddr_roundtrip. Qed.

(* F17, finding key addr-extern-empty *)
Theorem C20_msgaddr_empty_extern_refuted :
  parse_msgaddr (print_msgaddr (AddrExtern [])) = Ok AddrNone /\ AddrExtern [] <> AddrNone.
Proof. exact msgaddr_empty_extern_refuted. Qed.

(* the excluded case really is ambiguous *)
Theorem C20_msgaddr_lookalike_refuted :
  let a := AddrVar None 256 0 (repeat false 256) in
  msgaddr_wf a /\ parse_msgaddr (print_msgaddr a) = Ok (AddrStd None 0 (repeat 0 32)).
Proof. exact msgaddr_lookalike_refuted. Qed.

Theorem C20_ton_bits256_roundtrip :
  forall bs, bytes_ok bs -> length bs = 32%nat -> parse_ton_bits256 (print_bytes_hex bs) = Ok bs.
Proof. exact ton_bits256_roundtrip. Qed.

Theorem C20_tl_int256_roundtrip :
  forall bs, bytes_ok bs -> length bs = 32%nat ->
  exists doc, print_tl_int256 bs = Ok doc /\ parse_tl_int256 doc = Ok bs
              /\ json_number_or_plain_string doc.
Proof. exact tl_int256_roundtrip. Qed.

(* ton.AccountID: every int32 workchain *)
Theorem C20_account_roundtrip :
  forall wc addr, (- 2 ^ 31 <= wc < 2 ^ 31)%Z -> length addr = 32%nat -> bytes_ok addr ->
  exists doc, print_account wc addr = Ok doc /\ parse_account_json doc = Ok (wc, addr)
              /\ json_number_or_plain_string doc.
Proof. exact account_roundtrip. Qed.

(* the decoder accepts more texts than the encoder emits (user-friendly base64
   forms besides the raw one); a text without a colon whose base64 content is
   not EXACTLY 36 bytes -- a genuine address with groups appended, or a
   shortened one -- is an error (the design reading the first 36 bytes of a
   longer text is refuted in Proofs/C20History.v) *)
Theorem C20_account_wrong_length_rejected :
  forall s bs,
  Address.split_colon s = None ->
  Address.b64url_decode_string (map Address.plus_slash s) = Some bs -> length bs <> 36%nat ->
  Address.parse_account s = Err EOther.
Proof. exact parse_account_wrong_length. Qed.

(** * 2. the printed form is valid JSON: a number, or a string of characters
      that need no escape *)
Theorem C20_printed_is_json :
  (forall w v, json_number_or_plain_string (print_uint w v)) /\
  (forall w z, json_number_or_plain_string (print_int w z)) /\
  (forall z, json_number_or_plain_string (print_big z)) /\
  (forall bs, bytes_ok bs -> json_number_or_plain_string (print_bytes_hex bs)) /\
  (forall v, json_number_or_plain_string (print_grams v)) /\
  (forall z, json_number_or_plain_string (print_coins z)) /\
  (forall m, json_number_or_plain_string (print_magic m)) /\
  (forall l, json_number_or_plain_string (print_bitstring l)) /\
  (forall a, msgaddr_wf a -> json_number_or_plain_string (print_msgaddr a)).
Proof.
  repeat split; [exact uint_shape|exact int_shape|exact big_shape|exact bytes_hex_shape|
                 exact grams_shape|exact coins_shape|exact magic_shape|exact bitstring_shape|
                 exact msgaddr_shape].
Qed.

(* such a document passes the encoding/json scanner, is its own value item, and
   is not the literal null *)
Theorem C20_shape_is_valid_json :
  forall doc, json_number_or_plain_string doc ->
  json_valid doc = true /\ json_item doc = doc /\ doc <> s_null.
Proof. exact shape_valid. Qed.

(** * 3. document level: json.Unmarshal(json.Marshal(v)) = v follows from the
      method-level round trip for every family above *)
Theorem C20_document_roundtrip :
  forall (A : Type) (pa : str -> res A) doc v,
  json_number_or_plain_string doc -> pa doc = Ok v -> json_unmarshal pa doc = Ok v.
Proof. intros A pa doc v Hs Hp. rewrite (json_unmarshal_of_shape pa doc Hs). exact Hp. Qed.

(* a document that is not syntactically valid JSON is reported as an error,
   for every type *)
Theorem C20_malformed_document_rejected :
  forall (A : Type) (pa : str -> res A) doc,
  json_valid doc = false -> json_unmarshal pa doc = Err EJson.
Proof. exact @json_unmarshal_invalid. Qed.

(** * 4. totality: on arbitrary bytes every parser returns a value or an error,
      never a panic (the model has the slice expressions of the Go code as
      explicit panic sites: str[2:] in Magic, parts[2][8:len-1] in MsgAddress) *)
Theorem C20_parse_total :
  forall s : str,
  (forall w, no_panic (parse_uint_json w s)) /\
  (forall w, no_panic (parse_int_json w s)) /\
  no_panic (parse_big_json s) /\
  (forall n, no_panic (parse_bytes_hex n s)) /\
  no_panic (parse_grams s) /\ no_panic (parse_coins s) /\ no_panic (parse_magic s) /\
  no_panic (parse_bitstring s) /\ no_panic (parse_msgaddr s) /\
  no_panic (parse_ton_bits256 s) /\ no_panic (parse_tl_int256 s) /\
  no_panic (parse_account_json s).
Proof.
  intros s. repeat split;
    [intros w; apply parse_uint_json_total|intros w; apply parse_int_json_total|
     apply parse_big_json_total|intros n; apply parse_bytes_hex_total|apply parse_grams_total|
     apply parse_coins_total|apply parse_magic_total|apply parse_bitstring_total|
     apply parse_msgaddr_total|apply parse_ton_bits256_total|apply parse_tl_int256_total|
     apply parse_account_json_total].
Qed.

Theorem C20_parse_total_wrappers :
  (forall (A : Type) (pa : str -> res A) doc,
     (forall s, no_panic (pa s)) -> no_panic (json_unmarshal pa doc)) /\
  (forall (A : Type) (pa : str -> res A) s,
     (forall s, no_panic (pa s)) -> no_panic (parse_maybe pa s)) /\
  (forall (cell : Type) (deser : list N -> res (list cell)),
     (forall bs p, deser bs <> Panic p) -> forall s p, parse_cell deser s <> Panic p).
Proof.
  repeat split; [exact @json_unmarshal_total|exact @parse_maybe_total|].
  intros cell deser H s p. exact (parse_cell_total deser H s p).
Qed.

Print Assumptions C20_uint_roundtrip.
Print Assumptions C20_int_roundtrip.
Print Assumptions C20_msgaddr_roundtrip.
Print Assumptions C20_bitstring_roundtrip.
Print Assumptions C20_print_depends_only_on_written_bits.
Print Assumptions C20_account_roundtrip.
Print Assumptions C20_printed_is_json.
Print Assumptions C20_parse_total.
Print Assumptions C20_cell_decoder_total.

(** * the premises are satisfiable by non-trivial values *)
Example C20_ex_uint57 :
  print_uint 57 (2 ^ 57 - 1) = quote (print_N 144115188075855871)
  /\ parse_uint_json 57 (print_uint 57 (2 ^ 57 - 1)) = Ok (2 ^ 57 - 1).
Proof. vm_compute. split; reflexivity. Qed.

Example C20_ex_int64_min :
  parse_int_json 64 (print_int 64 (- 2 ^ 63)) = Ok (- 2 ^ 63)%Z.
Proof. vm_compute. reflexivity. Qed.

Example C20_ex_addr_var :
  let a := AddrVar (Some (3, 5)) 9 (-129) [true; false; true; true; false; false; true; false; true] in
  msgaddr_wf a /\ ~ std_lookalike a /\ a <> AddrExtern []
  /\ parse_msgaddr (print_msgaddr a) = Ok a.
Proof.
  cbv zeta. repeat split; try (vm_compute; congruence); try discriminate.
  intros [H _]. vm_compute in H. discriminate.
Qed.

Example C20_ex_addr_std :
  let a := AddrStd None (-1) (repeat 0xAB 32) in
  msgaddr_wf a /\ parse_msgaddr (print_msgaddr a) = Ok a.
Proof.
  cbv zeta. split; [|vm_compute; reflexivity].
  cbn [msgaddr_wf anycast_ok]. repeat split; try (vm_compute; congruence).
  apply Forall_forall. intros x Hx. apply repeat_spec in Hx. subst x. reflexivity.
Qed.

(** Non-canonical spellings of a cell document: with "last byte not full" (odd d2) the last data
    byte must carry the completion tag in one of its seven low positions.  The overlong form
    (a byte-aligned bit string followed by 0x80) and the form without any tag (0x00) are rejected
    by the parser model for every prefix, so such a JSON cell document is malformed, not a second
    spelling of a shorter cell. *)
From Tongo Require Import Model.BocParse Proofs.C20SpellP.
Theorem C20_overlong_completion_rejected :
  forall data, top_upped_bits (data ++ [128%N]) false = Err EParse.
Proof. exact top_upped_overlong_rejected. Qed.
Theorem C20_missing_completion_rejected :
  forall data, top_upped_bits (data ++ [0%N]) false = Err EParse.
Proof. exact top_upped_untagged_rejected. Qed.
