(** C07/C01 obligations over constants translated from boc/boc.go. *)
From Coq Require Import List NArith Bool.
From Tongo Require Import Model.BocParse Generated.Consts.
Import ListNotations.

Theorem C07_gen_magic_reach : c_reachBocMagicPrefix = magic_reach. Proof. reflexivity. Qed.
Theorem C07_gen_magic_lean : c_leanBocMagicPrefix = magic_lean. Proof. reflexivity. Qed.
Theorem C07_gen_magic_lean_crc : c_leanBocMagicPrefixCRC = magic_lean_crc. Proof. reflexivity. Qed.
(* stored hash slot = hashSize + depthSize = 34 bytes, max level 3, depth limit 1024 *)
Theorem C07_gen_sizes :
  (c_hashSize + c_depthSize = 34 /\ c_maxLevel = 3 /\ c_maxDepth = 1024)%N.
Proof. repeat split; reflexivity. Qed.
