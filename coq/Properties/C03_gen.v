(** C03 obligations over the descriptors of today's Go types
    (Generated/TlbTypes.v is rewritten by harness/cmd/translate on every run:
    reflect walk of every exported named type of packages tlb, wallet, abi).
    [wf_ty] is the premise of C03_generic_roundtrip: sum-type tags pairwise
    prefix-free (first-match decoding is safe), tag values fit their length,
    rest-of-cell codecs only in the last position of their cell, signed and big
    integers at least one bit wide. *)
From Coq Require Import List NArith Arith Bool String.
From Tongo Require Import Lib.Bits Model.TlbCore Model.TlbExt Model.TlbTags Proofs.TlbNoEncP Generated.TlbTypes.
Import ListNotations.
Local Open Scope string_scope.

(* context-dependent unions of block.tlb: two `$_` constructors chosen by a
   field of the enclosing BlockInfo (custom decoder); stand-alone first-match
   decoding is ambiguous by the schema itself, so they are not claimed *)
Definition ctx_dependent : list string := ["tlb.BlkPrevInfo"].

Definition claimed :=
  filter (fun p => negb (existsb (String.eqb (fst p)) ctx_dependent)) tlb_types.

Theorem C03_gen_all_wf : forallb (fun p => wf_ty [] (snd p)) claimed = true.
Proof. vm_compute. reflexivity. Qed.

(* the types described in the extension layer (snake data, length-prefixed bytes):
   premise of C03_ext_generic_roundtrip *)
Theorem C03_gen_all_xwf : forallb (fun p => xwf_ty (snd p)) tlb_xtypes = true.
Proof. vm_compute. reflexivity. Qed.

(* the exceptions really are what they are said to be: not first-match safe *)
Theorem C03_gen_ctx_dependent_not_wf :
  forallb (fun p => negb (wf_ty [] (snd p)))
          (filter (fun p => existsb (String.eqb (fst p)) ctx_dependent) tlb_types) = true.
Proof. vm_compute. reflexivity. Qed.

(* the compiled-in registry lists exactly the types of the source *)
Theorem C03_gen_registry_current : tlb_registry_missing = [] /\ tlb_registry_extra = [].
Proof. split; reflexivity. Qed.

(* every registered type is accounted for: claimed, or listed with a reason *)
Theorem C03_gen_partition :
  (List.length tlb_types + List.length tlb_xtypes + List.length tlb_opaque + List.length tlb_decode_only + List.length tlb_not_cell)%nat
  = tlb_source_type_count.
Proof. vm_compute. reflexivity. Qed.

(* the claim is not empty by accident, and the uncovered part does not grow
   silently: at most 110 types have a hand-written codec without a model and at
   most 40 a hand-written decoder over the reflection encoder *)
Theorem C03_gen_coverage :
  (500 <=? List.length claimed)%nat = true /\
  (List.length tlb_opaque <=? 110)%nat = true /\ (List.length tlb_decode_only <=? 40)%nat = true /\
  (List.length tlb_partial <=? 20)%nat = true.
Proof. vm_compute. repeat split. Qed.

Theorem C03_gen_core_types_claimed :
  forallb (fun nm => existsb (fun p => String.eqb (fst p) nm) claimed)
    ["tlb.Message"; "tlb.CommonMsgInfo"; "tlb.MsgAddress"; "tlb.StateInit"; "tlb.CurrencyCollection";
     "tlb.Grams"; "tlb.Account"; "tlb.AccountStorage"; "tlb.TransactionDescr"; "tlb.HashUpdate";
     "tlb.AccountStatus"; "tlb.AccStatusChange"; "tlb.ComputeSkipReason"; "tlb.TickTock";
     "tlb.Uint1"; "tlb.Uint64"; "tlb.Int1"; "tlb.Int64"; "tlb.Int257"; "tlb.Uint256"; "tlb.Bits256";
     "tlb.VarUInteger1"; "tlb.VarUInteger16"; "tlb.VarUInteger32"; "tlb.Unary"; "tlb.Any";
     "tlb.AddressWithWorkchain"; "wallet.DataV5R1"; "wallet.SignedMsgBody";
     "abi.JettonMintMsgBody"; "abi.JettonBurnNotificationMsgBody"] = true.
Proof. vm_compute. reflexivity. Qed.

(** The decode-only types (hand-written decoder, reflection encoder) are exactly these: a
    type silently gaining or losing its MarshalTLB changes the set and fails here. *)
Definition expected_decode_only : list string :=
  ["tlb.Block"; "tlb.BlockHeader"; "tlb.BlockInfo"; "tlb.BlockProof"; "tlb.BlockSignatures";
   "tlb.BlockSignaturesPure"; "tlb.ConfigParam39"; "tlb.CryptoSignature"; "tlb.CryptoSignaturePair";
   "tlb.DNSRecord"; "tlb.DNSText"; "tlb.McBlockExtra"; "tlb.McStateExtraOther"; "tlb.ShardState";
   "tlb.SignedSertificate"; "tlb.ValidatorSignedTempKey"; "tlb.ValueFlow"; "tlb.VmTuple"; "tlb.VmTupleRef";
   "abi.ChangeDnsRecordMsgBody"; "abi.ExtOutMsgBody"; "abi.JettonBurnMsgBody";
   "abi.JettonInternalTransferMsgBody"; "abi.JettonNotifyMsgBody"; "abi.JettonTransferMsgBody";
   "abi.PreprocessedWalletSignedV2ExtInMsgBody"; "abi.PreprocessedWalletV2MsgInner"; "abi.W5Actions";
   "abi.W5ExtendedActions"; "abi.WalletExtensionActionV5R1MsgBody"; "abi.WalletSignedExternalV5R1ExtInMsgBody";
   "abi.WalletSignedInternalV5R1MsgBody"; "abi.WalletSignedV3ExtInMsgBody"; "abi.WalletSignedV4ExtInMsgBody";
   "abi.WalletV1ToV4Payload"].

Fixpoint strings_eqb (a b : list string) : bool :=
  match a, b with
  | [], [] => true
  | x :: a', y :: b' => String.eqb x y && strings_eqb a' b'
  | _, _ => false
  end.

Theorem C03_gen_decode_only_set : strings_eqb (map fst tlb_decode_only) expected_decode_only = true.
Proof. vm_compute. reflexivity. Qed.

(** Of these, the ones below are decode-side only BY THEOREM: their encoder-view descriptor
    (what tlb.Marshal's reflection walk makes of today's struct definition) satisfies
    [never_encodes], so by C03_never_encodes no value ever encodes - the property's "encoding
    fails with an error" branch for every value.  A type of this list becoming encodable
    (or another one joining it) changes the computed list and fails the obligation.
    The remaining decode-only types either do encode and round-trip on every explored value
    (the CryptoSignature family, McStateExtraOther), fail only by cell overflow (BlockInfo,
    BlockHeader: not covered by the structural criterion), or have no encoder-view descriptor. *)
Definition expected_never_encode : list string :=
  ["tlb.DNSText"; "tlb.ValueFlow"; "abi.PreprocessedWalletSignedV2ExtInMsgBody";
   "abi.PreprocessedWalletV2MsgInner"; "abi.W5Actions"; "abi.W5ExtendedActions";
   "abi.WalletSignedV3ExtInMsgBody"; "abi.WalletSignedV4ExtInMsgBody"; "abi.WalletV1ToV4Payload"].

Theorem C03_gen_never_encode_set :
  strings_eqb (map fst (filter (fun p => never_encodes (fuel_of [] (snd p)) (snd p)) tlb_decode_only_view))
              expected_never_encode = true.
Proof. vm_compute. reflexivity. Qed.

(** Every struct tag of the shipped types is read by the library's parsers exactly as the
    model of the tag grammar (Model/TlbTags.v) reads it: tlb.ParseTag on all constructor
    and Magic tags, parseTag on all field tags; every tag parses, and its value fits its
    length (what the descriptors and wf_ty rely on). *)
Definition opt_tag_eqb (a b : option (nat * N)) : bool :=
  match a, b with
  | Some (l, v), Some (l', v') => Nat.eqb l l' && N.eqb v v'
  | None, None => true
  | _, _ => false
  end.

(* tags the library's own ParseTag rejects (ErrInvalidTag): only the bare "_" of ShardState's
   context-dependent constructor, which has a hand-written decoder and is not claimed *)
Definition unparsable_tags : list string := ["_"].

Theorem C03_gen_sum_tags_parse :
  forallb (fun p => opt_tag_eqb (parse_tag (fst p)) (snd p)) tlb_sum_tags = true /\
  forallb (fun p => match snd p with
                    | Some t => tag_fits t
                    | None => existsb (String.eqb (fst p)) unparsable_tags
                    end) tlb_sum_tags = true /\
  (100 <=? List.length tlb_sum_tags)%nat = true.
Proof. vm_compute. repeat split. Qed.

Theorem C03_gen_field_tags_parse :
  forallb (fun p => match parse_field_tag (fst p), snd p with
                    | Some t, Some (r, m, mr) => Bool.eqb (ft_ref t) r && Bool.eqb (ft_maybe t) m && Bool.eqb (ft_maybe_ref t) mr
                    | _, _ => false
                    end) tlb_field_tags = true.
Proof. vm_compute. reflexivity. Qed.

(* printed into the log of every run: what is NOT covered, by name *)
Eval vm_compute in ("opaque (hand-written codec, no model)", map fst tlb_opaque).
Eval vm_compute in ("decode-side only / asymmetric (hand-written decoder, reflection encoder)", map fst tlb_decode_only).
Eval vm_compute in ("context-dependent unions", ctx_dependent).
Eval vm_compute in ("claimed through the extension layer", map fst tlb_xtypes).
Eval vm_compute in ("claimed, but with union constructors that have no model (empty union in the descriptor)", map fst tlb_partial).
