(** C06 obligations over data translated from /repo's current source
    (Generated/Consts.v is rewritten by harness/cmd/translate on every run). *)
From Coq Require Import List NArith Arith Bool.
From Tongo Require Import Lib.Bits Model.BitString Proofs.MinBits Generated.Consts Harness.H06.
Import ListNotations.

(* the de Bruijn table of boc/bitString.go passes the finite check that
   min_bits_required_spec needs *)
Theorem C06_gen_tab64_ok : debruijn_ok tab64 = true.
Proof. vm_compute. reflexivity. Qed.

(* the integer literals of minBitsRequired are the ones the model uses:
   0; shifts 1 2 4 8 16 32; 1; the multiplier; 58; 1 *)
Theorem C06_gen_min_bits_literals :
  min_bits_literals = [0; 0; 1; 2; 4; 8; 16; 32; 1; debruijn; 58; 1]%N.
Proof. vm_compute. reflexivity. Qed.

(* suffixToBits is exactly the reference suffix function: every entry agrees
   with it, and every character on which it is defined has an entry *)
Definition bits_eqb (a b : bits) : bool :=
  Nat.eqb (length a) (length b) && N.eqb (N_of_bits a) (N_of_bits b).

Definition opt_bits_eqb (a b : option bits) : bool :=
  match a, b with
  | Some x, Some y => bits_eqb x y
  | None, None => true
  | _, _ => false
  end.

Definition all_chars : list N := map N.of_nat (seq 0 256).

Definition suffix_table_is_ref (tab : list (N * bits)) : bool :=
  forallb (fun c => opt_bits_eqb (lookup_suffix tab c) (ref_suffix c)) all_chars.

Theorem C06_gen_suffix_table_ok : suffix_table_is_ref suffix_to_bits = true.
Proof. vm_compute. reflexivity. Qed.

Theorem C06_gen_cell_bits : c_CellBits = 1023%N.
Proof. reflexivity. Qed.

(* every key of suffixToBits is two characters long and ends in '_' *)
Theorem C06_gen_suffix_keys :
  forallb (fun p => N.eqb (fst p) 2 && N.eqb (snd p) 95) suffix_key_shape = true.
Proof. vm_compute. reflexivity. Qed.
