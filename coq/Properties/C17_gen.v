(** C17 obligations over data translated from /repo's current source
    (Generated/Consts.v is rewritten by harness/cmd/translate on every run). *)
From Coq Require Import List NArith ZArith Arith Bool.
From Tongo Require Import Lib.Bits Lib.Res Model.Address Model.Adnl Generated.Consts
  Proofs.Crc16P Proofs.Base64P Proofs.AddressP Proofs.AdnlP.
Import ListNotations.
Local Open Scope N_scope.

(* TABLE of utils/crc16.go is, entry by entry, the table computed from the
   polynomial 0x1021 (256 entries) *)
Theorem C17_gen_crc16_table : crc16_table = crc16_table_ref.
Proof. vm_compute. reflexivity. Qed.

Theorem C17_gen_crc16_table_length : length crc16_table = 256%nat.
Proof. reflexivity. Qed.

(* hence the theorems of C17.v hold for the translated table *)
Theorem C17_gen_crc16 :
  forall l, Forall (fun b => b < 256) l -> crc16_tab crc16_table l = crc16 l.
Proof. intros l H. apply crc16_tab_ok; [exact C17_gen_crc16_table|exact H]. Qed.

Theorem C17_gen_human_roundtrip :
  forall url bounce testnet wc addr,
  length addr = 32%nat -> bytes_ok addr -> (-128 <= wc < 128)%Z ->
  parse_human (print_human crc16_table url bounce testnet wc addr)
  = Ok (human_flag bounce testnet, wc, addr).
Proof. intros. apply human_roundtrip; try assumption. exact C17_gen_crc16_table. Qed.

Theorem C17_gen_single_char_rejected :
  forall url bounce testnet wc addr i c',
  length addr = 32%nat -> bytes_ok addr -> (i < 48)%nat ->
  b64_digit true (plus_slash c') <> Some (nth i (human_digits crc16_table bounce testnet wc addr) 0) ->
  parse_human (set_nth i c' (print_human crc16_table url bounce testnet wc addr)) = Err EOther.
Proof. intros. apply single_char_rejected; try assumption. exact C17_gen_crc16_table. Qed.

Theorem C17_gen_adnl_roundtrip :
  forall addr, length addr = 32%nat -> bytes_ok addr ->
  adnl_parse crc16_table (adnl_print crc16_table addr) = Ok addr.
Proof. intros. apply adnl_roundtrip; try assumption. exact C17_gen_crc16_table. Qed.
