(** C17 obligations over data translated from /repo's current source
    (Generated/Consts.v is rewritten by harness/cmd/translate on every run). *)
From Coq Require Import List NArith ZArith Arith Bool.
From Tongo Require Import Lib.Bits Lib.Res Model.Address Model.Adnl Generated.Consts Generated.AddrConsts
  Proofs.Crc16P Proofs.Base64P Proofs.AddressP Proofs.AdnlP.
Import ListNotations.
Local Open Scope N_scope.

(* TABLE of utils/crc16.go is, entry by entry, the table computed from the
   polynomial 0x1021 (256 entries) *)
Theorem C17_gen_crc16_table : crc16_table = crc16_table_ref.
Proof. vm_compute. reflexivity. Qed.

Theorem C17_gen_crc16_table_length : length crc16_table = 256%nat.
Proof. reflexivity. Qed.

(* hence the theorems of C17.v hold for the translated table *)
Theorem C17_gen_crc16 :
  forall l, Forall (fun b => b < 256) l -> crc16_tab crc16_table l = crc16 l.
Proof. intros l H. apply crc16_tab_ok; [exact C17_gen_crc16_table|exact H]. Qed.

Theorem C17_gen_human_roundtrip :
  forall url bounce testnet wc addr,
  length addr = 32%nat -> bytes_ok addr -> (-128 <= wc < 128)%Z ->
  parse_human (print_human crc16_table url bounce testnet wc addr)
  = Ok (human_flag bounce testnet, wc, addr).
Proof. intros. apply human_roundtrip; try assumption. exact C17_gen_crc16_table. Qed.

Theorem C17_gen_single_char_rejected :
  forall url bounce testnet wc addr i c',
  length addr = 32%nat -> bytes_ok addr -> (i < 48)%nat ->
  b64_digit true (plus_slash c') <> Some (nth i (human_digits crc16_table bounce testnet wc addr) 0) ->
  parse_human (set_nth i c' (print_human crc16_table url bounce testnet wc addr)) = Err EOther.
Proof. intros. apply single_char_rejected; try assumption. exact C17_gen_crc16_table. Qed.

Theorem C17_gen_adnl_roundtrip :
  forall addr, length addr = 32%nat -> bytes_ok addr ->
  adnl_parse crc16_table (adnl_print crc16_table addr) = Ok addr.
Proof. intros. apply adnl_roundtrip; try assumption. exact C17_gen_crc16_table. Qed.

(** The integer / character literals of the modelled functions, in source
    order (Generated/AddrConsts.v), are the ones the model was written against.
    ToHuman: flag 0x11, testnet 0x80, non-bounce 0x40, 36-byte buffer, fields at
    0 / 1 / 2..34 / 34..36. *)
Theorem C17_gen_literals_account :
  lits_ToHuman = [0x11; 0x80; 0x40; 36; 0; 1; 2; 34; 34; 36; 34] /\
  lits_AccountIDFromBase64Url = [43; 45; 47; 95; 36; 34; 36; 0; 34; 1; 2; 34] /\
  lits_AccountIDFromRaw = [58; 1; 1; 64; 64; 1; 1; 10; 32; 1; 32] /\
  lits_MarshalTL = [36; 4; 4; 36] /\ lits_UnmarshalTL = [4] /\
  lits_AccountIDFromTlb = [4; 1; 32; 1; 32; 4].
Proof. repeat split; reflexivity. Qed.

(* the model's flag byte is built from exactly these literals *)
Theorem C17_gen_human_flag :
  forall bounce testnet,
  human_flag bounce testnet
  = N.lor (N.lor (nth 0 lits_ToHuman 0) (if testnet then nth 1 lits_ToHuman 0 else 0))
          (if bounce then 0 else nth 2 lits_ToHuman 0).
Proof. intros [] []; reflexivity. Qed.

Theorem C17_gen_literals_shard :
  lits_ParseShardID = [0; 1; 1; 1] /\ lits_ShardEncode = [1; 1] /\ lits_MatchAccountID = [8] /\
  lits_shardChild = [1; 1] /\ lits_shardParent = [1; 1] /\ lits_convertShardIdent = [1; 63].
Proof. repeat split; reflexivity. Qed.

(* ADNL: tag byte 0x2d, 2 checksum bytes, first character dropped; text length 55,
   checksum over the first 33 bytes, address = bytes 1..33 *)
Theorem C17_gen_literals_adnl :
  lits_ADNLAddressToBase32 = [0x2d; 2; 1] /\
  lits_ParseADNLAddress = [55; 32; 32; 0; 0x2d; 32; 33; 33; 32; 1; 33].
Proof. repeat split; reflexivity. Qed.

(* TL-B: anycast depth #<= 30 (5 bits), depth >= 1; constructor tags 0..3 on 2 bits,
   len ## 9 (<= 511), workchain int8 / int32, 32 address bytes *)
Theorem C17_gen_literals_tlb :
  lits_AnycastMarshal = [30] /\ lits_AnycastUnmarshal = [30; 1] /\
  lits_MsgAddressMarshal = [0; 2; 1; 2; 511; 9; 2; 2; 8; 3; 2; 9; 32] /\
  lits_MsgAddressUnmarshal = [2; 0; 1; 9; 2; 8; 32; 3; 9; 32].
Proof. repeat split; reflexivity. Qed.

(** JSON form of the TL-B address: literals (parts 1/2/3, base 10, 32-bit and
    8-bit ParseInt, 64 hex characters) and, in source order, the comparison /
    logical operators of MsgAddress.UnmarshalJSON (1 ==, 2 !=, 3 <, 4 <=, 5 >,
    6 >=, 7 &&, 8 ||): the int8 test is  err == nil && num >= MinInt8 && num <= MaxInt8 *)
Theorem C17_gen_literals_tlb_json :
  lits_MsgAddressMarshalJSON = [] /\ ops_MsgAddressMarshalJSON = [] /\
  lits_MsgAddressUnmarshalJSON
  = [1; 2; 3; 3; 2; 2; 2; 2; 1; 0; 10; 32; 1; 64; 1; 32; 1; 0; 10; 8; 0; 1; 0; 10; 32; 0] /\
  ops_MsgAddressUnmarshalJSON
  = [1; 1; 2; 7; 2; 2; 1; 8; 2; 7; 7; 1; 6; 4; 7; 7; 1; 2; 2; 2; 2; 2; 2].
Proof. repeat split; reflexivity. Qed.

(* the comparison operators of the other modelled functions *)
Theorem C17_gen_operators :
  ops_ToHuman = [] /\ ops_AccountIDFromBase64Url = [2; 2; 2] /\
  ops_AccountIDFromRaw = [1; 3; 2; 2; 2] /\ ops_MarshalTL = [] /\ ops_UnmarshalTL = [2] /\
  ops_AccountIDFromTlb = [] /\ ops_ParseShardID = [1] /\ ops_ShardEncode = [] /\
  ops_MatchAccountID = [1] /\ ops_shardChild = [] /\ ops_shardParent = [] /\
  ops_convertShardIdent = [] /\ ops_ADNLAddressToBase32 = [] /\ ops_ParseADNLAddress = [2; 2; 2; 2] /\
  ops_AnycastMarshal = [2; 2] /\ ops_AnycastUnmarshal = [2; 3; 2] /\
  ops_MsgAddressMarshal = [2; 5; 2; 2; 2; 2; 2; 2; 2; 2] /\
  ops_MsgAddressUnmarshal = [2; 2; 2; 2; 2; 2; 2; 2; 2; 2].
Proof. repeat split; reflexivity. Qed.

(** The parsers are modelled as pure functions: the files that hold them
    declare no package-level variable that is zero-valued or initialised by a
    call (a shared hasher, cache or buffer would be state shared by all
    callers; see Proofs/C17History.v shared_crc_register_refuted) *)
Theorem C17_gen_no_package_state :
  pkgstate_ton_account = 0 /\ pkgstate_ton_shards = 0 /\ pkgstate_liteclient_adnl = 0.
Proof. repeat split; reflexivity. Qed.
