(** C08 obligations over the bindings regenerated from liteclient/generated.go:
    every Go type of the lite-server API satisfies the schema condition of the
    TL theorems, so that for each of them tl.Unmarshal never panics and
    allocation + steps <= 901 * len(input) + 2446529. *)
From Coq Require Import String List NArith Bool Lia.
From Tongo Require Import Lib.Bits Lib.Res Spec.TlWire Model.Tl Model.TlTotal
     Proofs.TlTotalP Proofs.TlTotalP2 Proofs.TlbTotalP Model.Framing Proofs.FramingP Generated.TlBindings.
Import ListNotations.
Local Open Scope N_scope.

Definition c08_rate : N := 112.
Definition c08_fuel : nat := 8.

Definition all_types_ok : bool :=
  forallb (fun b => sok tl_bindings c08_rate c08_fuel (GNamed (b_name b))) tl_bindings.

Theorem C08_gen_schema_ok : all_types_ok = true.
Proof. vm_compute. reflexivity. Qed.

Definition worst_intercept : N :=
  maxl (map (fun b => kk tl_bindings c08_fuel (GNamed (b_name b)) + ee tl_bindings c08_fuel (GNamed (b_name b))) tl_bindings).

Theorem C08_gen_constants : slope c08_rate c08_fuel = 901 /\ worst_intercept <=? 2446529 = true.
Proof. vm_compute. split; reflexivity. Qed.

Lemma maxl_ge x l : In x l -> x <= maxl l.
Proof. apply maxl_in. Qed.

(** for every generated binding and every input *)
Theorem C08_gen_tl_total :
  forall b, In b tl_bindings -> forall bs p,
  fst (tl_unmarshal tl_bindings c08_fuel (GNamed (b_name b)) bs) <> Panic p.
Proof.
  intros b Hb. apply (tl_decode_total tl_bindings c08_rate).
  pose proof C08_gen_schema_ok as H. unfold all_types_ok in H.
  rewrite forallb_forall in H. apply H. exact Hb.
Qed.

Theorem C08_gen_tl_linear :
  forall b, In b tl_bindings -> forall bs,
  let r := tl_unmarshal tl_bindings c08_fuel (GNamed (b_name b)) bs in
  t_alloc (snd r) + t_steps (snd r) <= 901 * N.of_nat (length bs) + 2446529.
Proof.
  intros b Hb bs r.
  assert (Hok : sok tl_bindings c08_rate c08_fuel (GNamed (b_name b)) = true).
  { pose proof C08_gen_schema_ok as H. unfold all_types_ok in H.
    rewrite forallb_forall in H. apply H. exact Hb. }
  pose proof (tl_decode_resources tl_bindings c08_rate c08_fuel _ Hok bs) as Hr.
  destruct C08_gen_constants as [Hs Hw]. rewrite Hs in Hr. apply N.leb_le in Hw.
  assert (Hin : kk tl_bindings c08_fuel (GNamed (b_name b)) + ee tl_bindings c08_fuel (GNamed (b_name b)) <= worst_intercept).
  { unfold worst_intercept. apply maxl_in.
    apply (in_map (fun b => kk tl_bindings c08_fuel (GNamed (b_name b)) + ee tl_bindings c08_fuel (GNamed (b_name b)))). exact Hb. }
  subst r. lia.
Qed.

(** liteclient.LiteapiRequestDecoder, over the generated request table: for every byte string
    received it never panics (too short: error; otherwise a request or "Unknown") *)
Lemma request_table_ok :
  forallb (fun e => match e with (_, _, ty, _) => sok tl_bindings c08_rate c08_fuel (GNamed ty) end)
          tl_request_table = true.
Proof. vm_compute. reflexivity. Qed.

Theorem C08_request_decoder_total :
  forall b p, Framing.request_decode tl_bindings tl_request_table c08_fuel b <> Panic p.
Proof.
  intros b p.
  assert (H : TlbTotalP.np (Framing.request_decode tl_bindings tl_request_table c08_fuel b)).
  { apply (request_decode_total tl_bindings c08_rate).
    intros a x ty c Hin. pose proof request_table_ok as Hf.
    rewrite forallb_forall in Hf. exact (Hf _ Hin). }
  intros E. rewrite E in H. exact H.
Qed.

(** every constructor tag of the table is reachable with a decodable request: not vacuous *)
Theorem C08_request_decoder_satisfiable :
  exists b ty, Framing.request_decode tl_bindings tl_request_table c08_fuel b = Ok (Some ty).
Proof.
  exists [0x34; 0x5a; 0xad; 0x16]%N. vm_compute. eexists. reflexivity.
Qed.
