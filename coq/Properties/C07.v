(** C07 — parsing untrusted bag-of-cells bytes never crashes and yields sound
    cells.  Statements only. *)
From Coq Require Import List NArith Arith Lia Bool.
From Tongo Require Import Lib.Bits Lib.Res Model.BocParse Proofs.BocParseP.
Import ListNotations.

(** For every byte string the parser returns Ok or Err — never a panic (every
    Go slice/index/make of the parser is modelled with its panic condition). *)
Theorem C07_parse_total :
  forall bs, Forall is_byte bs -> forall p, parse_boc bs <> Panic p.
Proof. exact parse_total. Qed.
Print Assumptions C07_parse_total.

(** Memory requested by the parser's make() calls is linear in the input. *)
Theorem C07_parse_alloc_linear :
  forall bs p, parse_boc bs = Ok p -> (p_alloc p <= 640 * N.of_nat (length bs))%N.
Proof. exact parse_alloc_linear. Qed.
Print Assumptions C07_parse_alloc_linear.

(** Every returned cell has <= 1023 bits and <= 4 references, every reference
    points strictly forward to an existing cell (hence no cycles), every root
    exists. *)
Theorem C07_parse_sound :
  forall bs p, Forall is_byte bs -> parse_boc bs = Ok p ->
  dag_wf (p_cells p) /\ Forall (fun r => r < length (p_cells p))%nat (p_roots p).
Proof. exact parse_sound. Qed.
Print Assumptions C07_parse_sound.

(** Consequently the unfolding of any returned cell to a finite tree exists:
    recursion over references (hashing, printing, re-serialising) terminates. *)
Theorem C07_unfold_total :
  forall cells, dag_wf cells ->
  forall fuel i, (i < length cells)%nat -> (length cells - i <= fuel)%nat ->
  unfold_at fuel cells i <> None.
Proof. exact unfold_total. Qed.
Print Assumptions C07_unfold_total.

(** Non-vacuity: a two-cell BOC parses, so the premises are met by a real input. *)
Example C07_parses_something :
  exists p, parse_boc [0xb5; 0xee; 0x9c; 0x72; 0x01; 0x01; 0x02; 0x01; 0x00; 0x05; 0x00;
                       0x01; 0x00; 0x01; 0x00; 0x00]%N = Ok p /\ length (p_cells p) = 2%nat.
Proof. vm_compute. eexists. split; reflexivity. Qed.
