(** C01 — serialisation does not depend on history.  Statements only; proofs in
    Proofs/BocHistP.v, refutation of the stale-cache design in
    Proofs/BocSerHistory.v.

    Cells of boc are mutable builders: a *Cell that has been serialised can be
    written to (bits appended, references added, type/mask set) and serialised
    again, alone or inside other cells.  Model/BocHist.v: a history is a list of
    steps over K named cells (slot k = one Go pointer, created empty;
    references point to greater slots):
      HWrite k bits | HRef k j | HType k special mask |
      HSer api k idx crc cache hasher   (api 0 Cell.ToBoc, 1 Cell.ToBocCustom,
                                         2 boc.SerializeBoc, 3 Cell.ToBocCustomWithHasher)
    [hist_state st steps] is the array after the builder operations of [steps]
    ([None] if one of them is refused); [hist_run hf st steps] also returns, per
    serialisation request, the array it was asked on, the root slot and the
    answer.  [hf] supplies the level-3 hashes of an array (the harness uses the
    SHA-256 representation hashes).

    The theorems are immediate in the model because the model has no state
    between requests; their content is the correspondence check c01.hist, which
    compares every answer of the Go entry points in a history with this
    model. *)
From Coq Require Import List NArith ZArith Arith Bool.
From Tongo Require Import Lib.Bits Lib.Res Spec.Sha256 Model.BocParse Model.CellHash Model.HasherCache
  Model.BocSer Model.BocHist
  Proofs.BocParseP Proofs.BocReorderP4 Proofs.BocSerLayoutP2 Proofs.BocSerLayoutP5
  Proofs.BocHistP Proofs.BocSerHistory.
Import ListNotations.

(** 1. Two histories — any builder operations, any earlier serialisations
    through any entry point and with any hasher, from any initial arrays — that
    leave the same array [s] answer the same request with the same result, and
    it is the serialiser model on [s]: [ser_request hf s api k idx crc cache]
    = [serialize s (hf s) [k] ...] (options forced off for Cell.ToBoc).  The
    hasher the request names is irrelevant. *)
Theorem C01_serialize_history_independent :
  forall (hf : list node -> list (res bytes))
         st1 st2 h1 h2 s api k idx crc cache hs1 hs2 stf1 stf2 outs1 outs2 d,
  hist_state st1 h1 = Some s -> hist_state st2 h2 = Some s ->
  hist_run hf st1 (h1 ++ [HSer api k idx crc cache hs1]) = Some (stf1, outs1) ->
  hist_run hf st2 (h2 ++ [HSer api k idx crc cache hs2]) = Some (stf2, outs2) ->
  last outs1 d = (s, k, ser_request hf s api k idx crc cache) /\ last outs2 d = last outs1 d.
Proof. exact serialize_history_independent. Qed.
Print Assumptions C01_serialize_history_independent.

(** every answer inside a history (not only the last one) is the serialiser
    model on the array produced by the builder operations before it *)
Theorem C01_history_answers :
  forall (hf : list node -> list (res bytes)) steps st stf outs,
  hist_run hf st steps = Some (stf, outs) ->
  Forall (fun o => let '(s, k, r) := o in
    exists pre api idx crc cache h post,
      steps = pre ++ HSer api k idx crc cache h :: post /\
      hist_state st pre = Some s /\ k < length s /\
      r = ser_request hf s api k idx crc cache) outs.
Proof. exact hist_run_answers. Qed.

(** serialisations leave the cells alone *)
Theorem C01_history_state :
  forall (hf : list node -> list (res bytes)) steps st stf outs,
  hist_run hf st steps = Some (stf, outs) -> hist_state st steps = Some stf.
Proof. exact hist_run_state. Qed.

(** 2. The array stays inside the hypotheses of the serialiser theorems of
    C01_serialize.v whatever accepted builder operations are applied: forward
    references, <= 1023 bits, <= 4 references, 3-bit masks, type byte = first
    data byte of exotic cells. *)
Theorem C01_history_wf :
  forall K steps s, hist_state (hist_init K) steps = Some s ->
  dag_wf s /\ Forall node_ok s /\ length s = K.
Proof.
  intros K steps s E. destruct (hist_state_wf _ _ _ (hist_init_wf K) E) as ((A & B) & C).
  rewrite hist_init_length in C. auto.
Qed.

(** 3. Round trip of every answer of every history to the CURRENT structure:
    an answer [Ok bs] parses to one root that unfolds to the same tree as slot
    [k] of the array at the moment of the request (bits, exotic flag, type,
    mask, references in order, recursively).  [collision_free] and
    [hashes_real] as in C01_boc_roundtrip_model. *)
Theorem C01_history_roundtrip :
  forall (hf : list node -> list (res bytes)) K steps stf outs,
  (N.of_nat K < 2 ^ 24)%N ->
  hist_run hf (hist_init K) steps = Some (stf, outs) ->
  Forall (fun o => let '(s, k, r) := o in
    dag_wf s /\ Forall node_ok s /\ length s = K /\ k < K /\
    forall bs, r = Ok bs -> hashes_real (hf s) -> collision_free s (hf s) [k] ->
    exists p r' t, parse_boc bs = Ok p /\ dag_wf (p_cells p) /\ p_roots p = [r'] /\
      unfold_at (length s) s k = Some t /\
      unfold_at (length (p_cells p)) (p_cells p) r' = Some t) outs.
Proof. exact history_roundtrip. Qed.
Print Assumptions C01_history_roundtrip.

(** 4. The design that keeps the hasher between calls (a pooled bagOfCells whose
    pointer-keyed hash maps are never cleared — seeded change C01-r2m2) is
    refuted by a three-cell history: an empty cell is serialised, filled with
    x{DEADBEEF} and put into a parent next to another empty cell.  The first
    answers agree; for the second request the code's model stores three cells
    that unfold to the current structure, the pooled design stores two and its
    bytes parse to  x{00} -> (x{DEADBEEF}, x{DEADBEEF}):  the cell x{} has been
    merged with a structurally different one. *)
Theorem C01_pooled_hasher_refuted :
  nth_error answers_pooled 0 = nth_error answers_code 0 /\
  option_map parsed_count (nth_error answers_code 1) = Some (Some 3) /\
  option_map parsed_root_tree (nth_error answers_code 1) = Some (unfold_at 3 wit_now 0) /\
  unfold_at 3 wit_now 0 = Some (T false 0 0 (bits_of 8 0) [T_leaf deadbeef; T_leaf []]) /\
  option_map parsed_count (nth_error answers_pooled 1) = Some (Some 2) /\
  option_map parsed_root_tree (nth_error answers_pooled 1)
    = Some (Some (T false 0 0 (bits_of 8 0) [T_leaf deadbeef; T_leaf deadbeef])) /\
  nth_error answers_pooled 1 <> nth_error answers_code 1.
Proof. exact pooled_hasher_refuted. Qed.

(** *** Non-vacuity: the witness history runs in the model of the code, has two
    requests, and its final array is the three-cell structure above. *)
Example C01_history_example :
  exists stf outs,
    hist_run hashes_sha (hist_init 3) wit_steps = Some (stf, outs) /\ length outs = 2 /\ stf = wit_now /\
    hist_state (hist_init 3) wit_steps = Some wit_now.
Proof. eexists. eexists. split; [vm_compute; reflexivity|]. repeat split; vm_compute; reflexivity. Qed.
