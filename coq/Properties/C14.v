(** C14 — wallet-built messages carry the requested transfers under a valid
    signature.  Statements only.

    [chash] is Cell.Hash (any function from cells to a hash or an error; the
    executable model uses the representation hash of Spec/ReprHash.v over the
    Gallina SHA-256, see [C14_hash_instance]), [sign]/[verify]/[pub] are
    Ed25519; no theorem unfolds them.  Idealisations appear as hypotheses:
    [ideal_signature], [no_second_preimage].  Versions: the seven for which the
    library can build a message ([sendable]); V1R1..V2R2 panic("implement me"). *)
From Coq Require Import List NArith ZArith Arith Bool.
From Tongo Require Import Lib.Bits Lib.Res Spec.Sha256 Model.BocParse Model.CellHash Spec.ReprHash
  Model.Wallet Proofs.WalletP Proofs.WalletSigP Proofs.WalletRtP Proofs.WalletHlP Proofs.WalletLayoutP
  Proofs.WalletExtP Proofs.WalletEnvP Model.WalletTransfer Proofs.WalletTransferP Proofs.WalletClockP.
From Tongo Require Model.TlbCore Spec.Dict Model.Hashmap.
Import ListNotations.

(** VerifySignature accepts exactly when the primitive accepts the signature
    found at the layout's position over the hash of the rest of the body (bits
    and all references): first 512 bits for v3/v4/highload, last 512 for v5r1. *)
Theorem C14_verify_iff_primitive :
  forall (chash : cell -> res bytes) (verify : bits -> bytes -> bits -> bool)
         v appended m pk e,
  verify_layout v = Some appended -> length pk = 256%nat -> parse_ext chash m = Ok e ->
  (verify_signature chash verify v m pk = Ok tt <->
   exists sg part h,
     (if appended then v5_split (e_body e) else split_signed (e_body e)) = Ok (sg, part) /\
     chash part = Ok h /\ verify pk h sg = true).
Proof. exact verify_iff_primitive. Qed.
Print Assumptions C14_verify_iff_primitive.

(** the same for SignedMsgBody.Verify and MessageV5VerifySignature (the entry
    point that has to be used for v5 beta) on any body cell *)
Theorem C14_body_verify_iff_primitive :
  forall (chash : cell -> res bytes) (verify : bits -> bytes -> bits -> bool)
         (appended : bool) body pk,
  length pk = 256%nat ->
  ((if appended then v5_verify chash verify pk body else signed_verify chash verify pk body) = Ok tt <->
   exists sg part h,
     (if appended then v5_split body else split_signed body) = Ok (sg, part) /\
     chash part = Ok h /\ verify pk h sg = true).
Proof. exact body_verify_iff_primitive. Qed.

(** Every message RawSendV2 builds (any version, key, seqno, expiry, message
    list, state-init) parses back to its body and verifies under the key it was
    signed with, given only that the primitive accepts its own signatures. *)
Theorem C14_built_message_verifies :
  forall (SK : Type) (chash : cell -> res bytes) (sign : SK -> bytes -> bits)
         (verify : bits -> bytes -> bits -> bool) (pub : SK -> bits),
  (forall sk m, length (sign sk m) = 512%nat) ->
  forall w sk wc addr seqno valid ms init rnd h e,
  (forall m, verify (pub sk) m (sign sk m) = true) -> length (pub sk) = 256%nat ->
  length addr = 256%nat -> init_ok chash init -> sendable (w_ver w) ->
  raw_send_msg SK chash sign w sk wc addr seqno valid ms init rnd = Ok (h, e) ->
  exists body,
    parse_ext chash e = Ok (mkext (ext_in_std wc addr) init body) /\
    (forall appended, verify_layout (w_ver w) = Some appended ->
                      verify_signature chash verify (w_ver w) e (pub sk) = Ok tt) /\
    (if sig_appended (w_ver w) then v5_verify chash verify (pub sk) body
     else signed_verify chash verify (pub sk) body) = Ok tt.
Proof. exact built_message_verifies. Qed.
Print Assumptions C14_built_message_verifies.

(** Under an ideal signature scheme no other 32-byte key is accepted ... *)
Theorem C14_other_key_rejected :
  forall (SK : Type) (chash : cell -> res bytes) (sign : SK -> bytes -> bits)
         (verify : bits -> bytes -> bits -> bool) (pub : SK -> bits),
  (forall sk m, length (sign sk m) = 512%nat) ->
  forall w sk wc addr seqno valid ms init rnd h e pk appended,
  ideal_signature SK sign verify pub ->
  length addr = 256%nat -> init_ok chash init -> sendable (w_ver w) ->
  raw_send_msg SK chash sign w sk wc addr seqno valid ms init rnd = Ok (h, e) ->
  verify_layout (w_ver w) = Some appended -> pk <> pub sk -> length pk = 256%nat ->
  verify_signature chash verify (w_ver w) e pk = Err EBadSig.
Proof. exact other_key_rejected. Qed.
Print Assumptions C14_other_key_rejected.

(** ... and, if the cell hash separates the signed cell from every other cell,
    no message carrying that signature over a different signed part (any bit,
    any reference) is accepted under the wallet's key ... *)
Theorem C14_changed_signed_part_rejected :
  forall (SK : Type) (chash : cell -> res bytes) (sign : SK -> bytes -> bits)
         (verify : bits -> bytes -> bits -> bool) (pub : SK -> bits)
         w sk ms seqno valid mt rnd body u hu v appended m' e' part',
  ideal_signature SK sign verify pub ->
  create_body SK chash sign w sk ms seqno valid mt rnd = Ok body ->
  unsigned_body w ms seqno valid mt rnd = Ok u -> chash u = Ok hu ->
  no_second_preimage chash u ->
  verify_layout v = Some appended -> parse_ext chash m' = Ok e' ->
  (if appended then v5_split (e_body e') else split_signed (e_body e')) = Ok (sign sk hu, part') ->
  part' <> u ->
  verify_signature chash verify v m' (pub sk) <> Ok tt.
Proof. exact changed_signed_part_rejected. Qed.

(** ... in particular after flipping any single bit of the signed bits. *)
Theorem C14_flipped_signed_bit_rejected :
  forall (SK : Type) (chash : cell -> res bytes) (sign : SK -> bytes -> bits)
         (verify : bits -> bytes -> bits -> bool) (pub : SK -> bits),
  (forall sk m, length (sign sk m) = 512%nat) ->
  forall w sk wc addr seqno valid ms init rnd h e body u hu appended i m' e',
  ideal_signature SK sign verify pub ->
  length addr = 256%nat -> init_ok chash init -> sendable (w_ver w) ->
  raw_send_msg SK chash sign w sk wc addr seqno valid ms init rnd = Ok (h, e) ->
  create_body SK chash sign w sk ms seqno valid op_signed_external rnd = Ok body ->
  unsigned_body w ms seqno valid op_signed_external rnd = Ok u -> chash u = Ok hu ->
  no_second_preimage chash u ->
  verify_layout (w_ver w) = Some appended ->
  (i < length (cdata u))%nat ->
  parse_ext chash m' = Ok e' ->
  e_body e' = ocell (flip_nth ((if appended then 0 else 512) + i) (cdata body)) (crefs body) ->
  verify_signature chash verify (w_ver w) m' (pub sk) <> Ok tt.
Proof. exact flipped_signed_bit_rejected. Qed.
Print Assumptions C14_flipped_signed_bit_rejected.

(** Decoding a built message returns the requested messages with their modes
    in order, the wallet / sub-wallet id, the expiry (as uint32) and the seqno;
    in particular the count was within the version's limit.  (Highload: the
    messages are ordinary cell trees, otherwise the model answers Unmodelled and
    the premise fails; its query id is expiry<<32 + random.) *)
Theorem C14_extract_roundtrip :
  forall (SK : Type) (chash : cell -> res bytes) (sign : SK -> bytes -> bits),
  (forall sk m, length (sign sk m) = 512%nat) ->
  forall w sk wc addr seqno valid ms init rnd h e,
  modes_ok ms -> length addr = 256%nat -> init_ok chash init -> sendable (w_ver w) ->
  (seqno < 4294967296)%N ->
  raw_send_msg SK chash sign w sk wc addr seqno valid ms init rnd = Ok (h, e) ->
  exists d,
    decode_msg chash (w_ver w) e = Ok d /\ extract_raw chash (w_ver w) e = Ok ms /\
    d_msgs d = ms /\ d_id d = expected_id w /\ d_valid d = unix32 valid /\
    (w_ver w <> HLV2R2 -> d_seqno d = seqno) /\
    (w_ver w = HLV2R2 -> d_extra d = (rnd mod 4294967296)%N) /\
    (length ms <= max_messages (w_ver w))%nat.
Proof. exact extract_roundtrip. Qed.
Print Assumptions C14_extract_roundtrip.

(** More messages than the version allows (4 / 4 / 254 / 255 / 254) is an
    error of RawSendV2 — never a truncated message. *)
Theorem C14_too_many_refused :
  forall (SK : Type) (chash : cell -> res bytes) (sign : SK -> bytes -> bits)
         w sk wc addr seqno valid ms init rnd,
  (max_messages (w_ver w) < length ms)%nat ->
  raw_send_msg SK chash sign w sk wc addr seqno valid ms init rnd = Err EWallet.
Proof. exact too_many_refused. Qed.

Theorem C14_max_messages :
  map max_messages [V3R1; V3R2; V4R1; V4R2; V5Beta; V5R1; HLV2R2] = [4; 4; 4; 4; 254; 255; 254]%nat.
Proof. reflexivity. Qed.

(** v3, v4 and highload payload codecs refuse too long lists by themselves
    (CreateMessageBody); for v5 only RawSendV2 checks. *)
Theorem C14_marshal_refuses :
  forall (SK : Type) (chash : cell -> res bytes) (sign : SK -> bytes -> bits)
         w sk ms seqno valid mt rnd,
  (w_ver w = V3R1 \/ w_ver w = V3R2 \/ w_ver w = V4R1 \/ w_ver w = V4R2) /\ (4 < length ms)%nat \/
  w_ver w = HLV2R2 /\ (254 < length ms)%nat ->
  create_body SK chash sign w sk ms seqno valid mt rnd = Err EWallet.
Proof. exact marshal_refuses. Qed.

(** Bit-exact layout of every built body and its size. *)
Theorem C14_body_layout :
  forall (SK : Type) (chash : cell -> res bytes) (sign : SK -> bytes -> bits)
         w sk ms seqno valid mt rnd body,
  create_body SK chash sign w sk ms seqno valid mt rnd = Ok body ->
  exists u hu,
    unsigned_layout w ms seqno valid mt rnd u /\ chash u = Ok hu /\
    crefs body = crefs u /\
    cdata body = (if sig_appended (w_ver w) then cdata u ++ sign sk hu
                  else fit 512 (sign sk hu) ++ cdata u) /\
    body = ocell (cdata body) (crefs body).
Proof. exact body_layout. Qed.

Theorem C14_body_size :
  forall (SK : Type) (chash : cell -> res bytes) (sign : SK -> bytes -> bits)
         w sk ms seqno valid mt rnd body,
  (forall sk m, length (sign sk m) = 512%nat) ->
  create_body SK chash sign w sk ms seqno valid mt rnd = Ok body ->
  match w_ver w with
  | V3R1 | V3R2 => length (cdata body) = (608 + 8 * length ms)%nat /\ length (crefs body) = length ms
  | V4R1 | V4R2 => length (cdata body) = (616 + 8 * length ms)%nat /\ length (crefs body) = length ms
  | V5Beta => length (cdata body) = 689%nat /\ length (crefs body) = 1%nat
  | V5R1 => length (cdata body) = 642%nat /\ length (crefs body) = 1%nat
  | HLV2R2 => length (cdata body) = 609%nat /\
              length (crefs body) = (match ms with [] => 0 | _ => 1 end)%nat
  | _ => False
  end.
Proof. exact body_size. Qed.

(** *** v5r1 extended actions (add / remove extension, set signature auth) *)

(** layout: fixed fields, actions bit, then "0", or "1" and the FIRST extended
    action in the body cell itself; references: the action list, then the cell
    of the second extended action, which refers to the third, ...; signature last *)
Theorem C14_v5r1x_layout :
  forall (SK : Type) (chash : cell -> res bytes) (sign : SK -> bytes -> bits)
         w sk ms xs seqno valid mt body,
  create_body_v5r1x SK chash sign w sk ms xs seqno valid mt = Ok body ->
  exists a p u hu,
    actions_cell ms = Ok a /\ v5r1x_parts xs = Ok p /\
    u = ocell (u32 mt ++ u32 (w_wid w) ++ u32 (unix32 valid) ++ u32 seqno ++ [true] ++ fst p) (a :: snd p) /\
    chash u = Ok hu /\
    body = ocell (cdata u ++ sign sk hu) (crefs u).
Proof. exact v5r1x_layout. Qed.

(** the signature covers every other bit and every reference, extended actions
    and their chain included; the message verifies under its key *)
Theorem C14_v5r1x_signed_part :
  forall (SK : Type) (chash : cell -> res bytes) (sign : SK -> bytes -> bits),
  (forall sk m, length (sign sk m) = 512%nat) ->
  forall w sk ms xs seqno valid mt body,
  create_body_v5r1x SK chash sign w sk ms xs seqno valid mt = Ok body ->
  exists u hu, unsigned_v5r1x w ms xs seqno valid mt = Ok u /\ chash u = Ok hu /\
    v5_split body = Ok (sign sk hu, u) /\ signed_hash chash true body = Ok (sign sk hu, hu).
Proof. exact v5r1x_signed_part. Qed.

Theorem C14_v5r1x_verifies :
  forall (SK : Type) (chash : cell -> res bytes) (sign : SK -> bytes -> bits)
         (verify : bits -> bytes -> bits -> bool) (pub : SK -> bits),
  (forall sk m, length (sign sk m) = 512%nat) ->
  forall w sk ms xs seqno valid mt body wc addr init e h,
  (forall m, verify (pub sk) m (sign sk m) = true) -> length (pub sk) = 256%nat ->
  create_body_v5r1x SK chash sign w sk ms xs seqno valid mt = Ok body ->
  v5_verify chash verify (pub sk) body = Ok tt /\
  (length addr = 256%nat -> init_ok chash init -> ext_msg wc addr init body = Ok e -> chash e = Ok h ->
   verify_signature chash verify V5R1 e (pub sk) = Ok tt).
Proof. exact v5r1x_verifies. Qed.

(** decoding returns the messages AND the extended actions, in order *)
Theorem C14_v5r1x_roundtrip :
  forall (SK : Type) (chash : cell -> res bytes) (sign : SK -> bytes -> bits),
  (forall sk m, length (sign sk m) = 512%nat) ->
  forall w sk ms xs seqno valid body,
  modes_ok ms -> (seqno < 4294967296)%N -> xs <> Some [] ->
  create_body_v5r1x SK chash sign w sk ms xs seqno valid op_signed_external = Ok body ->
  decode_v5r1x body = Ok (mkdec (w_wid w mod 4294967296) (unix32 valid) seqno 0 ms, xs).
Proof. exact v5r1x_roundtrip. Qed.
Print Assumptions C14_v5r1x_roundtrip.

(** a signature never transfers to another signed part (so not to a body with a
    changed, added or dropped extended action either) *)
Theorem C14_foreign_part_rejected :
  forall (SK : Type) (chash : cell -> res bytes) (sign : SK -> bytes -> bits)
         (verify : bits -> bytes -> bits -> bool) (pub : SK -> bits) sk u hu v appended m' e' part',
  ideal_signature SK sign verify pub -> chash u = Ok hu -> no_second_preimage chash u ->
  verify_layout v = Some appended -> parse_ext chash m' = Ok e' ->
  (if appended then v5_split (e_body e') else split_signed (e_body e')) = Ok (sign sk hu, part') ->
  part' <> u ->
  verify_signature chash verify v m' (pub sk) <> Ok tt.
Proof. exact foreign_part_rejected. Qed.

(** *** any envelope.  The message decoder (tlb.Message) gives back info, init
    and body for every CommonMsgInfo constructor, every MsgAddress form (anycast
    included), init absent / by reference / inline, body by reference / inline. *)
Theorem C14_envelope_roundtrip :
  forall (chash : cell -> res bytes) info fi fb sp ty mk_ h,
  info_ok info -> init_form_ok fi ->
  chash (Cell sp ty mk_ (info_bits info ++ init_bits_of fi ++ body_bits_of fb)
              (init_refs_of fi ++ body_refs_of fb)) = Ok h ->
  parse_ext chash (Cell sp ty mk_ (info_bits info ++ init_bits_of fi ++ body_bits_of fb)
                        (init_refs_of fi ++ body_refs_of fb)) =
    Ok (mkext info (init_cell_of fi) (body_cell_of fb)).
Proof. exact envelope_roundtrip. Qed.

(** every StateInit (any split depth, tick/tock, code, data, library dictionary)
    is a valid inline init *)
Theorem C14_stateinit_any_form :
  forall sd sp code data kvs libbit librefs,
  lib_wf kvs -> lib_field kvs libbit librefs ->
  si_consumes (si_bits sd sp code data libbit) (opt_list code ++ opt_list data ++ librefs).
Proof. exact si_spec_consumes. Qed.

(** a built body carried by ANY such envelope (by reference or inline): decoding
    and verification, which start from the full message cell, give the requested
    fields and accept the key *)
Theorem C14_any_envelope_roundtrip :
  forall (SK : Type) (chash : cell -> res bytes) (sign : SK -> bytes -> bits)
         (verify : bits -> bytes -> bits -> bool) (pub : SK -> bits),
  (forall sk m, length (sign sk m) = 512%nat) ->
  forall w sk seqno valid ms rnd body info fi fb sp ty mk_ h,
  modes_ok ms -> sendable (w_ver w) -> (seqno < 4294967296)%N ->
  create_body SK chash sign w sk ms seqno valid op_signed_external rnd = Ok body ->
  info_ok info -> init_form_ok fi -> carries fb body ->
  let m := Cell sp ty mk_ (info_bits info ++ init_bits_of fi ++ body_bits_of fb)
                (init_refs_of fi ++ body_refs_of fb) in
  chash m = Ok h ->
  exists d,
    decode_msg chash (w_ver w) m = Ok d /\ extract_raw chash (w_ver w) m = Ok ms /\
    d_msgs d = ms /\ d_id d = expected_id w /\ d_valid d = unix32 valid /\
    (w_ver w <> HLV2R2 -> d_seqno d = seqno) /\
    (forall appended, (forall x, verify (pub sk) x (sign sk x) = true) -> length (pub sk) = 256%nat ->
       verify_layout (w_ver w) = Some appended ->
       verify_signature chash verify (w_ver w) m (pub sk) = Ok tt).
Proof. exact any_envelope_roundtrip. Qed.
Print Assumptions C14_any_envelope_roundtrip.

(** *** the carried messages are the requested transfers.  The internal message
    of a transfer is the encoding, in the TL-B codec model of C03, of the
    tlb.Message value Message.ToInternal builds from (amount, destination, bounce,
    body, code+data, mode) ([msg_ty] = the descriptor translated from tlb.Message,
    C14_gen_message_descriptor); decoding a carried cell gives the fields back *)
Theorem C14_transfer_roundtrip :
  forall t m, transfer_ok t -> internal_msg t = Ok m -> decode_transfer m = Ok t.
Proof. exact transfer_roundtrip. Qed.
Print Assumptions C14_transfer_roundtrip.

(** a deployment (wallet.ContractDeploy) into workchain W is carried as a message
    to (W, hash of the StateInit of code and data) with that StateInit attached,
    bounceable, mode 3 *)
Theorem C14_deploy_carried :
  forall chash wc code data body amount t m,
  (forall c h, chash c = Ok h -> length h = 32%nat) ->
  (TlbCore.byte_len amount <= 15)%nat -> (-128 <= wc < 128)%Z ->
  deploy_transfer chash wc (Some code) (Some data) body amount = Ok t -> internal_msg t = Ok m ->
  exists h, chash (cell_of_ct (deploy_stateinit code data)) = Ok h /\
    decode_transfer m = Ok (mktr amount wc (bytes_to_bits h) true body (Some (code, data)) 3).
Proof. exact deploy_carried. Qed.

(** so the message a wallet sends carries exactly the requested transfers, in
    order: extract the carried cells from the full external message, decode each *)
Theorem C14_transfers_carried :
  forall (SK : Type) (chash : cell -> res bytes) (sign : SK -> bytes -> bits)
         w sk wc addr seqno valid ts ms init rnd h e,
  (forall sk m, length (sign sk m) = 512%nat) ->
  Forall transfer_ok ts -> Forall (fun t => (t_mode t < 256)%N) ts ->
  internal_msgs ts = Ok ms ->
  length addr = 256%nat -> init_ok chash init -> sendable (w_ver w) -> (seqno < 4294967296)%N ->
  raw_send_msg SK chash sign w sk wc addr seqno valid ms init rnd = Ok (h, e) ->
  exists carried, extract_raw chash (w_ver w) e = Ok carried /\ decode_transfers carried = Ok ts.
Proof. exact transfers_carried. Qed.
Print Assumptions C14_transfers_carried.

(** *** expiry, clock as a parameter.  Wallet.CreateMessageBody signs the explicit
    ValidUntil when one is given and otherwise now + the lifetime THE WALLET was
    configured with (WithMessageLifetime d, else 3 minutes) — the value SendV2 /
    Send take as well (C15_api_send_v2_expiry); RawSend / RawSendV2 /
    createSignedMsgBodyCell take the caller's expiry (C14_extract_roundtrip). *)
Theorem C14_create_message_body_expiry :
  forall (SK : Type) (chash : cell -> res bytes) (sign : SK -> bytes -> bits),
  (forall sk m, length (sign sk m) = 512%nat) ->
  forall w sk life now cfg ms seqno rnd body,
  modes_ok ms -> sendable (w_ver w) -> (seqno < 4294967296)%N ->
  api_create_message_body SK chash sign w sk life now cfg ms seqno op_signed_external rnd = Ok body ->
  exists d, decode_body (w_ver w) body = Ok d /\ d_msgs d = ms /\
            d_valid d = unix32 (match cfg with Some v => v | None => expiry now life end).
Proof. exact create_message_body_expiry. Qed.

Theorem C14_create_message_body_default_expiry :
  forall (SK : Type) (chash : cell -> res bytes) (sign : SK -> bytes -> bits),
  (forall sk m, length (sign sk m) = 512%nat) ->
  forall w sk olife now ms seqno rnd body,
  modes_ok ms -> sendable (w_ver w) -> (seqno < 4294967296)%N ->
  api_create_message_body SK chash sign w sk (lifetime_of olife) now None ms seqno op_signed_external rnd = Ok body ->
  exists d, decode_body (w_ver w) body = Ok d /\
            d_valid d = unix32 (match olife with
                                | Some l => (now + l) / 1000000000
                                | None => (now + 180000000000) / 1000000000
                                end)%Z.
Proof. exact create_message_body_default_expiry. Qed.
Print Assumptions C14_create_message_body_default_expiry.

(** The executable instance: [chash] = the TON representation hash over
    SHA-256 (C02 proves the implementation's Cell.Hash equal to it). *)
Definition C14_hash_instance (c : cell) : res bytes := repr_hash sha256 c.

(** Non-vacuity: a v3r2 wallet with two messages and a highload wallet with three
    build messages (with the real hash), so the premises of the theorems above
    are met by non-trivial values. *)
Example C14_premises_satisfiable :
  let sign (_ : unit) (_ : bytes) := zeros 512 in
  let m1 := mkraw (ocell [true; false; true] [ocell [] []]) 3 in
  let m2 := mkraw (ocell (zeros 16) []) 128 in
  let addr := zeros 256 in
  (exists h e, raw_send_msg unit C14_hash_instance sign (mkw V3R2 (zeros 256) 0 698983191 0 0) tt 0 addr
                 7 1700000000 [m1; m2] None 0 = Ok (h, e)) /\
  (exists h e, raw_send_msg unit C14_hash_instance sign (mkw HLV2R2 (zeros 256) 0 698983191 0 0) tt 0 addr
                 0 1700000000 [m1; m2; m1] None 12345 = Ok (h, e)).
Proof. cbn zeta. split; vm_compute; do 2 eexists; reflexivity. Qed.
