(** C14 — wallet-built messages carry the requested transfers under a valid
    signature.  Statements only.

    [chash] is Cell.Hash (any function from cells to a hash or an error; the
    executable model uses the representation hash of Spec/ReprHash.v over the
    Gallina SHA-256, see [C14_hash_instance]), [sign]/[verify]/[pub] are
    Ed25519; no theorem unfolds them.  Idealisations appear as hypotheses:
    [ideal_signature], [no_second_preimage].  Versions: the seven for which the
    library can build a message ([sendable]); V1R1..V2R2 panic("implement me"). *)
From Coq Require Import List NArith ZArith Arith Bool.
From Tongo Require Import Lib.Bits Lib.Res Spec.Sha256 Model.BocParse Model.CellHash Spec.ReprHash
  Model.Wallet Proofs.WalletP Proofs.WalletSigP Proofs.WalletRtP Proofs.WalletHlP Proofs.WalletLayoutP.
Import ListNotations.

(** VerifySignature accepts exactly when the primitive accepts the signature
    found at the layout's position over the hash of the rest of the body (bits
    and all references): first 512 bits for v3/v4/highload, last 512 for v5r1. *)
Theorem C14_verify_iff_primitive :
  forall (chash : cell -> res bytes) (verify : bits -> bytes -> bits -> bool)
         v appended m pk e,
  verify_layout v = Some appended -> length pk = 256%nat -> parse_ext chash m = Ok e ->
  (verify_signature chash verify v m pk = Ok tt <->
   exists sg part h,
     (if appended then v5_split (e_body e) else split_signed (e_body e)) = Ok (sg, part) /\
     chash part = Ok h /\ verify pk h sg = true).
Proof. exact verify_iff_primitive. Qed.
Print Assumptions C14_verify_iff_primitive.

(** the same for SignedMsgBody.Verify and MessageV5VerifySignature (the entry
    point that has to be used for v5 beta) on any body cell *)
Theorem C14_body_verify_iff_primitive :
  forall (chash : cell -> res bytes) (verify : bits -> bytes -> bits -> bool)
         (appended : bool) body pk,
  length pk = 256%nat ->
  ((if appended then v5_verify chash verify pk body else signed_verify chash verify pk body) = Ok tt <->
   exists sg part h,
     (if appended then v5_split body else split_signed body) = Ok (sg, part) /\
     chash part = Ok h /\ verify pk h sg = true).
Proof. exact body_verify_iff_primitive. Qed.

(** Every message RawSendV2 builds (any version, key, seqno, expiry, message
    list, state-init) parses back to its body and verifies under the key it was
    signed with, given only that the primitive accepts its own signatures. *)
Theorem C14_built_message_verifies :
  forall (SK : Type) (chash : cell -> res bytes) (sign : SK -> bytes -> bits)
         (verify : bits -> bytes -> bits -> bool) (pub : SK -> bits),
  (forall sk m, length (sign sk m) = 512%nat) ->
  forall w sk wc addr seqno valid ms init rnd h e,
  (forall m, verify (pub sk) m (sign sk m) = true) -> length (pub sk) = 256%nat ->
  length addr = 256%nat -> init_ok chash init -> sendable (w_ver w) ->
  raw_send_msg SK chash sign w sk wc addr seqno valid ms init rnd = Ok (h, e) ->
  exists body,
    parse_ext chash e = Ok (mkext (Z.to_N (wc mod 256)) addr init body) /\
    (forall appended, verify_layout (w_ver w) = Some appended ->
                      verify_signature chash verify (w_ver w) e (pub sk) = Ok tt) /\
    (if sig_appended (w_ver w) then v5_verify chash verify (pub sk) body
     else signed_verify chash verify (pub sk) body) = Ok tt.
Proof. exact built_message_verifies. Qed.
Print Assumptions C14_built_message_verifies.

(** Under an ideal signature scheme no other 32-byte key is accepted ... *)
Theorem C14_other_key_rejected :
  forall (SK : Type) (chash : cell -> res bytes) (sign : SK -> bytes -> bits)
         (verify : bits -> bytes -> bits -> bool) (pub : SK -> bits),
  (forall sk m, length (sign sk m) = 512%nat) ->
  forall w sk wc addr seqno valid ms init rnd h e pk appended,
  ideal_signature SK sign verify pub ->
  length addr = 256%nat -> init_ok chash init -> sendable (w_ver w) ->
  raw_send_msg SK chash sign w sk wc addr seqno valid ms init rnd = Ok (h, e) ->
  verify_layout (w_ver w) = Some appended -> pk <> pub sk -> length pk = 256%nat ->
  verify_signature chash verify (w_ver w) e pk = Err EBadSig.
Proof. exact other_key_rejected. Qed.
Print Assumptions C14_other_key_rejected.

(** ... and, if the cell hash separates the signed cell from every other cell,
    no message carrying that signature over a different signed part (any bit,
    any reference) is accepted under the wallet's key ... *)
Theorem C14_changed_signed_part_rejected :
  forall (SK : Type) (chash : cell -> res bytes) (sign : SK -> bytes -> bits)
         (verify : bits -> bytes -> bits -> bool) (pub : SK -> bits)
         w sk ms seqno valid mt rnd body u hu v appended m' e' part',
  ideal_signature SK sign verify pub ->
  create_body SK chash sign w sk ms seqno valid mt rnd = Ok body ->
  unsigned_body w ms seqno valid mt rnd = Ok u -> chash u = Ok hu ->
  no_second_preimage chash u ->
  verify_layout v = Some appended -> parse_ext chash m' = Ok e' ->
  (if appended then v5_split (e_body e') else split_signed (e_body e')) = Ok (sign sk hu, part') ->
  part' <> u ->
  verify_signature chash verify v m' (pub sk) <> Ok tt.
Proof. exact changed_signed_part_rejected. Qed.

(** ... in particular after flipping any single bit of the signed bits. *)
Theorem C14_flipped_signed_bit_rejected :
  forall (SK : Type) (chash : cell -> res bytes) (sign : SK -> bytes -> bits)
         (verify : bits -> bytes -> bits -> bool) (pub : SK -> bits),
  (forall sk m, length (sign sk m) = 512%nat) ->
  forall w sk wc addr seqno valid ms init rnd h e body u hu appended i m' e',
  ideal_signature SK sign verify pub ->
  length addr = 256%nat -> init_ok chash init -> sendable (w_ver w) ->
  raw_send_msg SK chash sign w sk wc addr seqno valid ms init rnd = Ok (h, e) ->
  create_body SK chash sign w sk ms seqno valid op_signed_external rnd = Ok body ->
  unsigned_body w ms seqno valid op_signed_external rnd = Ok u -> chash u = Ok hu ->
  no_second_preimage chash u ->
  verify_layout (w_ver w) = Some appended ->
  (i < length (cdata u))%nat ->
  parse_ext chash m' = Ok e' ->
  e_body e' = ocell (flip_nth ((if appended then 0 else 512) + i) (cdata body)) (crefs body) ->
  verify_signature chash verify (w_ver w) m' (pub sk) <> Ok tt.
Proof. exact flipped_signed_bit_rejected. Qed.
Print Assumptions C14_flipped_signed_bit_rejected.

(** Decoding a built message returns the requested messages with their modes
    in order, the wallet / sub-wallet id, the expiry (as uint32) and the seqno;
    in particular the count was within the version's limit.  (Highload: the
    messages are ordinary cell trees, otherwise the model answers Unmodelled and
    the premise fails; its query id is expiry<<32 + random.) *)
Theorem C14_extract_roundtrip :
  forall (SK : Type) (chash : cell -> res bytes) (sign : SK -> bytes -> bits),
  (forall sk m, length (sign sk m) = 512%nat) ->
  forall w sk wc addr seqno valid ms init rnd h e,
  modes_ok ms -> length addr = 256%nat -> init_ok chash init -> sendable (w_ver w) ->
  (seqno < 4294967296)%N ->
  raw_send_msg SK chash sign w sk wc addr seqno valid ms init rnd = Ok (h, e) ->
  exists d,
    decode_msg chash (w_ver w) e = Ok d /\ extract_raw chash (w_ver w) e = Ok ms /\
    d_msgs d = ms /\ d_id d = expected_id w /\ d_valid d = unix32 valid /\
    (w_ver w <> HLV2R2 -> d_seqno d = seqno) /\
    (w_ver w = HLV2R2 -> d_extra d = (rnd mod 4294967296)%N) /\
    (length ms <= max_messages (w_ver w))%nat.
Proof. exact extract_roundtrip. Qed.
Print Assumptions C14_extract_roundtrip.

(** More messages than the version allows (4 / 4 / 254 / 255 / 254) is an
    error of RawSendV2 — never a truncated message. *)
Theorem C14_too_many_refused :
  forall (SK : Type) (chash : cell -> res bytes) (sign : SK -> bytes -> bits)
         w sk wc addr seqno valid ms init rnd,
  (max_messages (w_ver w) < length ms)%nat ->
  raw_send_msg SK chash sign w sk wc addr seqno valid ms init rnd = Err EWallet.
Proof. exact too_many_refused. Qed.

Theorem C14_max_messages :
  map max_messages [V3R1; V3R2; V4R1; V4R2; V5Beta; V5R1; HLV2R2] = [4; 4; 4; 4; 254; 255; 254]%nat.
Proof. reflexivity. Qed.

(** v3, v4 and highload payload codecs refuse too long lists by themselves
    (CreateMessageBody); for v5 only RawSendV2 checks. *)
Theorem C14_marshal_refuses :
  forall (SK : Type) (chash : cell -> res bytes) (sign : SK -> bytes -> bits)
         w sk ms seqno valid mt rnd,
  (w_ver w = V3R1 \/ w_ver w = V3R2 \/ w_ver w = V4R1 \/ w_ver w = V4R2) /\ (4 < length ms)%nat \/
  w_ver w = HLV2R2 /\ (254 < length ms)%nat ->
  create_body SK chash sign w sk ms seqno valid mt rnd = Err EWallet.
Proof. exact marshal_refuses. Qed.

(** Bit-exact layout of every built body and its size. *)
Theorem C14_body_layout :
  forall (SK : Type) (chash : cell -> res bytes) (sign : SK -> bytes -> bits)
         w sk ms seqno valid mt rnd body,
  create_body SK chash sign w sk ms seqno valid mt rnd = Ok body ->
  exists u hu,
    unsigned_layout w ms seqno valid mt rnd u /\ chash u = Ok hu /\
    crefs body = crefs u /\
    cdata body = (if sig_appended (w_ver w) then cdata u ++ sign sk hu
                  else fit 512 (sign sk hu) ++ cdata u) /\
    body = ocell (cdata body) (crefs body).
Proof. exact body_layout. Qed.

Theorem C14_body_size :
  forall (SK : Type) (chash : cell -> res bytes) (sign : SK -> bytes -> bits)
         w sk ms seqno valid mt rnd body,
  (forall sk m, length (sign sk m) = 512%nat) ->
  create_body SK chash sign w sk ms seqno valid mt rnd = Ok body ->
  match w_ver w with
  | V3R1 | V3R2 => length (cdata body) = (608 + 8 * length ms)%nat /\ length (crefs body) = length ms
  | V4R1 | V4R2 => length (cdata body) = (616 + 8 * length ms)%nat /\ length (crefs body) = length ms
  | V5Beta => length (cdata body) = 689%nat /\ length (crefs body) = 1%nat
  | V5R1 => length (cdata body) = 642%nat /\ length (crefs body) = 1%nat
  | HLV2R2 => length (cdata body) = 609%nat /\
              length (crefs body) = (match ms with [] => 0 | _ => 1 end)%nat
  | _ => False
  end.
Proof. exact body_size. Qed.

(** The executable instance: [chash] = the TON representation hash over
    SHA-256 (C02 proves the implementation's Cell.Hash equal to it). *)
Definition C14_hash_instance (c : cell) : res bytes := repr_hash sha256 c.

(** Non-vacuity: a v3r2 wallet with two messages and a highload wallet with three
    build messages (with the real hash), so the premises of the theorems above
    are met by non-trivial values. *)
Example C14_premises_satisfiable :
  let sign (_ : unit) (_ : bytes) := zeros 512 in
  let m1 := mkraw (ocell [true; false; true] [ocell [] []]) 3 in
  let m2 := mkraw (ocell (zeros 16) []) 128 in
  let addr := zeros 256 in
  (exists h e, raw_send_msg unit C14_hash_instance sign (mkw V3R2 (zeros 256) 0 698983191 0 0) tt 0 addr
                 7 1700000000 [m1; m2] None 0 = Ok (h, e)) /\
  (exists h e, raw_send_msg unit C14_hash_instance sign (mkw HLV2R2 (zeros 256) 0 698983191 0 0) tt 0 addr
                 0 1700000000 [m1; m2; m1] None 12345 = Ok (h, e)).
Proof. cbn zeta. split; vm_compute; do 2 eexists; reflexivity. Qed.
