(** C08, second layer — the hand-written TL-B decoders inside the theorems.
    Statements only.  Model/TlbHand.v extends the descriptor language of the
    reflection walker by: Hashmap / HashmapAug (HashmapE / HashmapAugE are
    compositions), VmStack, VmStackValue, VmStkTuple, VmCellSlice, VmCont,
    Grams, SnakeData, Bytes, Text (with the UTF-8 check), FixedLengthText, BinTree, plain boc.Cell, and the
    hash-first decoders Message / Transaction ([YHashed]: whether boc.Cell.Hash() succeeds is a parameter
    [hash_ok] of the walker — an oracle column in the correspondence runs, arbitrary in the theorems); cells carry their
    kind (pruned branch / library shortcuts of Maybe, Either, Ref, "^", "maybe^").
    Data-driven recursion is structural on the cell tree (no fuel). *)
From Coq Require Import List NArith ZArith Arith Lia Bool.
From Tongo Require Import Lib.Bits Lib.Res Spec.TlWire Spec.Dict Model.Hashmap Model.BocParse Model.VmMap
     Model.TlbCore Model.TlbTotal Proofs.TlbTotalP Model.TlbHand Proofs.TlbHandP Proofs.TlbHandR
     Proofs.TlbHandR2 Proofs.TlbHandR3 Proofs.TlbHandR4 Model.Framing Proofs.FramingP Proofs.TlbHandTL.
Import ListNotations.
Local Open Scope N_scope.

(** tlb.Unmarshal / Decoder.Unmarshal on every extended descriptor, environment,
    fuel, cell tree (any kinds, any bit lengths, any shape), hash oracle and
    library resolver — including resolvers that answer with a library cell
    again (the same, a copy, a cycle), a pruned branch or a huge cell: a value or
    an error, never a panic; decode() resolves a library cell at most once per
    call, so the walk is structurally finite (no fuel is spent on resolving) *)
Theorem C08_ext_decode_total :
  forall env hash_ok resolve fuel t c p, fst (yunmarshal env hash_ok resolve fuel t c) <> Panic p.
Proof. intros env hk rs fuel t c. apply np_spec. apply (yunmarshal_np env hk rs fuel t c). Qed.
Print Assumptions C08_ext_decode_total.

(** for closed descriptors nested no deeper than the fuel: the fuel is never
    the reason of an error, and steps + modelled allocation are bounded by
    usz(descriptor) x size-in-bytes x height of the tree — nothing announced
    inside the data (depth, count, label or byte length) enters the bound *)
Theorem C08_ext_decode_cost :
  forall env hash_ok fuel t, yfits fuel t = true -> forall c,
  let r := yunmarshal env hash_ok no_resolver fuel t c in
  fst r <> Err EFuel /\
  c_steps (snd r) + c_alloc (snd r) <= usz fuel t * tsz c * thg c.
Proof.
  intros env hk fuel t Hf c. cbv zeta. unfold yunmarshal.
  pose proof (ydec_cost env hk (thg c) (thg_pos c) fuel t Hf (slice_of c) (mkct 0 0)) as H.
  unfold dpost, wt in H. rewrite !cell_of_slice in H. specialize (H (N.le_refl _)).
  destruct H as [Hc Hr].
  split.
  - destruct (fst (ydec env hk no_resolver fuel t (slice_of c) (mkct 0 0)));
      [discriminate | intros E; inversion E; subst; apply Hr; reflexivity | contradiction].
  - unfold cost, wt in Hc. cbn [c_steps c_alloc] in Hc. lia.
Qed.
Print Assumptions C08_ext_decode_cost.

(** what is left unread is a suffix of what was there *)
Theorem C08_ext_decode_suffix :
  forall env hash_ok fuel t, yfits fuel t = true -> forall c s',
  fst (yunmarshal env hash_ok no_resolver fuel t c) = Ok s' ->
  (length (yb s') <= length (yb (slice_of c)))%nat /\ exists pre, yr (slice_of c) = pre ++ yr s'.
Proof.
  intros env hk fuel t Hf c s' E.
  pose proof (ydec_cost env hk (thg c) (thg_pos c) fuel t Hf (slice_of c) (mkct 0 0)) as H.
  unfold dpost, wt in H. rewrite !cell_of_slice in H. specialize (H (N.le_refl _)).
  destruct H as [_ Hr]. fold (yunmarshal env hk no_resolver fuel t c) in Hr. rewrite E in Hr. exact Hr.
Qed.

(** ** VmStack: getStackListItems *)

(** cost <= 2 x size + 912 x height^2 for EVERY announced depth; at most
    height items are decoded.  The quadratic term is the per-level copy of the
    tail (304 bytes per item) — see the observation below. *)
Theorem C08_vm_list_cost :
  forall c depth st,
  let r := vm_list c depth st in
  (forall p, fst r <> Panic p) /\ fst r <> Err EFuel /\
  cost (snd r) <= cost st + 2 * tsz c + 912 * (thg c * thg c) /\
  (forall n s, fst r = Ok (n, s) -> n <= thg c).
Proof.
  intros c depth st r. destruct (vm_list_cost c depth st) as [Hc Hr]. fold r in Hc, Hr.
  unfold vm_list_bound in Hc. repeat split.
  - intros p E. rewrite E in Hr. exact Hr.
  - intros E. rewrite E in Hr. apply Hr; reflexivity.
  - lia.
  - intros n s E. rewrite E in Hr. apply Hr.
Qed.

(** observation: the quadratic term is real — an honest stack of 64 tiny
    integers (64 small cells) makes the model allocate more than 304 x 64^2
    bytes; tlb.VmStack decoding re-copies the tail of the list at every level *)
Theorem C08_vm_list_quadratic_observation :
  let r := vm_list (honest_stack 64) 64 (mkct 0 0) in
  (exists s, fst r = Ok (64, s)) /\ 304 * (64 * 64) <= c_alloc (snd r).
Proof. exact vm_list_quadratic_64. Qed.

(** VmStack.UnmarshalTL end to end: TL bytes -> BOC (C07's parser) -> first
    root -> VmStack walker: never a panic *)
Theorem C08_vmstack_unmarshal_tl_full_total :
  forall b, bytes_ok b -> forall p, vmstack_unmarshal_tl_full b <> Panic p.
Proof. intros b Hb. apply np_spec. apply vmstack_unmarshal_tl_full_total. exact Hb. Qed.

(** ** the stack -> Go value mapping of integer entries (VmStackValue.Unmarshal):
    every int257 (incl. the minimum -2^256) into every destination kind is a
    value or an error, never a panic *)
Theorem C08_map_int_total : forall v d p, map_int v d <> Panic p.
Proof. exact map_int_total. Qed.

(** ** dictionaries *)

(** mapInner on any cell tree with any value / extra decoder that satisfies
    its own bound: linear in size x height, any key size *)
Theorem C08_hashmap_cost :
  forall env hash_ok fuel n vsz v, yfits fuel v = true -> forall c,
  let r := yunmarshal env hash_ok no_resolver (S fuel) (YHashmap n vsz v) c in
  (forall p, fst r <> Panic p) /\ fst r <> Err EFuel /\
  c_steps (snd r) + c_alloc (snd r) <= (1 + hm_k n vsz (usz fuel v) 0) * tsz c * thg c.
Proof.
  intros env hk fuel n vsz v Hf c r.
  assert (Hfit : yfits (S fuel) (YHashmap n vsz v) = true) by exact Hf.
  destruct (C08_ext_decode_cost env hk (S fuel) _ Hfit c) as [H1 H2].
  repeat split; [apply C08_ext_decode_total | exact H1 | exact H2].
Qed.

(** a label that announces more bits than the cell holds, or more than what is
    left of the key, is an error *)
Theorem C08_label_too_long_is_error :
  forall m room c2 ln rest, read_lim m c2 = Ok (ln, rest) ->
  ((length rest < N.to_nat ln)%nat \/ N.of_nat room < ln) ->
  exists e, load_label m room (true :: false :: c2) = Err e.
Proof.
  intros m room c2 ln rest Hr [H | H];
    [apply (load_label_long_short _ _ _ _ _ Hr H) | apply (load_label_overflow _ _ _ _ _ Hr H)].
Qed.

(** ** snake data *)
Theorem C08_snake_cost :
  forall c st, let r := snake c st in
  (forall p, fst r <> Panic p) /\ fst r <> Err EFuel /\
  cost (snd r) <= cost st + 66 * tsz c * thg c.
Proof.
  intros c st r. destruct (snake_cost c st) as [Hc Hr]. fold r in Hc, Hr. repeat split.
  - intros p E. rewrite E in Hr. exact Hr.
  - intros E. rewrite E in Hr. apply Hr; reflexivity.
  - exact Hc.
Qed.

(** Non-vacuity: a dictionary with two 2-bit keys and 8-bit values under a
    Maybe-Ref (HashmapE 2 uint8) decodes; the descriptor fits. *)
Example C08_ext_satisfiable :
  let t := YMaybe (YRef (YHashmap 2 9 (YUint 8))) in
  let leaf (k : bool) (v : N) := XT 0 ([true; false] ++ bits_of 1 1 ++ [k] ++ bits_of 8 v) [] in
  let root := XT 0 ([true; false] ++ bits_of 2 0) [leaf false 7; leaf true 9] in
  yfits 4 t = true /\ exists s, fst (yunmarshal [] (fun _ => true) no_resolver 4 t (XT 0 [true] [root])) = Ok s.
Proof. vm_compute. split; [reflexivity | eexists; reflexivity]. Qed.
