
type __ = Obj.t

val negb : bool -> bool

type nat =
| O
| S of nat

val option_map : ('a1 -> 'a2) -> 'a1 option -> 'a2 option

val fst : ('a1 * 'a2) -> 'a1

val snd : ('a1 * 'a2) -> 'a2

val length : 'a1 list -> nat

val app : 'a1 list -> 'a1 list -> 'a1 list

type comparison =
| Eq
| Lt
| Gt

val compOpp : comparison -> comparison

val pred : nat -> nat

val add : nat -> nat -> nat

val mul : nat -> nat -> nat

val sub : nat -> nat -> nat

val eqb : nat -> nat -> bool

val divmod : nat -> nat -> nat -> nat -> nat * nat

val div : nat -> nat -> nat

val modulo : nat -> nat -> nat

val bool_dec : bool -> bool -> bool

val eqb0 : bool -> bool -> bool

module Nat :
 sig
  val sub : nat -> nat -> nat

  val eqb : nat -> nat -> bool

  val leb : nat -> nat -> bool

  val ltb : nat -> nat -> bool

  val max : nat -> nat -> nat

  val min : nat -> nat -> nat

  val divmod : nat -> nat -> nat -> nat -> nat * nat

  val div : nat -> nat -> nat

  val modulo : nat -> nat -> nat
 end

val hd_error : 'a1 list -> 'a1 option

val tl : 'a1 list -> 'a1 list

val nth : nat -> 'a1 list -> 'a1 -> 'a1

val nth_error : 'a1 list -> nat -> 'a1 option

val last : 'a1 list -> 'a1 -> 'a1

val rev : 'a1 list -> 'a1 list

val rev_append : 'a1 list -> 'a1 list -> 'a1 list

val concat : 'a1 list list -> 'a1 list

val map : ('a1 -> 'a2) -> 'a1 list -> 'a2 list

val flat_map : ('a1 -> 'a2 list) -> 'a1 list -> 'a2 list

val fold_left : ('a1 -> 'a2 -> 'a1) -> 'a2 list -> 'a1 -> 'a1

val fold_right : ('a2 -> 'a1 -> 'a1) -> 'a1 -> 'a2 list -> 'a1

val existsb : ('a1 -> bool) -> 'a1 list -> bool

val forallb : ('a1 -> bool) -> 'a1 list -> bool

val filter : ('a1 -> bool) -> 'a1 list -> 'a1 list

val find : ('a1 -> bool) -> 'a1 list -> 'a1 option

val combine : 'a1 list -> 'a2 list -> ('a1 * 'a2) list

val firstn : nat -> 'a1 list -> 'a1 list

val skipn : nat -> 'a1 list -> 'a1 list

val seq : nat -> nat -> nat list

val repeat : 'a1 -> nat -> 'a1 list

type positive =
| XI of positive
| XO of positive
| XH

type n =
| N0
| Npos of positive

type z =
| Z0
| Zpos of positive
| Zneg of positive

module Pos :
 sig
  type mask =
  | IsNul
  | IsPos of positive
  | IsNeg
 end

module Coq_Pos :
 sig
  val succ : positive -> positive

  val add : positive -> positive -> positive

  val add_carry : positive -> positive -> positive

  val pred_double : positive -> positive

  val pred_N : positive -> n

  type mask = Pos.mask =
  | IsNul
  | IsPos of positive
  | IsNeg

  val succ_double_mask : mask -> mask

  val double_mask : mask -> mask

  val double_pred_mask : positive -> mask

  val sub_mask : positive -> positive -> mask

  val sub_mask_carry : positive -> positive -> mask

  val mul : positive -> positive -> positive

  val iter : ('a1 -> 'a1) -> 'a1 -> positive -> 'a1

  val pow : positive -> positive -> positive

  val size_nat : positive -> nat

  val size : positive -> positive

  val compare_cont : comparison -> positive -> positive -> comparison

  val compare : positive -> positive -> comparison

  val eqb : positive -> positive -> bool

  val coq_Nsucc_double : n -> n

  val coq_Ndouble : n -> n

  val coq_lor : positive -> positive -> positive

  val coq_land : positive -> positive -> n

  val coq_lxor : positive -> positive -> n

  val shiftl : positive -> n -> positive

  val testbit : positive -> n -> bool

  val iter_op : ('a1 -> 'a1 -> 'a1) -> positive -> 'a1 -> 'a1

  val to_nat : positive -> nat

  val of_succ_nat : nat -> positive
 end

module N :
 sig
  val succ_double : n -> n

  val double : n -> n

  val succ : n -> n

  val pred : n -> n

  val add : n -> n -> n

  val sub : n -> n -> n

  val mul : n -> n -> n

  val compare : n -> n -> comparison

  val eqb : n -> n -> bool

  val leb : n -> n -> bool

  val ltb : n -> n -> bool

  val min : n -> n -> n

  val max : n -> n -> n

  val div2 : n -> n

  val even : n -> bool

  val odd : n -> bool

  val pow : n -> n -> n

  val size : n -> n

  val size_nat : n -> nat

  val pos_div_eucl : positive -> n -> n * n

  val div_eucl : n -> n -> n * n

  val div : n -> n -> n

  val modulo : n -> n -> n

  val coq_lor : n -> n -> n

  val coq_land : n -> n -> n

  val coq_lxor : n -> n -> n

  val shiftl : n -> n -> n

  val shiftr : n -> n -> n

  val testbit : n -> n -> bool

  val to_nat : n -> nat

  val of_nat : nat -> n

  val b2n : bool -> n
 end

type ascii =
| Ascii of bool * bool * bool * bool * bool * bool * bool * bool

val zero : ascii

val one : ascii

val shift : bool -> ascii -> ascii

val ascii_dec : ascii -> ascii -> bool

val eqb1 : ascii -> ascii -> bool

val ascii_of_pos : positive -> ascii

val ascii_of_N : n -> ascii

val n_of_digits : bool list -> n

val n_of_ascii : ascii -> n

module Z :
 sig
  val double : z -> z

  val succ_double : z -> z

  val pred_double : z -> z

  val pos_sub : positive -> positive -> z

  val add : z -> z -> z

  val opp : z -> z

  val sub : z -> z -> z

  val mul : z -> z -> z

  val pow_pos : z -> positive -> z

  val pow : z -> z -> z

  val compare : z -> z -> comparison

  val leb : z -> z -> bool

  val ltb : z -> z -> bool

  val gtb : z -> z -> bool

  val eqb : z -> z -> bool

  val max : z -> z -> z

  val min : z -> z -> z

  val abs : z -> z

  val abs_N : z -> n

  val to_nat : z -> nat

  val to_N : z -> n

  val of_nat : nat -> z

  val of_N : n -> z

  val pos_div_eucl : positive -> z -> z * z

  val div_eucl : z -> z -> z * z

  val div : z -> z -> z

  val modulo : z -> z -> z
 end

type string =
| EmptyString
| String of ascii * string

val eqb2 : string -> string -> bool

val append : string -> string -> string

val length0 : string -> nat

val prefix : string -> string -> bool

type bits = bool list

val n_of_bits : bits -> n

val bits_of_le : nat -> n -> bits

val bits_of : nat -> n -> bits

val zeros : nat -> bits

val ones : nat -> bits

val set_nth : nat -> 'a1 -> 'a1 list -> 'a1 list

val set_nth_opt : nat -> 'a1 -> 'a1 list -> 'a1 list option

val short : nat -> 'a1 list -> bool

type sx =
| SN of n
| SZ of z
| SB of bool
| SBits of bits
| SBytes of n list
| SA of string
| SL of sx list

val sx_err : string -> sx

val sx_nat : nat -> sx

type 'a res =
| Ok of 'a
| Err of n
| Panic of n

val bind : 'a1 res -> ('a1 -> 'a2 res) -> 'a2 res

val is_ok : 'a1 res -> bool

val res_map : ('a1 -> 'a2) -> 'a1 res -> 'a2 res

val eNotEnoughBits : n

val eOverflow : n

val eTooManyBits : n

val eZeroSize : n

val eTooSmall : n

val eInvalidHex : n

val eNotEnoughRefs : n

val eRefsOverflow : n

val eOther : n

val eFuel : n

val pIndex : n

val pSlice : n

val pMakeSlice : n

val pNil : n

val pExplicit : n

val pShift : n

type bs = { buf : bits; cap : nat; len : nat; rcur : nat }

val nbytes : nat -> nat

val new_bs : nat -> bs

val avail_read : bs -> nat

val avail_write : bs -> nat

val write_bit : bool -> bs -> bs * unit res

val write_bits : bits -> bs -> bs * unit res

val write_uint : n -> nat -> bs -> bs * unit res

val two64 : n

val two63 : z

val u64_of_Z : z -> n

val write_int : z -> nat -> bs -> bs * unit res

val write_big_uint : n -> nat -> bs -> bs * unit res

val int64_low : z -> z

val write_big_int : z -> nat -> bs -> bs * unit res

val bytes_bits : n list -> bits

val write_bytes : n list -> bs -> bs * unit res

val write_bitstring : bs -> bs -> bs * unit res

val write_unary : nat -> bs -> bs * unit res

val get_bit : nat -> bs -> bool

val read_bit : bs -> bs * bool res

val skip : nat -> bs -> bs * unit res

val load_be : nat -> nat -> bs -> n

val set_rcur : bs -> nat -> bs

val read_uint : nat -> bs -> bs * n res

val pick_uint : nat -> bs -> bs * n res

val i64_of_N : n -> z

val read_int : nat -> bs -> bs * z res

val read_byte : bs -> bs * n res

val read_byte_loop : nat -> bs -> n list -> bs * n list res

val bytes_of_bits : nat -> bits -> n list

val read_bytes : nat -> bs -> bs * n list res

val read_big_uint : nat -> bs -> bs * n res

val read_big_int : nat -> bs -> bs * z res

val read_bits : nat -> bs -> bs * bits res

val read_unary_loop : nat -> bs -> nat -> bs * nat res

val read_unary : bs -> bs * nat res

val reset_counter : bs -> bs

val abs0 : bs -> bits

val nibble : bits -> n

val nibbles : nat -> bits -> n list

val to_fift : bits -> n list * bool

val strip_tag : n -> bits option

val concat_nibbles : n list -> bits

val from_fift : n list -> bool -> bits option

val write_bits_g :
  (bool -> bs -> bs * unit res) -> bits -> bs -> bs * unit res

val write_bitstring_g :
  (bool -> bs -> bs * unit res) -> bs -> bs -> bs * unit res

val read_bits_bs_g : (bool -> bs -> bs * unit res) -> nat -> bs -> bs * bs res

val read_remaining_bs_g : (bool -> bs -> bs * unit res) -> bs -> bs * bs

val set_bit : nat -> bool -> bs -> bs * unit res

val copy_bs : bs -> bs

val grow : nat -> bs -> bs

val append_g : (bool -> bs -> bs * unit res) -> bs -> bs -> bs * unit res

val hex_of_buf : bs -> n list res

val to_fift_bs_g : (bool -> bs -> bs * unit res) -> bs -> (n list * bool) res

val top_upped_g : (bool -> bs -> bs * unit res) -> bs -> n list res

val read_bits_bs : nat -> bs -> bs * bs res

val read_remaining_bs : bs -> bs * bs

val append_bs : bs -> bs -> bs * unit res

val to_fift_bs : bs -> (n list * bool) res

val top_upped : bs -> n list res

val out_unit : unit res -> sx

val out_of : ('a1 -> sx) -> 'a1 res -> sx

val to_fift_sx : bits -> sx

val step : bs -> sx -> bs * sx

val run_ops : bs -> sx list -> sx list

val run_seq : sx -> sx

val hex_to_int : n -> n option

val hex_digits : n list -> n list option

val ref_suffix : n -> bits option

val from_fift_chars : n list -> bits option

val hex_char : n -> n

val to_fift_chars : bits -> n list

val run_from_fift : sx -> sx

val run_to_fift : sx -> sx

val run_minbits : sx -> sx

val reg_get : bs list -> n -> bs

val reg_set : bs list -> n -> bs -> bs list

val to_fift_bs_sx : bs -> sx

val dstep : bs list -> sx -> bs list * sx

val run_dops : bs list -> sx list -> sx list

val run_derived : sx -> sx

type ccell = { cbits : bs; crefs : nat list; crc : nat }

type heap = ccell list

val new_cell : ccell

val hget : heap -> nat -> ccell

val hset : heap -> nat -> ccell -> heap

val reset_counters : ccell -> ccell

val refs_size : ccell -> nat

val refs_avail : ccell -> nat

val add_ref : nat -> ccell -> ccell * unit res

val ref_slot : ccell -> nat -> nat option res

val next_ref_g : (nat -> bool) -> heap -> nat -> heap * nat res

val next_ref : heap -> nat -> heap * nat res

val next_refs_g :
  (heap -> nat -> heap * nat res) -> nat -> heap -> nat -> nat list ->
  heap * nat list res

val copy_remaining_g :
  (heap -> nat -> heap * nat res) -> heap -> nat -> heap * nat res

val copy_remaining : heap -> nat -> heap * nat res

val new_ref : heap -> nat -> (heap * nat) * unit res

val lookup_nat : (nat * nat) list -> nat -> nat option

val reparsed_bits : bs -> bs

val clone :
  nat -> heap -> (nat * nat) list -> nat -> (heap * (nat * nat) list) * nat

val out_id : nat res -> sx

val rstep : heap -> sx -> heap * sx

val run_rops : heap -> sx list -> sx list

val run_refs : sx -> sx

val m32 : n

val add32 : n -> n -> n

val rotr : n -> n -> n

val not32 : n -> n

val ch : n -> n -> n -> n

val maj : n -> n -> n -> n

val bsig0 : n -> n

val bsig1 : n -> n

val ssig0 : n -> n

val ssig1 : n -> n

val k : n list

val h0 : n list

val next_w : n list -> n

val round : n list -> n -> n -> n list

val rounds16 :
  n list -> n list -> n list -> n list -> (n list * n list) * n list

val rounds48 : n list -> n list -> n list -> n list

val compress : n list -> n list -> n list

val words_of_bytes : n list -> n list

val blocks : nat -> n list -> n list -> n list

val be_bytes : nat -> n -> n list

val pad : nat -> n list

val sha256 : n list -> n list

val crc_poly : n

val crc_bits : nat -> n -> n

val crc_byte : n -> n -> n

val crc32c : n list -> n

type bytes = n list

type node = { n_special : bool; n_type : n; n_mask : n; n_bits : bits;
              n_refs : nat list }

val take_drop : nat -> bytes -> (bytes * bytes) res

val two0 : n

val read_be : nat -> bytes -> n res

val read_be_drop : nat -> bytes -> (n * bytes) res

type header = { h_idx : bool; h_crc : bool; h_cache : bool; h_size : 
                nat; h_cells : n; h_roots : n; h_absent : n; h_tot : 
                n; h_rootlist : n list; h_index : n list; h_data : bytes;
                h_alloc : n }

val magic_reach : bytes

val magic_lean : bytes

val magic_lean_crc : bytes

val bytes_eqb : bytes -> bytes -> bool

val read_list : nat -> nat -> bool -> bytes -> n list -> (n list * bytes) res

val le32 : bytes -> n

val eParse : n

val parse_header : bytes -> header res

val popcount3 : n -> nat

val strip_go : nat -> bits -> bits option

val strip_completion : bits -> bits option

val bytes_bits0 : bytes -> bits

val top_upped_bits : bytes -> bool -> bits res

type rnode = { rn_special : bool; rn_type : n; rn_mask : n; rn_bits : 
               bits; rn_refs : n list }

val read_refs : nat -> nat -> bytes -> n list -> (n list * bytes) res

val parse_cell : bytes -> nat -> (rnode * bytes) res

val parse_cells : nat -> nat -> bytes -> rnode list -> rnode list res

val refs_ok : n -> n -> n list -> bool

val check_refs : n -> n -> rnode list -> bool

val node_of : rnode -> node

type parsed = { p_cells : node list; p_roots : nat list; p_alloc : n }

val cell_alloc : n

val parse_boc : bytes -> parsed res

val t_PRUNED : n

val t_LIBRARY : n

val t_MPROOF : n

val t_MUPDATE : n

val eDepth : n

val mask_level : n -> nat

val mask_popcount : n -> nat

val mask_apply : n -> nat -> n

val mask_significant : n -> nat -> bool

type imm = { im_special : bool; im_type : n; im_mask : n; im_bits : bits;
             im_nrefs : nat; im_hashes : bytes list; im_depths : n list }

val is_pruned : bool -> n -> bool

val is_merkle : bool -> n -> bool

val bits_bytes : nat -> bits -> bytes

val buf_bytes : bits -> bytes

val imm_hash : imm -> nat -> bytes res

val imm_depth : imm -> nat -> n res

val d1_byte : nat -> bool -> n -> n

val d2_byte : nat -> n

val data_with_tag : bits -> bytes

val repr_no_refs : nat -> bool -> n -> bits -> bytes

val be16 : n -> bytes

val mapM : ('a1 -> 'a2 res) -> 'a1 list -> 'a2 list res

val build_loop :
  (bytes -> bytes) -> bool -> n -> n -> bits -> imm list -> nat list -> nat
  -> bytes list -> n list -> (bytes list * n list) res

val build_imm :
  (bytes -> bytes) -> bool -> n -> n -> bits -> imm list -> imm res

val lookup_refs : imm res list -> nat -> nat list -> imm list res

val eval_dag : (bytes -> bytes) -> nat -> node list -> imm res list

val cell_hash : imm -> bytes res

val cell_depth : imm -> n res

val sx_res : ('a1 -> sx) -> 'a1 res -> sx

val root_info : node list -> imm res list -> nat -> sx

val run_parse : sx -> sx

val node_of_sx : sx -> node option

val nodes_of_sx : sx list -> node list option

val level_info : imm res -> nat -> sx

val run_hashes : sx -> sx

type cinfo = { ci_node : nat; ci_cache : bool; ci_wt : nat;
               ci_refs : nat list; ci_hashcount : nat; ci_new : z;
               ci_root : bool }

val set_ci : cinfo list -> nat -> cinfo -> cinfo list

val get_ci : cinfo list -> nat -> cinfo

val with_new : cinfo -> z -> cinfo

val with_wt : cinfo -> nat -> cinfo

val with_cache : cinfo -> cinfo

val with_refs : cinfo -> nat list -> cinfo

val with_root : cinfo -> cinfo

val eSer : n

val find_hash : bytes -> (bytes * nat) list -> nat option

val import_cell :
  node list -> bytes res list -> nat -> cinfo list -> (bytes * nat) list ->
  nat -> nat -> ((cinfo list * (bytes * nat) list) * nat) res

val maxCellWhs : nat

val pass1_cell : cinfo list -> nat -> cinfo list

val pass2_cell : cinfo list -> nat -> cinfo list

type force =
| Previsit
| Visit
| Allocate

val revisit :
  nat -> cinfo list -> nat list -> nat -> force -> ((cinfo list * nat
  list) * z) res

val for_roots : ('a1 -> nat -> 'a1 res) -> 'a1 -> nat list -> 'a1 res

val reorder :
  cinfo list -> nat list -> ((cinfo list * nat list) * nat list) res

val import_roots :
  node list -> bytes res list -> nat list -> ((cinfo list * nat list) * nat
  list) res

val be_n : nat -> n -> bytes

val byte_len : n -> nat

val serialize :
  node list -> bytes res list -> nat list -> bool -> bool -> bool -> bytes res

val hashes_of : node list -> bytes res list

val reach_from : node list -> nat -> bool list -> bool list

val mem_bytes : bytes -> bytes list -> bool

val distinct : bytes list -> bytes list -> bytes list

val all_ok : 'a1 res list -> 'a1 list option

val certificate : node list -> nat -> bytes -> bool

val run_ser : sx -> sx

type cell =
| Cell of bool * n * n * bits * cell list

val stored_hash : n -> bits -> nat -> bytes

val stored_depth : n -> bits -> nat -> n res

val level_repr :
  (bytes -> bytes) -> bool -> n -> bits -> nat -> nat -> bytes option ->
  (bytes * n) list -> (bytes * n) res

val own_levels :
  (bytes -> bytes) -> bool -> n -> bits -> nat -> (nat -> (bytes * n) list
  res) -> nat -> (bytes * n) res

val hd_at : (bytes -> bytes) -> cell -> nat -> (bytes * n) res

val eMerkle : n

val bytes_to_bits : bytes -> bits

val pruned_cell : bytes -> n -> cell

val cell_mask : cell -> n

val prune :
  (bytes -> bytes) -> (nat list -> bool) -> nat list -> cell -> cell res

val create_proof : (bytes -> bytes) -> (nat list -> bool) -> cell -> cell res

val read_n : nat -> bits -> (n * bits) option

val read_unary0 : nat -> bits -> nat -> (nat * bits) option

val load_label : nat -> bits -> (bits * bits) option

val cell_special : cell -> bool

val cell_bits : cell -> bits

val cell_refs : cell -> cell list

val prove_walk :
  nat -> cell -> bits -> nat -> nat -> bits -> nat list -> nat list list ->
  (((nat list list * nat list) * bits) * bits) res

val path_eqb : nat list -> nat list -> bool

val in_paths : nat list list -> nat list -> bool

val bits_eqb : bits -> bits -> bool

val prove_key : (bytes -> bytes) -> cell -> bits -> nat -> cell res

type op =
| OpKey of bits * nat
| OpWalk of nat list list
| OpDrop of nat list list

val run_op :
  (bytes -> bytes) -> (nat list -> nat list -> bool) -> cell -> op -> cell
  res option

val prover_step :
  (bytes -> bytes) -> (nat list -> nat list -> bool) -> cell -> op ->
  cell * cell res option

val prover_run :
  (bytes -> bytes) -> (nat list -> nat list -> bool) -> cell -> op list ->
  cell res option list

type instr =
| IRef of nat * nat
| IPrune of nat

val prog_run : nat list list -> nat list list -> instr list -> nat list list

val prog_prunes : instr list -> nat list list

val tree_at : nat -> node list -> nat -> cell option

val flatten : cell -> nat -> node list

val ser_tree : cell -> sx

val path_of_sx : sx -> nat list

val run_proof : sx -> sx

val run_key : sx -> sx

val instr_of_sx : sx -> instr

val op_of_sx : sx -> op option

val sx_of_result : cell res option -> sx

val run_multi : sx -> sx

val run_conc : sx -> sx

val run_viaboc : sx -> sx

val bits_cmp : bits -> bits -> comparison

val bits_ltb : bits -> bits -> bool

val bits_eqb0 : bits -> bits -> bool

type cell0 =
| Cell0 of bits * cell0 list

val mk_cell : bits -> cell0 list -> cell0 res

type form =
| FShort
| FLong
| FSame of bool

val lim_width : nat -> nat

val hml_short : bits -> bits

val hml_long : nat -> bits -> bits

val hml_same : nat -> bool -> nat -> bits

val enc_label : form -> nat -> bits -> bits

type 'v amap = (bits * 'v) list

val update : bits -> 'a1 -> 'a1 amap -> 'a1 amap

type 'v apt =
| ALeaf of form * bits * 'v
| AFork of form * bits * 'v apt * 'v apt

val cells_of : ('a1 -> bits * cell0 list) -> nat -> 'a1 apt -> cell0 res

val lcp_go : bits -> bits -> bits res

val enc_label_go : nat -> bits -> bits

val binsert : (bits * 'a1) -> (bits * 'a1) list -> (bits * 'a1) list

val bsort : (bits * 'a1) list -> (bits * 'a1) list

val split_keys :
  nat -> (bits * 'a1) list -> ((bits * 'a1) list * (bits * 'a1) list) res

val encode_map :
  ('a1 -> bits * cell0 list) -> nat -> nat -> (bits * 'a1) list -> cell0 res

val encode :
  ('a1 -> bits * cell0 list) -> nat -> (bits * 'a1) list -> cell0 res

val encode_e :
  ('a1 -> bits * cell0 list) -> nat -> (bits * 'a1) list -> cell0 res

val read_unary1 : bits -> (nat * bits) res

val read_lim : nat -> bits -> (n * bits) res

val load_label0 : nat -> nat -> bits -> (bits * bits) res

val load_label_size : nat -> bits -> (n * bits) res

val vdec_res :
  (bits -> cell0 list -> 'a1 option) -> bits -> cell0 list -> 'a1 res

val map_inner :
  (bits -> cell0 list -> 'a1 option) -> nat -> nat -> cell0 -> bits ->
  (bits * 'a1) list res

val decode :
  (bits -> cell0 list -> 'a1 option) -> nat -> cell0 -> (bits * 'a1) list res

val decode_e :
  (bits -> cell0 list -> 'a1 option) -> nat -> cell0 -> (bits * 'a1) list res

val replace_val :
  ('a1 -> 'a1 -> bool) -> 'a1 -> 'a2 -> ('a1 * 'a2) list -> ('a1 * 'a2) list
  option

val insert_at :
  ('a1 -> 'a1 -> bool) -> 'a1 -> 'a2 -> ('a1 * 'a2) list -> ('a1 * 'a2) list

val put :
  ('a1 -> 'a1 -> bool) -> ('a1 -> 'a1 -> bool) -> 'a1 -> 'a2 -> ('a1 * 'a2)
  list -> ('a1 * 'a2) list

val get : ('a1 -> 'a1 -> bool) -> 'a1 -> ('a1 * 'a2) list -> 'a2 option

val puts :
  ('a1 -> 'a1 -> bool) -> ('a1 -> 'a1 -> bool) -> ('a1 * 'a2) list ->
  ('a1 * 'a2) list -> ('a1 * 'a2) list

val flip_first : bits -> bits

val signed_ltb : bits -> bits -> bool

val int_key : nat -> z -> bits

val bytes_key : n list -> bits

val addr_key : (z * n list) -> bits

val bytes_of_bits0 : nat -> bits -> n list

val addr_unkey : bits -> z * n list

val venc_any : cell0 -> bits * cell0 list

val vdec_any : bits -> cell0 list -> cell0 option

type 'v hop =
| HMarshal
| HItems
| HGet of bits
| HPut of bits * 'v

type 'v hobs =
| OCell of cell0 res
| OItems of (bits * 'v) list
| OGet of 'v option
| ODone

val hmarshal :
  ('a1 -> bits * cell0 list) -> bool -> nat -> (bits * 'a1) list -> cell0 res

val hstep :
  ('a1 -> bits * cell0 list) -> (bits -> bits -> bool) -> bool -> nat ->
  (bits * 'a1) list -> 'a1 hop -> (bits * 'a1) list * 'a1 hobs

val hdecode :
  (bits -> cell0 list -> 'a1 option) -> bool -> nat -> (bits * 'a1) list ->
  cell0 -> (bits * 'a1) list * bool

val count_leafs : nat -> cell0 -> n res

val count_leafs_e : nat -> cell0 -> n res

val map_inner_aug :
  (bits -> cell0 list -> 'a2 option) -> (bits -> cell0 list ->
  (('a1 * bits) * cell0 list) option) -> nat -> nat -> cell0 -> bits ->
  (bits * 'a2) list res

val decode_aug_e :
  (bits -> cell0 list -> 'a2 option) -> (bits -> cell0 list ->
  (('a1 * bits) * cell0 list) option) -> nat -> cell0 -> (bits * 'a2) list res

val clone_subset : bits list -> (bits * 'a1) list -> (bits * 'a1) list

val find_in :
  (bits -> cell0 list -> 'a1 option) -> nat -> nat -> bits -> cell0 -> bits
  -> bits -> 'a1 res

val find_key : (bits -> cell0 list -> 'a1 option) -> cell0 -> bits -> 'a1 res

val balances_of : (bits * 'a1 option) list -> (bits * 'a1) list

val account_balances :
  bool -> (bits * 'a1 option) list -> (bits * 'a1 option) list ->
  (bits * 'a1) list

val venc_val : n -> bits * cell0 list

val vdec_val : bits -> cell0 list -> n option

val sx_cell : cell0 -> sx

val cell_sx : sx -> cell0 option

val sx_res0 : ('a1 -> sx) -> 'a1 res -> sx

val sx_items : (bits * n) list -> sx

val items_sx : sx list -> (bits * n) list option

val klt_of : bool -> bits -> bits -> bool

val enc_mode : bool -> nat -> (bits * n) list -> cell0 res

val dec_mode : bool -> nat -> cell0 -> (bits * n) list res

val run_encode : sx -> sx

val run_raw : sx -> sx

val run_decode : sx -> sx

val form_sx : sx -> form option

val apt_sx : sx -> n apt option

val run_cells : sx -> sx

val run_oplist :
  bool -> (bits * n) list -> sx list -> sx list * (bits * n) list

val run_ops0 : sx -> sx

val addr_items : sx list -> (bits * n) list option

val sx_addr_item : (bits * n) -> sx

val run_addr : sx -> sx

val obs_sx : n hobs -> sx

val hop_sx : sx -> (n * n hop) option

val run_hsteps :
  bool -> bool -> nat -> (bits * n) list -> (bits * n) list -> sx list -> sx
  list

val run_hist : sx -> sx

val exo_cell : n -> bits -> cell0

val exo_kind : cell0 -> n

val xcell_sx : sx -> cell0 option

val sx_xcell : cell0 -> sx

type dctx = (bits * cell0) list option

val find_lib : (bits * cell0) list -> bits -> cell0 option

val read32 : cell0 -> sx option

val vdec_ref : dctx -> bits -> cell0 list -> sx option

val vdec_cellref : dctx -> bits -> cell0 list -> sx option

val vdec_u32 : dctx -> bits -> cell0 list -> sx option

val libs_sx : sx list -> (bits * cell0) list option

val run_dec : sx -> sx

val run_count : sx -> sx

val run_lsize : sx -> sx

val xdec_u32 : bits -> cell0 list -> ((n * bits) * cell0 list) option

val run_aug : sx -> sx

val venc_cref : n -> bits * cell0 list

val vdec_cref : bits -> cell0 list -> n option

val cfg_marshal : (bits * n) list -> cell0 res

val cfg_decode : cell0 -> (bits * n) list res

val keys_sx : sx list -> bits list

val nth_state : n -> (bits * n) list list -> (bits * n) list

val run_cfg_steps : (bits * n) list list -> sx list -> sx list

val run_cfg : sx -> sx

val run_find : sx -> sx

val accounts_sx : sx list -> (bits * n option) list option

val run_bal : sx -> sx

type strategy =
| BestPing
| FirstWorking
| OtherStrategy

type conn = { c_alive : bool; c_seqno : n; c_rtt : z }

val two32 : n

val u32 : n -> n

val seq32 : conn -> n

val max_step : n -> conn -> n

val max_seqno : conn list -> n

val current_go : n -> conn -> bool

val usable_go : n -> conn -> bool

val find_first_working : n -> conn list -> nat -> nat option

val better : nat -> conn -> (nat * z) option -> (nat * z) option

val find_best_ping :
  n -> conn list -> nat -> (nat * z) option -> (nat * z) option

val update_best2 :
  strategy -> conn list -> conn list -> nat option -> nat option

val update_best : strategy -> conn list -> nat option -> nat option

val insert_id : nat -> nat list -> nat list

val sort_ids : nat list -> nat list

val add_connection : nat list -> nat -> nat list

val add_all : nat list -> nat list

val best_after_add : nat list -> nat option

type msg = nat * n

type agent =
| ARun
| AW of nat

type wres =
| ROk
| RTimeout
| RCancel

type wait_pc =
| WNew
| WSubW
| WSubL
| WWait
| WUnsub of wres
| WUnsubW of wres
| WDone of wres
| WPanicked

type run_pc =
| RIdle
| RWantR of msg
| RInner of msg
| RNotify of msg * bool * nat list
| RWantW
| RUpd

val upd_cap : nat

type state = { head : (nat -> n); pend : msg list; updq : msg list;
               best : nat option; readers : nat; writer : agent option;
               wreq : agent option; wl : (n * nat) list; next_id : n;
               rpc : run_pc; wpc : (nat -> wait_pc); wid : (nat -> n);
               wch : (nat -> msg option); wgot : (nat -> msg option);
               woff : (nat -> msg list); log : msg list }

val set_head : state -> (nat -> n) -> state

val set_pend : state -> msg list -> state

val set_updq : state -> msg list -> state

val set_best : state -> nat option -> state

val set_readers : state -> nat -> state

val set_writer : state -> agent option -> state

val set_wreq : state -> agent option -> state

val set_wl : state -> (n * nat) list -> state

val set_next_id : state -> n -> state

val set_rpc : state -> run_pc -> state

val set_wpc : state -> (nat -> wait_pc) -> state

val set_wid : state -> (nat -> n) -> state

val set_wch : state -> (nat -> msg option) -> state

val set_wgot : state -> (nat -> msg option) -> state

val set_woff : state -> (nat -> msg list) -> state

val set_log : state -> msg list -> state

val fupd : (nat -> 'a1) -> nat -> 'a1 -> nat -> 'a1

val remove_nth : nat -> 'a1 list -> 'a1 list

type label =
| LSetHead of nat * n
| LPublish of nat
| LTake
| LRLock of nat list
| LRInner of nat list
| LSend
| LRUnlock
| LTick
| LUpdLock
| LUpdDone of (bool * z) list * n list
| LSubWant of nat
| LSubLock of nat
| LSubBody of nat
| LRecv of nat
| LLeave of nat * wres
| LUnsubWant of nat
| LUnsub of nat

val lock_free : state -> bool

val no_writer : state -> bool

val is_wreq : state -> agent -> bool

val is_writer : state -> agent -> bool

val mem : nat -> nat list -> bool

val is_order : nat list -> state -> bool

val same_best : state -> nat -> bool

val newer : msg option -> msg -> msg

val mk_conns : nat -> (nat -> n) -> (bool * z) list -> conn list

val coalesce : msg -> msg list -> msg

val first_read : (nat -> n) -> n list -> nat -> n

val step0 :
  strategy -> bool -> bool -> nat -> (nat -> n) -> state -> label -> state
  option

val init_state : (nat -> n) -> nat option -> state

val strat_of : n -> strategy

val conn_of : sx -> conn option

val conn1_of : sx -> conn option

val conns_of : sx list -> conn list option

val conns1_of : sx list -> conn list option

val prev_of : sx -> nat option option

val out_choice : nat option -> sx

val run_ub : sx -> sx

val grid_seqnos : n list

val grid_rtts : z list

val grid_conns : conn list

val prevs : nat -> nat option list

val run_ubx : sx -> sx

type mop =
| MLabel of label
| MPublish of msg
| MRLock
| MSendAll

type agent_id =
| GConn of nat
| GRun
| GWaiter of nat

type okind =
| KDone
| KSub of nat
| KBest

type pend_op = { p_op : nat; p_agent : agent_id; p_script : mop list;
                 p_kind : okind }

val msg_eqb : msg -> msg -> bool

val index_of : msg -> msg list -> nat -> nat option

val send_all : strategy -> nat -> (nat -> n) -> nat -> state -> state * bool

val exec_mop : strategy -> nat -> (nat -> n) -> state -> mop -> state * bool

val advance :
  strategy -> nat -> (nat -> n) -> state -> mop list -> state * mop list

val finish : okind -> state -> sx

val settle_pass :
  strategy -> nat -> (nat -> n) -> state -> pend_op list -> ((state * pend_op
  list) * sx list) * bool

val settle :
  strategy -> nat -> (nat -> n) -> nat -> state -> pend_op list ->
  (state * pend_op list) * sx list

val agent_eqb : agent_id -> agent_id -> bool

val busy : pend_op list -> agent_id -> bool

val wants_lock : pend_op -> bool

val launch :
  strategy -> nat -> (nat -> n) -> nat -> agent_id -> mop list -> okind -> sx
  -> state -> pend_op list -> (sx * state) * pend_op list

val small : n -> nat

val set_nth_obs : nat -> (bool * z) -> (bool * z) list -> (bool * z) list

val drain_loop :
  strategy -> nat -> (nat -> n) -> nat -> state -> pend_op list -> sx list ->
  (state * pend_op list) * sx list

val do_op :
  strategy -> nat -> (nat -> n) -> nat -> nat -> sx -> (bool * z) list ->
  state -> pend_op list -> (((sx * (bool * z) list) * state) * pend_op
  list) * sx list

val op_index : sx -> nat

val ins_by_index : sx -> sx list -> sx list

val sort_by_index : sx list -> sx list

val run_ops1 :
  strategy -> nat -> (nat -> n) -> nat -> nat -> sx list -> (bool * z) list
  -> state -> pend_op list -> sx list

val try_step : strategy -> nat -> (nat -> n) -> state -> label -> state

val steps : strategy -> nat -> (nat -> n) -> state -> label list -> state

val deliver :
  strategy -> nat -> (nat -> n) -> nat -> state -> nat -> n -> state

val subscribe_steps : nat -> label list

val return_steps : nat -> wres -> label list

val verdict : state -> nat -> sx

val wait_scenario :
  strategy -> nat -> (nat -> n) -> state -> (nat * n) list -> wres -> sx

val handle_one : strategy -> nat -> (nat -> n) -> nat -> state -> state

val wait_batch_scenario :
  strategy -> nat -> (nat -> n) -> state -> (nat * n) list -> wres -> sx

val wait2_scenario :
  strategy -> nat -> (nat -> n) -> state -> (nat * n) list -> sx

val nth_tgt : sx list -> nat -> n

val run_walk : sx -> sx

val heads_of : sx list -> (nat * n) list

val run_wait2 : sx -> sx

val run_wait : sx -> sx

val ids_of : sx list -> nat list

val index_in : nat -> nat list -> nat -> nat option

val run_add : sx -> sx

val ev_step :
  strategy -> nat -> (nat -> n) -> (state * (bool * z) list) -> sx ->
  state * (bool * z) list

val entry_result :
  strategy -> nat -> (nat -> n) -> bool -> bool -> sx list -> sx list -> sx

val run_entry : sx -> sx

val run_repro : sx -> sx

type bytes0 = n list

val pEdKeyLen : n

val beqb : bytes0 -> bytes0 -> bool

val bytes_of_string : string -> bytes0

val blen : bytes0 -> z

val byte_at : z -> z -> n

val be32 : z -> bytes0

val le0 : z -> bytes0

val le64 : z -> bytes0

val be64 : z -> bytes0

val be_val : bytes0 -> z

val to_int64 : z -> z

val be_min_fuel : nat -> n -> bytes0 -> bytes0

val be_min : n -> bytes0

val nib : n -> n option

val hex_decode : bytes0 -> bytes0 option

val hexdigit : n -> n

val hex_encode : bytes0 -> bytes0

val digit : n -> z option

val digits_val : z -> bytes0 -> z option

val parse_int32 : bytes0 -> z option

val split_colon : bytes0 -> bytes0 -> bytes0 list

type proof = { p_address : bytes0; p_ts : z; p_domain : bytes0;
               p_signature : bytes0; p_payload : bytes0; p_state_init : 
               bytes0 }

type parsed0 = { m_wc : z; m_addr : bytes0; m_ts : z; m_domain : bytes0;
                 m_sig : bytes0; m_payload : bytes0 }

val tonProofPrefix : bytes0

val tonConnectPrefix : bytes0

val defaultLifeTimeProof : z

val defaultLifeTimePayload : z

val lifetime_or_default : z -> z -> z

val convert : (bytes0 -> bytes0 option) -> proof -> parsed0 res

val index_colon_go : bytes0 -> bytes0 -> (bytes0 * bytes0) option

val index_colon : bytes0 -> (bytes0 * bytes0) option

val pad_hex64 : bytes0 -> bytes0

val parse_account_id : bytes0 -> (z * bytes0) res

val message_layout : parsed0 -> bytes0

val create_message : (bytes0 -> bytes0) -> parsed0 -> bytes0

val unixToInternal : z

val wrap64 : z -> z

val clamp64 : z -> z

val giga : z

val since : z -> z -> z

val expired : z -> z -> z -> bool

val generate_payload :
  (bytes0 -> bytes0 -> bytes0) -> bytes0 -> bytes0 -> z -> z -> bytes0

val check_payload :
  (bytes0 -> bytes0 -> bytes0) -> bytes0 -> z -> z -> bytes0 -> bool res

val static_domain : bytes0 -> bytes0 -> bool res

type stk =
| StTiny of z
| StInt of z
| StOther

type exec_result =
| ExErr
| ExRet of n * stk list

val key_of_int : z -> bytes0 option

val get_wallet_pubkey : exec_result -> bytes0 option

type cell1 =
| Cell1 of n * bool list * cell1 list * bytes0 option

val c_ty : cell1 -> n

val c_bits : cell1 -> bool list

val c_refs : cell1 -> cell1 list

val c_hash : cell1 -> bytes0 option

val tyPruned : n

val tyLibrary : n

val empty_cell_hash : bytes0

val zero_cell : cell1

type rd = bool list * cell1 list

val rd_bit : rd -> (bool * rd) res

val rd_skip : nat -> rd -> rd res

val rd_ref : rd -> (cell1 * rd) res

val rd_maybe_ref : rd -> (cell1 option * rd) res

val parse_state_init :
  (cell1 -> bool) -> cell1 -> (cell1 option * cell1 option) res

type layout = { l_off : nat; l_dict : bool }

val bytes_of_bits1 : nat -> bool list -> bytes0

val data_key : (cell1 -> bool) -> layout -> cell1 -> bytes0 res

type known_table = (bytes0 * layout option) list

val lookup : bytes0 -> known_table -> layout option option

val parse_state_init_key :
  (bytes0 -> cell1 list res) -> (cell1 -> bool) -> (cell1 -> bool) ->
  known_table -> bytes0 -> bytes0 res

val compare_state_init :
  (bytes0 -> cell1 list res) -> bytes0 -> bytes0 -> bool res

val ed_verify :
  (bytes0 -> bytes0 -> bytes0 -> bool) -> bytes0 -> bytes0 -> bytes0 -> bool
  res

type key_source =
| FromGetMethod
| FromStateInit

val wallet_key :
  (bytes0 -> cell1 list res) -> (cell1 -> bool) -> (cell1 -> bool) ->
  known_table -> ((z * bytes0) -> exec_result) -> (z * bytes0) -> bytes0 ->
  (bytes0 * key_source) res

val check_proof_src :
  (bytes0 -> bytes0) -> (bytes0 -> bytes0 -> bytes0 -> bool) -> (bytes0 ->
  bytes0 option) -> (bytes0 -> cell1 list res) -> (cell1 -> bool) -> (cell1
  -> bool) -> known_table -> ((z * bytes0) -> exec_result) -> (bytes0 -> bool
  res) -> (bytes0 -> bool res) -> z -> z -> proof -> (bytes0 * key_source) res

val check_proof :
  (bytes0 -> bytes0) -> (bytes0 -> bytes0 -> bytes0 -> bool) -> (bytes0 ->
  bytes0 option) -> (bytes0 -> cell1 list res) -> (cell1 -> bool) -> (cell1
  -> bool) -> known_table -> ((z * bytes0) -> exec_result) -> (bytes0 -> bool
  res) -> (bytes0 -> bool res) -> z -> z -> proof -> bytes0 res

val run_history :
  ('a1 -> 'a2 -> 'a1 * 'a3) -> 'a1 -> 'a2 list -> 'a1 * 'a3 list

val dec_digits : nat -> z -> bytes0 -> bytes0

val print_int : z -> bytes0

val to_raw : z -> bytes0 -> bytes0

val version_layout : n -> layout option

val known_of : (n * bytes0) list -> known_table

val gen_known_hashes : (n * n list) list

val known_wallets : known_table

val out_res : ('a1 -> sx) -> 'a1 res -> sx

val opt_bytes : sx -> bytes0 option

val table_lookup : bytes0 -> sx list -> bytes0 -> bytes0

val zeros32 : bytes0

val hmac_of : sx list -> bytes0 -> bytes0 -> bytes0

val verify_of : sx list -> bytes0 -> bytes0 -> bytes0 -> bool

val cell_of_sx : nat -> sx -> cell1

val boc_of : sx -> bytes0 -> cell1 list res

val stk_of : sx -> stk

val exec_of : sx -> exec_result

val bool_of : sx -> bool

val run_msg : sx -> sx

val sx_acc : (z * bytes0) -> sx

val run_conv : sx -> sx

val run_payload : sx -> sx

val run_pubkey : sx -> sx

val run_stateinit : sx -> sx

val proof_of_sx : sx -> proof option

val is_suffix_rev : bytes0 -> bytes0 -> bool

val cd_of : sx -> bytes0 -> bool res

val run_check : sx -> sx

val run_hist0 : sx -> sx

val nominal_now : z

val run_genpayload : sx -> sx

val run_expire : sx -> sx

val run_clock : sx -> sx

type result =
| ROk0 of n
| RTimeout0
| RSendErr

type call_pc =
| CInit
| CReg
| CPicked of nat
| CSent
| CLeaving of result
| CReturned of result

type packet =
| PAnswer of n * n
| PMalformed of n
| PPong
| PJunk

type state0 = { pc : (nat -> call_pc); reg : (n * nat) list;
                ch0 : (nat -> n option); next : nat; status : (nat -> bool);
                broken : (nat -> bool); rq : (nat -> nat);
                loops : (nat -> nat); wire : (nat -> packet list);
                emitted : (n * n) list; delivered : (nat * n) list;
                since0 : (nat -> nat); pinger : (nat -> bool);
                psince : (nat -> nat) }

val set_pc : state0 -> (nat -> call_pc) -> state0

val set_reg : state0 -> (n * nat) list -> state0

val set_ch : state0 -> (nat -> n option) -> state0

val set_next : state0 -> nat -> state0

val set_status : state0 -> (nat -> bool) -> state0

val set_broken : state0 -> (nat -> bool) -> state0

val set_rq : state0 -> (nat -> nat) -> state0

val set_loops : state0 -> (nat -> nat) -> state0

val set_wire : state0 -> (nat -> packet list) -> state0

val set_emitted : state0 -> (n * n) list -> state0

val set_delivered : state0 -> (nat * n) list -> state0

val set_since : state0 -> (nat -> nat) -> state0

val set_pinger : state0 -> (nat -> bool) -> state0

val set_psince : state0 -> (nat -> nat) -> state0

val ping_ticks : nat

val silence_ticks : nat

val cupd : (nat -> 'a1) -> nat -> 'a1 -> nat -> 'a1

val lookup0 : n -> (n * nat) list -> nat option

val remove_id : n -> (n * nat) list -> (n * nat) list

type label0 =
| LRegister of nat
| LPick of nat
| LSendOk of nat
| LSendFail of nat
| LEmit of nat * packet
| LDeliver of nat
| LRecv0 of nat
| LTimeout of nat
| LUnregister of nat
| LDrop of nat
| LPingOk of nat
| LPingSkip of nat
| LPingFail of nat
| LTick0 of nat
| LSilence of nat
| LReconnectEnter of nat
| LReconnectFail of nat
| LReconnectDone of nat

val step1 : nat -> (nat -> n) -> state0 -> label0 -> state0 option

val exec : nat -> (nat -> n) -> state0 -> label0 list -> state0 option

val init_state0 : state0

val init_state_without_pinger : state0

val effective_deadline : nat -> nat option -> nat

val small0 : n -> nat

val qid : nat -> n

val unknown_id : n -> n

val emission : string -> sx list -> (nat * packet) option

val out_result : call_pc -> sx

val finish_call : nat -> state0 -> nat -> state0 option

val finish_all : nat -> nat -> state0 -> nat -> state0 option

val ctx_of : nat -> (nat * n) list -> n option

val expiry : n -> string

val out_result_ctx : (nat * n) list -> nat -> call_pc -> sx

val start_labels : nat -> label0 list

val interp :
  nat -> nat -> sx list -> state0 -> sx list -> (nat * n) list ->
  ((state0 * sx list) * (nat * n) list) option

val run_script : sx -> sx

type obs =
| OOk of n
| OExpired
| OErr

val parse_obs : sx -> obs option

val parse_all : (sx -> 'a1 option) -> sx list -> 'a1 list option

val parse_emission : sx -> (nat * packet) option

val safe_head : state0 -> obs list -> packet -> bool

val find_safe : state0 -> obs list -> nat list -> nat option

val wires_empty : state0 -> nat list -> bool

val schedule : nat -> nat -> state0 -> obs list -> state0 option

val start_calls : nat -> label0 list

val obs_sx0 : obs -> sx

val sx_eqb_outcome : sx -> sx -> bool

val all2 : ('a1 -> 'a1 -> bool) -> 'a1 list -> 'a1 list -> bool

val run_race : sx -> sx

val is_picked : call_pc -> nat -> bool

val picked_conn : call_pc -> nat option

val tick1 : nat -> state0 -> nat -> state0 option

val ticks : nat -> state0 -> nat -> nat -> state0 option

val event : nat -> state0 -> sx -> state0 option

val events : nat -> state0 -> sx list -> nat -> sx

val run_seq0 : sx -> sx

val all_healthy : nat -> state0 -> bool

val recover :
  nat -> nat -> state0 -> nat -> nat -> ((state0 * nat) * nat) option

val probe1 : nat -> state0 -> nat -> nat list -> ((state0 * sx) * nat) option

val until_fail :
  nat -> nat -> state0 -> nat -> nat -> nat list -> (state0 * nat) option

val auth_acts :
  nat -> sx list -> state0 -> nat -> nat -> sx list -> nat list -> (sx
  list * nat) option

val run_auth : sx -> sx

type ctree =
| CT of bits * ctree list

val ct_bits : ctree -> bits

val ct_refs : ctree -> ctree list

type bld = { bb : bits; br : ctree list }

val empty_bld : bld

val put_bits : bits -> bld -> bld res

val put_ref : ctree -> bld -> bld res

val finish0 : bld -> ctree

type slc = { sb : bits; sr : ctree list }

val open0 : ctree -> slc

val take_bits : nat -> slc -> (bits * slc) res

val take_ref : slc -> (ctree * slc) res

type ty =
| TUint of nat
| TInt of nat
| TBigUint of nat
| TBigInt of nat
| TBool
| TBits of nat
| TVarUInt of nat
| TUnary
| TMagic of nat * n
| TMaybe of ty
| TEither of ty * ty
| TEitherRef of ty
| TRef of ty
| TMaybeRef of ty
| TStruct of ty list
| TSum of ((nat * n) * ty) list
| TAny
| TCellRef
| TAddr
| TNamed of nat

type addrv =
| ANone
| AExt of bits
| AStd of (n * n) option * z * bits
| AVar of (n * n) option * z * bits

type value =
| VAddr of addrv
| VN of n
| VZ of z
| VBool of bool
| VBits of bits
| VUnit
| VMaybe of value option
| VEither of bool * value
| VStruct of value list
| VSum of nat * value
| VAny of bits * ctree list
| VCell of ctree

val eTlb : n

val byte_len0 : n -> nat

val enc_int_bits : nat -> z -> bits

val dec_int_bits : bits -> z

val unary_go : ctree list -> nat -> bits -> n -> (value * slc) res

val any_bits : (n * n) option -> bits

val addr_bits : addrv -> bits

val rd0 : nat -> bits -> (bits * bits) res

val any_parse : bits -> ((n * n) option * bits) res

val addr_parse : bits -> (addrv * bits) res

val any_ok : (n * n) option -> bool

val zfits : nat -> z -> bool

val addr_ok : addrv -> bool

val enc : ty list -> nat -> ty -> value -> bld -> bld res

val dec : ty list -> nat -> ty -> slc -> (value * slc) res

val ty_depth : ty -> nat

val fuel_of : ty list -> ty -> nat

val encode0 : ty list -> ty -> value -> ctree res

val put_list : ty list -> nat -> ty -> value list -> bld -> bld res

val enc_stack : ty list -> nat -> ty -> value list -> bld -> bld res

val get_cell : ty list -> nat -> ty -> ctree -> n -> value list res

val dec_stack : ty list -> nat -> ty -> slc -> value list res

type xty =
| XBase of ty
| XSnake
| XLenBytes of nat
| XMaybe of xty
| XEither of xty * xty
| XEitherRef of xty
| XRef of xty
| XMaybeRef of xty
| XStruct of xty list
| XSum of ((nat * n) * xty) list

val snake_chain : nat -> bits -> ctree

val snake_read : ctree -> bits

val snake_spec : nat -> bits -> bits * ctree list

val put_snake : bits -> bld -> bld res

val get_snake : slc -> (value * slc) res

val xbase_fuel : ty -> nat

val xenc : nat -> xty -> value -> bld -> bld res

val xdec : nat -> xty -> slc -> (value * slc) res

val is_char : ascii -> ascii -> bool

val split_sep : string -> (ascii * string) option

val digit0 : n -> ascii -> n option

val digits : n -> string -> n -> n option

val parse_tag : string -> (nat * n) option

val has_prefix : string -> string -> bool

val contains : string -> string -> bool

val drop : nat -> string -> string

val trim_left : string -> string

type field_tag = { ft_ref : bool; ft_maybe : bool; ft_maybe_ref : bool }

val parse_field_tag : string -> field_tag option

val small1 : n -> nat option

val omap : ('a1 -> 'a2) -> 'a1 option -> 'a2 option

val obind : 'a1 option -> ('a1 -> 'a2 option) -> 'a2 option

val ty_of : sx -> ty option

val cell_of : sx -> ctree option

val cell_sx0 : ctree -> sx

val any_of : sx -> (n * n) option option

val addr_of : sx list -> addrv option

val val_of : sx -> value option

val any_sx : (n * n) option -> sx

val val_sx : value -> sx

val fuel : nat

val bits_eqb1 : bits -> bits -> bool

val cell_eqb_sx : ctree -> ctree -> bool

val run_rt_base : sx -> sx

val string_of_bytes : n list -> string

val run_tag : n list -> sx

val run_dec_cell : sx -> sx

val run_cur : sx -> sx

val xty_of : sx -> xty option

val run_xrt : sx -> sx

val run_rt : sx -> sx

val run_stack : sx -> sx

val run_dec0 : sx -> sx

type schema =
| SUint of nat
| SInt of nat
| SBits0 of nat
| SLe of n
| SVar of nat
| SBool
| SUnary
| STag of nat * n
| SMaybe of schema
| SEither of schema * schema
| SRef of schema
| SSeq of schema list
| SAlt of ((nat * n) * schema) list
| SAny
| SCell
| SDictE of nat
| SAddr

val numeral : nat -> n -> bits

val twos : nat -> z -> bits

val min_bytes : n -> nat

val le_width : n -> nat

val s_anycast : (n * n) option -> bits

val s_addr : addrv -> bits

val spec_encode : schema -> value -> (bits * ctree list) option

val is_any : ty -> bool

val refines : nat -> schema -> ty -> bool

val s_unit : schema

val s_MsgAddress : schema

val s_Grams : schema

val s_ExtraCurrencyCollection : schema

val s_CurrencyCollection : schema

val s_CommonMsgInfo : schema

val s_TickTock : schema

val s_SimpleLib : schema

val s_StateInit : schema

val s_Message : schema

val s_AccountStatus : schema

val s_AccStatusChange : schema

val s_ComputeSkipReason : schema

val s_HashUpdate : schema

val s_StorageUsedShort : schema

val s_TrStoragePhase : schema

val s_TrCreditPhase : schema

val s_TrComputePhase : schema

val s_TrActionPhase : schema

val s_TrBouncePhase : schema

val s_SplitMergeInfo : schema

val s_TransactionDescr : schema

val s_Transaction : schema

val s_SignedMsgBody : schema

val s_IntermediateAddress : schema

val s_MsgMetadata : schema

val s_MsgEnvelope : schema

val s_InMsg : schema

val s_OutMsg : schema

val s_EnqueuedMsg : schema

val s_AccountState : schema

val s_AccountStorage : schema

val s_StorageExtraInfo : schema

val s_StorageUsed : schema

val s_StorageInfo : schema

val s_ExistedAccount : schema

val s_Account : schema

val s_ShardAccount : schema

val s_DepthBalanceInfo : schema

val s_ExtBlkRef : schema

val s_BlkMasterInfo : schema

val s_ShardIdent : schema

val s_BlockIdExt : schema

val s_GlobalVersion : schema

val s_ImportFees : schema

val s_ShardFeeCreated : schema

val s_KeyExtBlkRef : schema

val s_KeyMaxLt : schema

val s_ValidatorInfo : schema

val s_ValidatorBaseInfo : schema

val s_Counters : schema

val s_CreatorStats : schema

val s_ProcessedUpto : schema

val s_IhrPendingSince : schema

val s_SigPubKey : schema

val s_CryptoSignatureSimple : schema

val s_ValidatorDescr : schema

val s_ValidatorTempKey : schema

val s_Certificate : schema

val s_StoragePrices : schema

val s_MsgForwardPrices : schema

val s_ParamLimits : schema

val s_BlockLimits : schema

val s_BlockCreateFees : schema

val s_ComplaintPricing : schema

val s_WorkchainFormat1 : schema

val s_WorkchainFormat0 : schema

val s_WcSplitMergeTimings : schema

val s_PrecompiledSmc : schema

val s_CatchainConfig : schema

val s_ConfigParamAddr : schema

val s_BurningConfig : schema

val s_ConfigParam5 : schema

val s_ConfigParam6 : schema

val s_ConfigParam7 : schema

val s_ConfigParam8 : schema

val s_ConfigProposalSetup : schema

val s_ConfigVotingSetup : schema

val s_ConfigParam11 : schema

val s_ConfigProposal : schema

val s_ConfigParam13 : schema

val s_ConfigParam14 : schema

val s_ConfigParam15 : schema

val s_ConfigParam16 : schema

val s_ConfigParam17 : schema

val s_ConfigParamBlockLimits : schema

val s_ConfigParamFwdPrices : schema

val s_ConfigParam28 : schema

val s_cc7 : schema list

val s_ConsensusConfig : schema

val s_ConfigParam29 : schema

val s_MisbehaviourPunishmentConfig : schema

val s_ConfigParam40 : schema

val s_SizeLimitsConfig : schema

val s_ConfigParam43 : schema

val s_JettonBridgePrices : schema

val s_OracleBridgeParams : schema

val s_PrecompiledContractsConfig : schema

val s_SuspendedAddressList : schema

val s_AccountDispatchQueue : schema

val s_BlockInfoPart : schema

val s_WalletDataV1V2 : schema

val s_WalletDataV3 : schema

val s_WalletDataV4 : schema

val s_WalletDataHighloadV2 : schema

val s_WalletDataV5R1 : schema

val s_AddressWithWorkchain : schema

val ext_in_value : z -> bits -> n -> value option -> ctree -> value

val schema_table : (string * schema) list

val lookup1 : string -> (string * schema) list -> schema option

val prim_schema : ty -> schema option

val ns_eqb : n list -> n list -> bool

val sx_eqb : sx -> sx -> bool

val decodes_back : ty -> value -> ctree -> bool

val same_as_schema : schema -> value -> ctree -> bool

val run_spec : sx -> sx

val run_cur4 : sx -> sx

val run_extmsg : sx -> sx

val take : n -> 'a1 list -> ('a1 list * 'a1 list) * n

val slice : nat -> nat -> 'a1 list -> 'a1 list

val bytes_eqb0 : n list -> n list -> bool

val len0 : 'a1 list -> n

val le1 : n -> n list

val of_le32 : n list -> n

val pub_ed25519_tag : n list

val handshake_len : nat

val frame_min : n

val frame_max : n

val keystream : ('a1 -> n * 'a1) -> 'a1 -> nat -> n list * 'a1

val xor_bytes : n list -> n list -> n list

val ctr : ('a1 -> n * 'a1) -> 'a1 -> n list -> n list * 'a1

val key_id : (n list -> n list) -> n list -> n list

val cipherA : (n list -> n list -> 'a1) -> n list -> 'a1

val cipherB : (n list -> n list -> 'a1) -> n list -> 'a1

type 'cstate server = { sv_params : n list; sv_tx : 'cstate; sv_rx : 'cstate }

val server_accept :
  (n list -> n list) -> ('a1 -> n * 'a1) -> (n list -> n list -> 'a1) -> (n
  list -> n list -> n list) -> n list -> n list -> n list -> 'a1 server option

val frame : (n list -> n list) -> n list -> n list -> n list

val server_send :
  (n list -> n list) -> ('a1 -> n * 'a1) -> 'a1 server -> n list -> n list ->
  n list * 'a1 server

val server_send_all :
  (n list -> n list) -> ('a1 -> n * 'a1) -> 'a1 server -> (n list * n list)
  list -> n list * 'a1 server

type split_end =
| SDone
| SIncomplete
| SBad
| SFuel

type split1 =
| Frame of n list * n list * n list
| Stop of split_end

val split_frame : (n list -> n list) -> n list -> split1

val split_frames :
  (n list -> n list) -> nat -> n list -> (n list * n list) list * split_end

val server_recv :
  (n list -> n list) -> ('a1 -> n * 'a1) -> 'a1 server -> n list -> ((n
  list * n list) list * split_end) * 'a1 server

val fit : nat -> n list -> n list

val min_packet_len : n

val max_packet_len : n

type reader = n list list

type rd_res =
| RdOk of n list * reader
| RdEof
| RdUnexp

val read_full : n -> reader -> bool -> rd_res

val xor_stream : ('a1 -> n * 'a1) -> 'a1 -> n list -> n list * 'a1

val packet_hash : (n list -> n list) -> n list -> n list -> n list

val packet_size : n list -> n list

val marshal : (n list -> n list) -> n list -> n list -> n list

type perr =
| PEof
| PUnexp
| PLen
| PSum
| PFuel

type 'cstate pres =
| POk of n list * n list * reader * 'cstate
| PErr of perr * reader

val parse_packet :
  (n list -> n list) -> ('a1 -> n * 'a1) -> reader -> 'a1 -> 'a1 pres

val send_packet :
  (n list -> n list) -> ('a1 -> n * 'a1) -> 'a1 -> n list -> n list -> n
  list * 'a1

val send_all0 :
  (n list -> n list) -> ('a1 -> n * 'a1) -> 'a1 -> (n list * n list) list ->
  n list * 'a1

val recv_loop :
  (n list -> n list) -> ('a1 -> n * 'a1) -> nat -> reader -> 'a1 -> n list
  list * perr

val reader_len : reader -> nat

val recv_all :
  (n list -> n list) -> ('a1 -> n * 'a1) -> reader -> 'a1 -> n list
  list * perr

val rx_key : n list -> n list

val tx_key : n list -> n list

val rx_nonce : n list -> n list

val tx_nonce : n list -> n list

val address_hash : (n list -> n list) -> n list -> n list

val client_tx0 : (n list -> n list -> 'a1) -> n list -> 'a1

val client_rx0 : (n list -> n list -> 'a1) -> n list -> 'a1

val hs_key : n list -> n list -> n list

val hs_nonce : n list -> n list -> n list

val handshake_bytes :
  (n list -> n list) -> ('a1 -> n * 'a1) -> (n list -> n list -> 'a1) -> n
  list -> n list -> n list -> n list -> n list

type client_run = { cr_handshake : n list; cr_sent : n list;
                    cr_connected : bool; cr_delivered : n list list;
                    cr_end : perr }

val client_session :
  (n list -> n list) -> ('a1 -> n * 'a1) -> (n list -> n list -> 'a1) -> n
  list -> n list -> n list -> n list -> (n list * n list) list -> reader ->
  client_run

type msg0 = n list * n list

type phase =
| PLocked of msg0
| PUnlocked of msg0
| PEnc of n list
| PWrote

type action =
| ALock
| AEncrypt
| AWrite
| AUnlock

type 'cstate csys = { cs_queues : msg0 list list;
                      cs_active : (nat * phase) list; cs_owner : nat option;
                      cs_tx : 'cstate; cs_wire : n list;
                      cs_log : (nat * msg0) list }

val alookup : nat -> (nat * phase) list -> phase option

val aremove : nat -> (nat * phase) list -> (nat * phase) list

val aset : nat -> phase -> (nat * phase) list -> (nat * phase) list

val qpop : nat -> msg0 list list -> (msg0 * msg0 list list) option

val cstep :
  (n list -> n list) -> ('a1 -> n * 'a1) -> bool -> nat -> action -> 'a1 csys
  -> 'a1 csys option

val crun :
  (n list -> n list) -> ('a1 -> n * 'a1) -> bool -> (nat * action) list ->
  'a1 csys -> (bool * n) list -> 'a1 csys * (bool * n) list

val cinit : 'a1 -> msg0 list list -> 'a1 csys

val magic_tcp_pong : n

val magic_tcp_auth_nonce : n

val reconnect_timeout_ms : n

val magic_type : n list -> n

val is_control : n list -> bool

type arrival =
| APacket of n * n list
| AClosed of n

type session_end =
| SRunning
| SClosed
| STimeout

val reader_run : bool -> n -> arrival list -> n list list * session_end

val conn_run : bool -> bool -> nat -> arrival list list -> (nat * n list) list

val app_received : (nat * n list) list -> n list list

type ks = n list

val ks_next : ks -> n * ks

val ks_init : ((n list * n list) * n list) list -> n list -> n list -> ks

val segs_of : sx -> reader option

val msgs_of : sx -> (n list * n list) list option

val tab_of : sx -> ((n list * n list) * n list) list option

val perr_sx : perr -> sx

val total_len : reader -> n

val run_marshal : sx -> sx

val run_parse0 : sx -> sx

val run_recv : sx -> sx

val cut : sx list -> n list -> reader

val run_session : sx -> sx

val sched_of : sx -> (nat * action) list option

val queues_of : sx -> (n list * n list) list list option

val run_csend : sx -> sx

val group_by_sender : nat -> (n list * n list) list -> sx list

val run_conc0 : sx -> sx

val run_stress : sx -> sx

val run_multi0 : sx -> sx

val run_magic : sx -> sx

val arrivals_of : string -> sx list -> arrival list

val run_conn : sx -> sx

val imm_of : (bytes -> bytes) -> cell -> imm res

val lookup_trees : cell res list -> nat -> nat list -> cell list res

val trees_of : nat -> node list -> cell res list

val eTlbMsg : n

val cell_special0 : cell -> bool

val cell_ty : cell -> n

val cell_bits0 : cell -> bits

val cell_refs0 : cell -> cell list

val is_library_cell : cell -> bool

val is_pruned_cell : cell -> bool

type slc0 = { sb0 : bits; sr0 : cell list }

val open1 : cell -> slc0

val rd1 : nat -> slc0 -> (bits * slc0) res

val rd_bit0 : slc0 -> (bool * slc0) res

val rd_uint : nat -> slc0 -> (n * slc0) res

val next_ref0 : slc0 -> (cell * slc0) res

type oracle = { dict_ok : (nat -> cell -> bool); descr_ok : (cell -> bool) }

type addr =
| ANone0
| AExt0 of bits
| AStd0 of (n * n) option * z * bits
| AVar0 of (n * n) option * n * z * bits

val dec_int : bits -> z

val enc_int : nat -> z -> bits

val parse_anycast : slc0 -> ((n * n) option * slc0) res

val parse_addr : slc0 -> (addr * slc0) res

val parse_grams : slc0 -> (n * slc0) res

val parse_var16 : slc0 -> (n * slc0) res

val parse_dict : oracle -> nat -> slc0 -> (cell option * slc0) res

type info =
| IInt of bool * bool * bool * addr * addr * n * cell option * n * n * n * n
| IExtIn of addr * addr * n
| IExtOut of addr * addr * n * n

val parse_info : oracle -> slc0 -> (info * slc0) res

type state_init = { si_split : n option; si_special : (bool * bool) option;
                    si_code : cell option; si_data : cell option;
                    si_lib : cell option }

val parse_maybe_cell : slc0 -> (cell option * slc0) res

val parse_state_init0 : oracle -> slc0 -> (state_init * slc0) res

type msg1 = { m_info : info; m_init : (bool * state_init) option;
              m_body_ref : bool; m_body : (bits * cell list); m_hash : 
              bytes }

val parse_message :
  oracle -> slc0 -> (((info * (bool * state_init)
  option) * bool) * (bits * cell list)) res

val decode_message_body : oracle -> bytes res -> cell -> msg1 res

val decode_message_gen : oracle -> bytes res -> cell -> msg1 res

type wst = bits * bool

val wr : bits -> wst -> wst

val wfail : wst -> wst

val ignore_err : wst -> wst

val marshal_anycast : (n * n) option -> wst -> wst

val marshal_addr : addr -> wst -> wst

val clear_std_anycast : addr -> addr

val zero_hash : bytes

val hash_cell : (bytes -> bytes) -> cell -> bytes res

val norm_info_bits : addr -> bits

val norm_cell : addr -> (bits * cell list) -> cell res

val msg_hash : (bytes -> bytes) -> bool -> msg1 -> bytes res

val decode_message : (bytes -> bytes) -> oracle -> cell -> msg1 res

val clear_info_anycast : info -> info

val after_hash : bool -> msg1 -> msg1

type tx = { tx_hash : bytes; tx_src : cell; tx_account : bits; tx_lt : 
            n; tx_prev_hash : bits; tx_prev_lt : n; tx_now : n;
            tx_outmsg_cnt : n; tx_orig : n; tx_end : n;
            tx_in_msg : msg1 option; tx_out_msgs : cell option; tx_fees : 
            n }

val parse_in_msg :
  oracle -> (cell -> bytes res) -> slc0 -> (msg1 option * slc0) res

val decode_tx_gen :
  oracle -> bytes res -> (cell -> bytes res) -> cell -> tx res

val cached_hash_of : imm res list -> nat -> bytes res

val cached_hash : (bytes -> bytes) -> node list -> nat -> bytes res

val dict_tree : (slc0 -> unit res) -> nat -> nat -> cell -> nat -> unit res

val dict_accepts : (slc0 -> unit res) -> nat -> cell -> bool

val val_var32 : slc0 -> unit res

val val_simple_lib : slc0 -> unit res

val val_ref_message : oracle -> (cell -> bytes res) -> slc0 -> unit res

val parse_maybe : (slc0 -> slc0 res) -> slc0 -> slc0 res

val skip0 : nat -> slc0 -> slc0 res

val skip_grams : slc0 -> slc0 res

val skip_var : nat -> slc0 -> slc0 res

val in_ref : (slc0 -> slc0 res) -> slc0 -> slc0 res

val acst : slc0 -> slc0 res

val storage_ph : slc0 -> slc0 res

val credit_ph : oracle -> slc0 -> slc0 res

val compute_vm : slc0 -> slc0 res

val compute_ph : slc0 -> slc0 res

val action_ph : slc0 -> slc0 res

val maybe_action : slc0 -> slc0 res

val storage_used : slc0 -> slc0 res

val bounce_ph : slc0 -> slc0 res

val split_info : slc0 -> slc0 res

val any_ref : slc0 -> slc0 res

val parse_descr : oracle -> slc0 -> slc0 res

val msg_oracle : oracle

val real_oracle : (cell -> bytes res) -> oracle

val decode_message_resolving :
  (bytes -> bytes) -> (bytes -> cell res) -> oracle -> cell -> msg1 res

type 's tvar = { tv_hash : bytes; tv_src : 's option; tv_val : tx option }

val tvar_zero : 'a1 tvar

val tx_assign_res :
  bool -> bytes res -> tx res -> 'a1 -> 'a1 tvar -> 'a1 tvar * bool

val tx_obs_hash : 'a1 tvar -> bytes

val tx_obs_source : 'a1 tvar -> 'a1 option

type mvar = { mv_hash : bytes; mv_val : msg1 option }

val mvar_zero : mvar

val set_hash : bytes -> msg1 -> msg1

val msg_assign_res :
  bool -> bytes res -> (((info * (bool * state_init)
  option) * bool) * (bits * cell list)) res -> mvar -> mvar * bool

val msg_obs_hash : (bytes -> bytes) -> bool -> mvar -> bytes res

val msg_after_hash : bool -> mvar -> mvar

val the_oracle : oracle

val info_kind : info -> n

val info_src : info -> addr

val info_dest : info -> addr

val addr_sx : addr -> sx

val msg_sx : msg1 -> sx

val with_root0 :
  sx -> (oracle -> node list -> nat -> cell -> imm res list -> sx) -> sx

val run_msg0 : sx -> sx

val run_conc1 : sx -> sx

val run_blk : sx -> sx

val run_lvl : sx -> sx

val run_lib : sx -> sx

val parses_back : bytes -> bytes -> bool

val run_tx : sx -> sx

type tsrc = { ts_lib : bool; ts_hr : bytes res; ts_dr : tx res; ts_boc : sx }

type msrc = { ms_lib : bool; ms_hr : bytes res;
              ms_pr : (((info * (bool * state_init)
                      option) * bool) * (bits * cell list)) res }

val with_source :
  sx -> (oracle -> node list -> nat -> cell -> imm res list -> 'a1) -> 'a1
  option

val tsrc_of : sx -> tsrc option

val msrc_of : sx -> msrc option

val all_some : 'a1 option list -> 'a1 list option

val ok_sx : bool -> sx

val htx_go : tsrc list -> sx list -> nat tvar -> sx list

val hmsg_go : msrc list -> sx list -> mvar -> sx list

val run_htx : sx -> sx

val run_hmsg : sx -> sx

val iter0 : nat -> ('a1 -> 'a1) -> 'a1 -> 'a1

val crc16_poly : n

val crc16_step : n -> n

val crc16_byte : n -> n -> n

val crc16_from : n -> n list -> n

val crc16 : n list -> n

val crc16_tab_byte : n list -> n -> n -> n

val crc16_tab : n list -> n list -> n

val b64_enc3 : n -> n -> n -> n list

val b64_enc : n list -> n list

val b64_dec4 : n -> n -> n -> n -> n list

val b64_dec : n list -> n list

val b64_char : bool -> n -> n

val b64_digit : bool -> n -> n option

val b64_digits : bool -> n list -> n list option

val plus_slash : n -> n

val is_crlf : n -> bool

val len_mod4 : 'a1 list -> bool

val b64url_decode_string : n list -> n list option

val human_flag : bool -> bool -> n

val go_parse_address_bounce : n -> bool

val wc_byte : z -> n

val int8_of_byte : n -> z

val be16_bytes : n -> n list

val be0 : n -> n -> n

val human_body : bool -> bool -> z -> n list -> n list

val human_bytes : n list -> bool -> bool -> z -> n list -> n list

val human_digits : n list -> bool -> bool -> z -> n list -> n list

val print_human : n list -> bool -> bool -> bool -> z -> n list -> n list

val len_is : nat -> 'a1 list -> bool

val parse_human_bytes : n list -> ((n * z) * n list) res

val parse_human : n list -> ((n * z) * n list) res

val hex_lower : n -> n

val hex_byte : n -> n list

val hex_val : n -> n option

val hex_decode0 : n list -> n list option

val dec_rev : nat -> n -> n list

val dec_N : n -> n list

val dec_Z : z -> n list

val dec_value : n -> n list -> n option

val parse_int : n -> n list -> z option

val split_colon0 : n list -> (n list * n list) option

val print_raw : z -> n list -> n list

val zero_fill : nat -> n list -> n list

val parse_raw : n list -> (z * n list) res

val parse_account : n list -> (z * n list) res

val b64_digits_prefix : n list -> n list

val parse_address_lax : n list -> ((z * n list) * bool) res

val le32_bytes : n -> n list

val int32_of_N : n -> z

val tl_marshal : z -> n list -> n list

val tl_unmarshal : n list -> (z * n list) res

val m64 : n

val u64_of_Z0 : z -> n

val i64_of_N0 : n -> z

val ctz_pos : positive -> n

val ctz64 : n -> n

val shl64 : n -> n -> n

type shard = { sh_prefix : n; sh_mask : n }

val parse_shard : n -> shard res

val shard_encode : shard -> n res

val be1 : n list -> n

val shard_match_prefix : shard -> n -> bool

val shard_match : shard -> n list -> bool

val shard_match_block : shard -> n -> bool

val lowbit64 : n -> n

val shard_child : n -> bool -> n

val shard_parent : n -> n

val shard_of_ident : n -> n -> n

val get_parents : n -> n -> bool -> bool -> n list

val to_bits : nat -> n list -> bits

val chunks : nat -> nat -> bits -> bits list

val from_bits : nat -> nat -> bits -> n list

val b32_char : n -> n

val to_upper : n -> n

val b32_digit : n -> n option

val b32_digits : n list -> n list option

val adnl_bytes : n list -> n list -> n list

val adnl_print : n list -> n list -> n list

val adnl_suffix : n list

val list_eqb : n list -> n list -> bool

val trim_suffix : n list -> n list -> n list

val is_pad : n -> bool

val padded_tail_ok : n list -> bool

val adnl_parse : n list -> n list -> n list res

val take0 : nat -> bits -> (bits * bits) res

val bits_of_int : nat -> z -> bits

val int_of_bits : bits -> z

val bytes_bits1 : n list -> bits

val bits_bytes0 : nat -> bits -> n list

type msgaddr =
| MANone
| MAExtern of bits
| MAStd of (n * n) option * z * n list
| MAVar of (n * n) option * n * z * bits

val enc_anycast : (n * n) option -> bits res

val tlb_encode : msgaddr -> bits res

val dec_anycast : bits -> ((n * n) option * bits) res

val tlb_decode : bits -> (msgaddr * bits) res

val int8_of_Z : z -> z

val to_msg_address : z -> n list -> msgaddr

val m0 : n

val shl32 : n -> n -> n

val sub32 : n -> n -> n

val be2 : n list -> n

val be32_bytes : n -> n list

val anycast_rewrite : n -> n -> n list -> n list

val account_from_tlb : msgaddr -> (z * n list) option res

val account_from_tlb_bits : bits -> (z * n list) option res

val json_marshal : z -> n list -> n list

val is_ws : n -> bool

val drop_ws : n list -> n list

val json_str_body : n list -> (n list * n list) option

val json_unmarshal : n list -> (z * n list) res

val anycast_open : n list

val anycast_suffix : (n * n) option -> n list

val hex_upper : n -> n

val fift_print : bits -> n list

val ma_json_body : msgaddr -> n list

val ma_json_print : msgaddr -> n list

val drop_quotes : n list -> n list

val trim_quotes : n list -> n list

val split_colons : n list -> n list list

val hex_digits_of : n list -> n list option

val fift_parse : n list -> bits option

val ends_underscore : n list -> bool

val is_numch : n -> bool

val span_num : n list -> n list * n list

val scan_u32 : n list -> (n * n list) option

val strip_prefix : n list -> n list -> n list option

val parse_anycast0 : n list -> (n * n) res

val is_int8 : z -> bool

val ma_json_parse_with : (z -> bool) -> n list -> msgaddr res

val ma_json_parse : n list -> msgaddr res

val account_to_ma_json : z -> n list -> n list

val crc16_table : n list

val out_acc : (z * n list) res -> sx

val run_crc16 : sx -> sx

val run_human : sx -> sx

val run_parse_human : sx -> sx

val run_parse_address : sx -> sx

val run_raw0 : sx -> sx

val run_parse_raw : sx -> sx

val run_parse_account : sx -> sx

val run_tl : sx -> sx

val run_untl : sx -> sx

val run_shard_parse : sx -> sx

val run_shard_match : sx -> sx

val run_shard_match_block : sx -> sx

val run_shard_child : sx -> sx

val run_shard_parent : sx -> sx

val run_shard_ident : sx -> sx

val run_parents : sx -> sx

val run_adnl : sx -> sx

val run_parse_adnl : sx -> sx

val out_bits : bits res -> sx

val out_acc_opt : (z * n list) option res -> sx

val run_tlb : sx -> sx

val any_of0 : bool -> n -> n -> (n * n) option

val run_tlb_any : sx -> sx

val run_untlb : sx -> sx

val run_from_tlb : sx -> sx

val run_json : sx -> sx

val run_unjson : sx -> sx

val run_unjson_quoted : sx -> sx

val any_sx0 : (n * n) option -> sx list

val ma_sx : msgaddr -> sx

val run_ma_json : sx -> sx

val run_ma_json_any : sx -> sx

val run_ma_unjson : sx -> sx

val run_conc2 : sx -> sx

type str = n list

val eSyntax : n

val eRange : n

val eJson : n

val is_digit : n -> bool

val ch_quote : n

val ch_colon : n

val ch_minus : n

val ch_plus : n

val ch_under : n

val str_eqb : str -> str -> bool

val has_prefix0 : str -> str -> str option

val has_prefix_b : str -> str -> bool

val has_suffix_b : str -> str -> bool

val go_slice : nat -> nat -> str -> str res

val trim_left0 : (n -> bool) -> str -> str

val frev : str -> str

val trim : (n -> bool) -> str -> str

val is_quote : n -> bool

val is_quote_sp_nl : n -> bool

val trim_quotes0 : str -> str

val split_on : n -> str -> str list

val dec_rev0 : nat -> n -> str

val print_N : n -> str

val print_Z : z -> str

val dec_value0 : n -> str -> n option

val parse_udec : str -> n option

val parse_sdec : str -> (bool * n) option

val parse_uint : n -> str -> n res

val parse_int0 : n -> str -> z res

val parse_big : str -> z res

val hex_lower0 : n -> n

val hex_upper0 : n -> n

val hex_byte0 : n -> str

val print_hex : n list -> str

val hex_val0 : n -> n option

val hex_decode1 : str -> n list option

val hexn_rev : nat -> n -> str

val print_hex_N : n -> str

val hexn_value : n -> str -> n option

val parse_uint_hex64 : str -> n res

val rune_error : n

val cont : n -> bool

val in_rng : n -> n -> n -> bool

val second_ok : n -> n -> bool

val runes : str -> n list

val encode_rune : n -> str

val utf8_fix : str -> str

type jst =
| JBeginValueOrEmpty
| JBeginValue
| JBeginStringOrEmpty
| JBeginString
| JEndValue
| JEndTop
| JInString
| JEsc
| JEscU of nat
| JNeg
| J1
| J0
| JDot
| JDot0
| JE
| JESign
| JE0
| JLit of str
| JError

type pst =
| PKey
| PVal
| PArr

type scanner = { sc_st : jst; sc_stack : pst list; sc_depth : n; sc_end : bool }

val max_nesting : n

val json_space : n -> bool

val sc_err : scanner -> scanner

val sc_to : scanner -> jst -> scanner

val sc_push : scanner -> pst -> jst -> scanner

val sc_pop : scanner -> pst list -> scanner

val is_hex : n -> bool

val st_end_top : scanner -> n -> scanner

val st_end_value : scanner -> n -> scanner

val st_begin_value : scanner -> n -> scanner

val st_begin_string : scanner -> n -> scanner

val st_0 : scanner -> n -> scanner

val st_esign : scanner -> n -> scanner

val sc_step : scanner -> n -> scanner

val sc_init : scanner

val json_valid : str -> bool

val json_item : str -> str

val hex4 : n -> n -> n -> n -> n option

val is_surrogate : n -> bool

val utf16_pair : n -> n -> n option

val esc_char : n -> n option

val unescape : str -> str option

val json_unmarshal_string : str -> str res

val json_plain : n -> bool

val quote : str -> str

val json_marshal_string : str -> str res

val fmt_space : n -> bool

val skip_space : n list -> n list res

val span_digits : n list -> str * n list

val scan_uint32 : n list -> (n * n list) res

val sscanf_d_d : str -> (n * n) res

val scan_hex_pairs : n list -> (n list * n list) res

val fscanf_quoted_hex : str -> n list * bool

val len_is0 : nat -> 'a1 list -> bool

val json_unmarshal0 : (str -> 'a1 res) -> str -> 'a1 res

val quoted_width : n -> bool

val print_uint : n -> n -> str

val parse_uint_json : n -> str -> n res

val print_int0 : n -> z -> str

val parse_int_json : n -> str -> z res

val print_big : z -> str

val parse_big_json : str -> z res

val print_bytes_hex : n list -> str

val parse_bytes_hex : nat -> str -> n list res

val print_grams : n -> str

val parse_grams0 : str -> n res

val print_coins : z -> str

val parse_coins : str -> z res

val s_0x : str

val print_magic : n -> str

val parse_magic : str -> n res

val s_null : str

val parse_maybe0 : (str -> 'a1 res) -> str -> 'a1 option res

val print_cell : ('a1 -> n list res) -> 'a1 -> str res

val go_index0 : 'a1 list -> 'a1 res

val parse_cell0 : (n list -> 'a1 list res) -> str -> 'a1 res

val fift_chars : bits -> str

val ref_suffix0 : n -> bits option

val hex_digits0 : n list -> n list option

val ends_under : str -> bool

val from_fift_str : str -> bits res

val print_bitstring : bits -> str

val print_bitstring_bs : bs -> str res

val read_bs : bits -> bits -> bits -> bs res

val set_ons : nat -> bits -> bs -> bs

val on_bs : bits -> bits -> bs

val written_bs : bits -> nat -> bs

val parse_bitstring : str -> bits res

type anycast = (n * n) option

type msgaddr0 =
| AddrNone
| AddrExtern of bits
| AddrStd of anycast * z * n list
| AddrVar of anycast * n * z * bits

val s_anycast0 : str

val print_anycast : anycast -> str

val print_msgaddr : msgaddr0 -> str

val parse_anycast1 : str -> (n * n) res

val parse_addr_value : str -> msgaddr0 res

val parse_msgaddr : str -> msgaddr0 res

val parse_ton_bits256 : str -> n list res

val print_tl_int256 : n list -> str res

val parse_tl_int256 : str -> n list res

val print_account : z -> n list -> str res

val parse_account_json : str -> (z * n list) res

val out_res0 : ('a1 -> sx) -> 'a1 res -> sx

val sx_any : anycast -> sx

val any_of_sx : sx -> anycast option

val sx_addr : msgaddr0 -> sx

val addr_of_sx : sx -> msgaddr0 option

val deser_roots : n list -> sx list res

val print_fam : string -> sx -> sx -> str res option

val parse_fam : string -> sx -> (str -> sx) option

val sx_str : str res -> sx

val run_print : sx -> sx

val as_res : (str -> sx) -> str -> sx res

val sx_maybe : sx option -> sx

val run_parse_with : bool -> sx -> sx

val run_parse1 : sx -> sx

val run_method : sx -> sx

val run_valid : sx -> sx

val run_unquote : sx -> sx

type bytes1 = n list

type ty0 =
| TInt0
| TNat
| TLong
| TInt256
| TBytes
| TString
| TBool0
| TTrue
| TVector of ty0
| TBare of string
| TBoxed of string

type field = { fname : string; fcond : (string * n) option; fty : ty0 }

type decl = { dname : string; did : n; dfields : field list; dres : string }

type schema0 = decl list

type value0 =
| VNum of n
| VBytes of bytes1
| VBool0 of bool
| VVec of value0 list
| VRec of string * (string * value0) list

type naming = { lbl : (string -> string); blbl : (decl -> string);
                xlbl : (decl -> string) }

val le_bytes : nat -> n -> bytes1

val le_num : bytes1 -> n

val is_byte : n -> bool

val all_bytes : bytes1 -> bool

val split_at : nat -> bytes1 -> (bytes1 * bytes1) option

val shortN : n -> 'a1 list -> bool

val split_atN : n -> bytes1 -> (bytes1 * bytes1) option

val pad_of : n -> nat

val bytes_header : n -> bytes1

val enc_bytes : bytes1 -> bytes1

val all_zero : bytes1 -> bool

val dec_bytes : bytes1 -> (bytes1 * bytes1) option

val bool_true_id : n

val bool_false_id : n

val enc_bool : bool -> bytes1

val assoc : string -> (string * 'a1) list -> 'a1 option

val enc_list : (value0 -> bytes1 option) -> value0 list -> bytes1 option

val dec_pos :
  (bytes1 -> (value0 * bytes1) option) -> positive -> value0 list -> bytes1
  -> (value0 list * bytes1) option

val frev0 : 'a1 list -> 'a1 list

val dec_count :
  (bytes1 -> (value0 * bytes1) option) -> n -> bytes1 -> (value0
  list * bytes1) option

val present : (string * n) list -> field -> bool option

val env_add : field -> value0 -> (string * n) list -> (string * n) list

val is_true_ty : ty0 -> bool

val enc_fields :
  naming -> (ty0 -> value0 -> bytes1 option) -> field list ->
  (string * value0) list -> (string * n) list -> bytes1 option

val dec_fields :
  naming -> (ty0 -> bytes1 -> (value0 * bytes1) option) -> field list ->
  (string * n) list -> bytes1 -> ((string * value0) list * bytes1) option

val find_ctor : schema0 -> string -> decl option

val ctors_of : schema0 -> string -> decl list

val two1 : n

val two2 : n

val two24 : n

val enc0 : naming -> schema0 -> nat -> ty0 -> value0 -> bytes1 option

val dec0 :
  naming -> schema0 -> nat -> ty0 -> bytes1 -> (value0 * bytes1) option

val tl_fuel : nat

val tl_encode : naming -> schema0 -> ty0 -> value0 -> bytes1 option

val tl_decode : naming -> schema0 -> ty0 -> bytes1 -> (value0 * bytes1) option

val enc_args : naming -> schema0 -> nat -> decl -> value0 -> bytes1 option

val dec_args :
  naming -> schema0 -> nat -> decl -> bytes1 -> (value0 * bytes1) option

val tl_request : naming -> schema0 -> decl -> value0 -> bytes1 option

val eEof : n

val eInvalid : n

val eModel : n

type gty =
| GU32
| GU64
| GBool
| GBytes
| GString
| GInt256
| GSlice of gty
| GPtr of gty
| GNamed of string
| GStruct of (string * gty) list
| GSumTag
| GOther of string

type access = string list * (gty * bool) option

type stmt =
| Field of access
| IfBit of string * n * access list
| WriteTag of n
| ReadTag of n
| Self of string
| Unrecognised of string

type mbody =
| MPlain of stmt list
| MSwitch of (string * stmt list) list
| MNone

type ubody =
| UPlain of stmt list
| USwitch of ((n * string) * stmt list) list

type binding = { b_name : string; b_type : gty; b_marshal : mbody;
                 b_unmarshal : ubody }

type bindings = binding list

type method0 = { m_name : string; m_req : string option; m_req_id : n;
                 m_err_id : n; m_resp_ids : n list; m_resp_ty : string;
                 m_shape : bool }

val find_binding : bindings -> string -> binding option

val field_ty : gty -> string list -> gty option

val align_up : n -> n -> n

val gsize_al : nat -> bindings -> gty -> n * n

val gsize : bindings -> gty -> n

type st = { inp : bytes1; alloc : n; peak : n }

type 'a m = st -> 'a res * st

val mret : 'a1 -> 'a1 m

val mfail : n -> 'a1 m

val mbind : 'a1 m -> ('a1 -> 'a2 m) -> 'a2 m

val read_full0 : nat -> bytes1 m

val read_fullN : n -> bytes1 m

val max_alloc : n

val make : n -> n -> unit m

val max_prealloc : n

val read_byte_slice : bytes1 m

val iter_pos : value0 m -> positive -> value0 list -> value0 list m

val decode_vector : value0 m -> n -> value0 m

type record = (string * value0) list

val mode_of : record -> string -> n

val last_of : string list -> string list -> string option

val run_uaccess :
  (gty -> value0 m) -> gty -> string list -> access -> record -> record m

val run_uaccesses :
  (gty -> value0 m) -> gty -> string list -> access list -> record -> record m

val run_ustmt :
  (gty -> value0 m) -> gty -> string list -> stmt -> record -> record m

val run_ustmts :
  (gty -> value0 m) -> gty -> string list -> stmt list -> record -> record m

val find_ucase :
  n -> ((n * string) * stmt list) list -> (string * stmt list) option

val run_unmarshal : (gty -> value0 m) -> binding -> value0 m

val dec_struct :
  (gty -> value0 m) -> (string * gty) list -> record -> record m

val gdec : bindings -> nat -> gty -> value0 m

val st0 : bytes1 -> st

val go_fuel : nat

val go_unmarshal : bindings -> gty -> bytes1 -> value0 res * st

val go_encode_length : n -> bytes1

val go_zero_padding : bytes1 -> bytes1

val go_bytes : bytes1 -> bytes1

val concat_res : bytes1 res list -> bytes1 res

val run_maccess :
  (gty -> value0 option -> bytes1 res) -> gty -> string list -> access ->
  record -> bytes1 res

val run_mstmt :
  (gty -> value0 option -> bytes1 res) -> gty -> string list -> value0 ->
  record -> stmt -> bytes1 res

val run_mstmts :
  (gty -> value0 option -> bytes1 res) -> gty -> string list -> value0 ->
  record -> stmt list -> bytes1 res

val run_marshal0 :
  (gty -> value0 option -> bytes1 res) -> binding -> value0 -> bytes1 res

val has_marshaler : bindings -> gty -> bool

val genc : bindings -> nat -> gty -> value0 option -> bytes1 res

val go_marshal : bindings -> gty -> value0 -> bytes1 res

val go_request : bindings -> method0 -> value0 option -> bytes1 res

type response =
| RError of value0
| RResult of value0

val go_response : bindings -> method0 -> bytes1 -> response res

type tst = { t_inp : bytes1; t_alloc : n; t_steps : n }

type 'a t = tst -> 'a res * tst

val tret : 'a1 -> 'a1 t

val tfail : n -> 'a1 t

val tbind : 'a1 t -> ('a1 -> 'a2 t) -> 'a2 t

val tlen : tst -> n

val rd_full : nat -> bytes1 t

val rd_fullN : n -> bytes1 t

val charge : n -> unit t

val tick : unit t

val mk : n -> n -> unit t

val max_prealloc0 : n

val mk_read : n -> bytes1 t

val read_n0 : n -> bytes1 t

val read_byte_sliceT : bytes1 t

val append_charge : n -> n

val vec_elem : value0 t -> n -> value0 t

val iter_posT : value0 t -> positive -> value0 list -> value0 list t

val decode_vectorT : value0 t -> n -> value0 t

val acc_ty : gty -> string list -> access -> ((string * gty) * bool) option

val run_uaccessT :
  bindings -> (gty -> value0 t) -> gty -> string list -> access -> record ->
  record t

val run_uaccessesT :
  bindings -> (gty -> value0 t) -> gty -> string list -> access list ->
  record -> record t

val run_ustmtT :
  bindings -> (gty -> value0 t) -> gty -> string list -> stmt -> record ->
  record t

val run_ustmtsT :
  bindings -> (gty -> value0 t) -> gty -> string list -> stmt list -> record
  -> record t

val run_unmarshalT : bindings -> (gty -> value0 t) -> binding -> value0 t

val dec_structT :
  (gty -> value0 t) -> (string * gty) list -> record -> record t

val gdecT : bindings -> nat -> gty -> value0 t

val tst0 : bytes1 -> tst

val tl_unmarshal0 : bindings -> nat -> gty -> bytes1 -> value0 res * tst

type xtree =
| XT of n * bits * xtree list

val k_PRUNED : n

val k_LIBRARY : n

val xunary : nat -> bits -> bits res

type ct = { c_steps : n; c_alloc : n }

val tickc : ct -> ct

val chg : n -> ct -> ct

type ys = { yk : n; yb : bits; yr : xtree list }

val cell_of0 : ys -> xtree

val slice_of : xtree -> ys

type 'a yres = 'a res * ct

val yret : 'a1 -> ct -> 'a1 yres

val yerr : n -> ct -> 'a1 yres

val ybind : 'a1 yres -> ('a1 -> ct -> 'a2 yres) -> 'a2 yres

val ylift : 'a1 res -> ct -> 'a1 yres

val ytake_bits : nat -> ys -> (bits * ys) res

val ytake_ref : ys -> (xtree * ys) res

val kind_of : xtree -> n

val is_lib : n -> bool

val is_pruned0 : n -> bool

val vM_VALUE_SIZE : n

val vm_cellslice : ys -> ys res

val vmw : n option -> xtree -> ct -> ys yres

val vm_value : ys -> ct -> ys yres

val vm_tuple : ys -> ct -> ys yres

val vm_list : xtree -> n -> ct -> (n * ys) yres

val vm_stack : ys -> ct -> ys yres

val grams : ys -> ys res

val snake : xtree -> ct -> (n * ys) yres

val fixed_text : ys -> ys res

val snake_bits : xtree -> bits

val bits_bytes1 : nat -> bits -> n list

val u8in : n -> n -> n -> bool

val u8c : n -> bool

val utf8_valid : n list -> bool

val bt_tree : xtree -> ct -> ys list yres

val bt_leaves : (ys -> ct -> ys yres) -> ys list -> ys -> ct -> ys yres

val fork_charge : nat -> n

val leaf_charge : nat -> n -> n

val with_extra : (ys -> ct -> ys yres) option -> ys -> ct -> ys yres

val hm_tree :
  (ys -> ct -> ys yres) -> (ys -> ct -> ys yres) option -> nat -> n -> nat ->
  xtree -> nat -> ct -> ys yres

val hm_decode :
  (ys -> ct -> ys yres) -> (ys -> ct -> ys yres) option -> nat -> n -> ys ->
  ct -> ys yres

val cell_w : bits -> n

val tsz : xtree -> n

type yty =
| YUint of nat
| YInt of nat
| YBigUint of nat
| YBigInt of nat
| YBool
| YBits of nat
| YVarUInt of nat
| YUnary
| YMagic of nat * n
| YMaybe of yty
| YEither of yty * yty
| YEitherRef of yty
| YRef of yty
| YMaybeRef of yty
| YStruct of yty list
| YSum of ((nat * n) * yty) list
| YAny
| YCellRef
| YAddr
| YNamed of nat
| YGrams
| YSnake
| YBytes
| YFixedText
| YHashmap of nat * n * yty
| YHashmapAug of nat * n * yty * yty
| YVmStack
| YVmValue
| YVmTuple
| YCellSlice
| YFail
| YRawCell
| YText
| YBinTree of n * yty
| YHashed of yty
| YRefRaw of yty
| YNoLib of yty
| YPeek of nat * nat * n * yty * yty
| YRefRawOpt of yty
| YOpenStruct of yty list

val sub_slice : xtree -> bool -> ys option

val ybody :
  yty list -> (xtree -> bool) -> (yty -> ys -> ct -> ys yres) -> yty -> ys ->
  ct -> ys yres

val ydec :
  yty list -> (xtree -> bool) -> (xtree -> xtree option) -> nat -> yty -> ys
  -> ct -> ys yres

val yunmarshal :
  yty list -> (xtree -> bool) -> (xtree -> xtree option) -> nat -> yty ->
  xtree -> ys yres

val no_resolver : xtree -> xtree option

val eMap : n

type dkind =
| DInt
| DUint
| DBool
| DBits256
| DInt257
| DBigInt
| DPtrBits256
| DPtrInt257
| DPtrOther
| DOther

type sint =
| STiny of z
| SBig of z

val is_int64 : z -> bool

val nbytes0 : z -> n

val map_int : sint -> dkind -> unit res

val eFrame : n

val slice_from : nat -> bytes -> bytes res

val slice_to : n -> bytes -> bytes res

val index0 : 'a1 list -> 'a1 res

val index_at : nat -> 'a1 list -> 'a1 res

val decode_length : bytes -> (n * bytes) res

val process_query_answer : bool -> bytes -> bytes res

val max_server_nonce : n

val auth_nonce : bytes -> bytes res

val max_packet : n

val parse_packet0 : (bytes -> bytes) -> bytes -> ((bytes * bytes) * n) res

val magic_type0 : bytes -> n res

val vmstack_after_tl_gen :
  (node list -> nat -> unit res) -> bool -> bytes -> unit res

val vmstack_after_tl : (node list -> nat -> unit res) -> bytes -> unit res

val parse_contract_methods_gen :
  (node list -> nat -> unit res) -> bool -> bytes -> unit res

val parse_contract_methods :
  (node list -> nat -> unit res) -> bytes -> unit res

val account_from_proof :
  (node list -> nat -> unit res) -> nat -> nat -> nat option -> bytes -> unit
  res

val mAGIC_TCP_PONG : n

val mAGIC_TCP_AUTH_NONCE : n

val mAGIC_ADNL_ANSWER : n

type ract =
| RConsumed
| RAuth
| RForward

val conn_reader_step_gen : bool -> bytes -> ract res

val conn_reader_step : bytes -> ract res

val client_reader_step : bool -> bytes -> bytes option res

val lookup_request : (((n * n) * string) * string) list -> n -> string option

val request_decode :
  bindings -> (((n * n) * string) * string) list -> nat -> bytes -> string
  option res

val min_packet : n

val packet_prealloc : bytes -> n

val tl_bindings : bindings

val tl_methods : method0 list

val tl_request_table : (((n * n) * string) * string) list

val h08_fuel : nat

val basic_ty : string -> gty option

val run_tl0 : sx -> sx

val yty_of_sx : nat -> sx -> yty option

val xtree_of_sx : nat -> sx -> xtree option

val bits_eqb2 : bits -> bits -> bool

val xtree_eqb : xtree -> xtree -> bool

val at_path : xtree -> sx list -> xtree option

val hash_oracle : xtree -> sx list -> xtree -> bool

val resolver_of : sx list -> xtree -> xtree option

val run_tlb0 : sx -> sx

val dkind_of : string -> dkind

val run_mapint : sx -> sx

val out_unit0 : unit res -> sx

val run_declen : sx -> sx

val run_answer : sx -> sx

val cls : 'a1 res -> sx

val run_answer2 : sx -> sx

val run_reader : sx -> sx

val run_packet : sx -> sx

val ok_root : node list -> nat -> unit res

val run_vmstack : sx -> sx

val run_methods : sx -> sx

val run_accproof : sx -> sx

val run_reqdec : sx -> sx

val run_pktalloc : sx -> sx

val c08_limit : string -> n option

val run_limit : sx -> sx

val is_up : ascii -> bool

val is_low : ascii -> bool

val is_digit0 : ascii -> bool

val to_up : ascii -> ascii

val is_sep : ascii -> bool

val camel_go : string -> bool -> string

val camel : string -> string

val single : schema0 -> decl -> bool

val go_naming : schema0 -> naming

val cname : decl -> string

val hand_account_marshal : n -> bytes1 -> bytes1

val hand_account_unmarshal : bytes1 -> ((n * bytes1) * bytes1) option

val hand_blockidext_marshal : n -> n -> n -> bytes1 -> bytes1 -> bytes1

val hand_blockidext_unmarshal :
  bytes1 -> ((((n * n) * n) * bytes1) * bytes1) option

val hand_blockid_marshal : n -> n -> n -> bytes1

val hand_blockid_unmarshal : bytes1 -> (((n * n) * n) * bytes1) option

val val_account_id : n -> bytes1 -> value0

val val_block_id : n -> n -> n -> value0

val val_block_id_ext : n -> n -> n -> bytes1 -> bytes1 -> value0

val hand_vmstack_unframe : bytes1 -> bytes1 res * st

val lc_encode_length : n -> bytes1

val lc_align : bytes1 -> bytes1

val lc_decode_length : bytes1 -> (n * bytes1) res

val magic_adnl_query : n

val magic_adnl_answer : n

val magic_ls_wait : n

val lc_request_payload : bytes1 -> bytes1 -> bytes1

val lc_process_answer : bytes1 -> bytes1 res

val lc_wait_prefix : n -> n -> bytes1

val tl_types : decl list

val tl_functions : decl list

val atom_of : string -> sx

val name_of : string -> string

val sx_of_value : value0 -> sx

val value_of_sx : sx -> value0 option

val bytes_eqb1 : bytes1 -> bytes1 -> bool

val value_eqb : value0 -> value0 -> bool

val gonm : naming

type target =
| TType of ty0
| TArgs of decl

val spec_target : string -> target option

val spec_enc : string -> value0 -> bytes1 option

val spec_dec : string -> bytes1 -> (value0 * bytes1) option

val out_bytes : bytes1 res -> sx

val marshal_gen : bool -> sx -> sx

val run_marshal_any : sx -> sx

val run_marshal_canon : sx -> sx

val out_unmarshal : (value0 res * st) -> sx

val unmarshal_gen : bool -> sx -> sx

val run_unmarshal_any : sx -> sx

val run_unmarshal_canon : sx -> sx

val string_of_bytes0 : bytes1 -> string

val bytes_of_string0 : string -> bytes1

val run_reqdecode : sx -> sx

val out_response : response res -> sx

val spec_function : string -> decl option

val spec_request_ok : string -> value0 option -> bytes1 -> bool

val spec_response_ok : string -> bytes1 -> response res -> bool

val run_request : sx -> sx

val run_enclen : sx -> sx

val run_sizeof : sx -> sx

val run_camel : sx -> sx

val desc_of_sx : sx -> (gty * ty0) option

val run_bmarshal : sx -> sx

val run_bunmarshal : sx -> sx

val check_enc : string -> value0 -> bytes1 -> sx

val dec_agrees : string -> bytes1 -> value0 -> bytes1 -> bool

val hand_account : sx list -> sx

val hand_blockid : sx list -> sx

val hand_blockidext : sx list -> sx

val hand_vmstack : sx list -> sx

val run_hand : sx -> sx

val run_lclen : sx -> sx

val run_lcdec : sx -> sx

val run_lcalign : sx -> sx

val zeros0 : bytes1

val run_adnlreq : sx -> sx

val wait_block_value : n -> value0

val run_wait0 : sx -> sx

val boc_size_limit : z

val print_step : (nat -> z -> n * z) -> (n * z) -> nat -> n * z

val print_at : nat -> node list -> nat -> z -> n * z

val to_string_lines : node list -> nat -> n

val run_lines : sx -> sx

val str0 : n list -> string

val tlty_of : sx -> ty0 option

val field_of : sx -> field option

val all_of : (sx -> 'a1 option) -> sx list -> 'a1 list option

val decl_of : sx -> decl option

val decls_of : sx -> decl list option

type target0 =
| TType0 of ty0
| TArgs0 of decl

val target_of : decl list -> sx -> target0 option

val run_tl1 : sx -> sx

val run_tlreq : sx -> sx

val schema_of : sx -> schema option

val run_tlb1 : sx -> sx

val eUnmodelled : n

val eWallet : n

val eBadSig : n

val eTag : n

type version =
| V1R1
| V1R2
| V1R3
| V2R1
| V2R2
| V3R1
| V3R2
| V3R2Lockup
| V4R1
| V4R2
| V5Beta
| V5R1
| HLV1R1
| HLV1R2
| HLV2
| HLV2R1
| HLV2R2

val ocell : bits -> cell list -> cell

val cdata : cell -> bits

val crefs0 : cell -> cell list

val mk0 : bits -> cell list -> cell res

val take1 : nat -> bits -> (bits * bits) res

val u8 : n -> bits

val u0 : n -> bits

val u64 : n -> bits

val two3 : z

val unix32 : z -> n

val bytes_to_bits0 : bytes -> bits

val to_dict : cell -> cell0 option

val of_dict : cell0 -> cell

type rawmsg = { rm_msg : cell; rm_mode : n }

val modes_bits : rawmsg list -> bits

val payload_v1v4 : bits -> rawmsg list -> cell res

val body_v3 : n -> z -> n -> rawmsg list -> cell res

val body_v4 : n -> z -> n -> rawmsg list -> cell res

val action_magic : n

val actions_cell : rawmsg list -> cell res

val op_signed_internal : n

val op_signed_external : n

val op_extension_action : n

val v5beta_bits : n -> n -> z -> n -> z -> n -> bits

val v5r1_bits : n -> n -> z -> n -> bits

type extaction =
| XAdd of addrv
| XRemove of addrv
| XSetSig of bool

val ext_action_bits : extaction -> bits res

val opt_list : 'a1 option -> 'a1 list

val ext_tail : extaction list -> cell option res

val v5r1x_parts : extaction list option -> (bits * cell list) res

val hl_entries : nat -> rawmsg list -> (bits * cell0) list option

val hl_query : z -> n -> n

val body_hl : n -> z -> n -> rawmsg list -> cell res

type wallet = { w_ver : version; w_pk : bits; w_wc : z; w_sub : n; w_net : 
                n; w_wid : n }

type options = { o_wc : z option; o_sub : n option; o_net : z option }

val default_subwallet : z

val mainnet_global_id : z

val to_u32 : z -> n

val opt_or : 'a1 option -> 'a1 -> 'a1

val context_id : z -> n

val new_wallet : bits -> version -> options -> wallet res

val max_messages : version -> nat

val fit0 : nat -> bits -> bits

val sign_body :
  (cell -> bytes res) -> ('a1 -> bytes -> bits) -> 'a1 -> cell -> cell res

val sign_append :
  (cell -> bytes res) -> ('a1 -> bytes -> bits) -> 'a1 -> bits -> cell list
  -> cell res

val unsigned_body : wallet -> rawmsg list -> n -> z -> n -> n -> cell res

val sig_appended : version -> bool

val create_body :
  (cell -> bytes res) -> ('a1 -> bytes -> bits) -> wallet -> 'a1 -> rawmsg
  list -> n -> z -> n -> n -> cell res

val unsigned_v5r1x :
  wallet -> rawmsg list -> extaction list option -> n -> z -> n -> cell res

val create_body_v5r1x :
  (cell -> bytes res) -> ('a1 -> bytes -> bits) -> wallet -> 'a1 -> rawmsg
  list -> extaction list option -> n -> z -> n -> cell res

val default_lifetime_ns : z

val lifetime_of : z option -> z

val expiry0 : z -> z -> z

val api_create_message_body :
  (cell -> bytes res) -> ('a1 -> bytes -> bits) -> wallet -> 'a1 -> z -> z ->
  z option -> rawmsg list -> n -> n -> n -> cell res

val ext_bits : z -> bits -> bool -> bits

val ext_msg : z -> bits -> cell option -> cell -> cell res

val raw_send_msg :
  (cell -> bytes res) -> ('a1 -> bytes -> bits) -> wallet -> 'a1 -> z -> bits
  -> n -> z -> rawmsg list -> cell option -> n -> (bytes * cell) res

val dict_skip :
  nat -> (bits -> cell0 list -> bool) -> bits -> cell list -> (bits * cell
  list) res

val simplelib_ok : bits -> cell0 list -> bool

val varuint32_ok : bits -> cell0 list -> bool

val stateinit_dec : bits -> cell list -> (bits * cell list) res

val stateinit_ok : cell -> unit res

val grams_dec : bits -> (n * bits) res

type msginfo =
| IInt0 of bool * bool * bool * addrv * addrv * n * n * n * n * n
| IExtIn0 of addrv * addrv * n
| IExtOut0 of addrv * addrv * n * n

val info_dec : bits -> cell list -> ((msginfo * bits) * cell list) res

type extmsg = { e_info : msginfo; e_init : cell option; e_body : cell }

val drop_suffix : 'a1 list -> 'a1 list -> 'a1 list

val parse_ext : (cell -> bytes res) -> cell -> extmsg res

val int8_of : z -> z

val split_signed : cell -> (bits * cell) res

val verify_prim :
  (bits -> bytes -> bits -> bool) -> bits -> bytes -> bits -> unit res

val v5_split : cell -> (bits * cell) res

val signed_hash : (cell -> bytes res) -> bool -> cell -> (bits * bytes) res

val verify_layout : version -> bool option

type decoded = { d_id : n; d_valid : n; d_seqno : n; d_extra : n;
                 d_msgs : rawmsg list }

val payload_dec : cell list -> bits -> rawmsg list res

val decode_v3 : cell -> decoded res

val decode_v4 : cell -> decoded res

val actions_dec : cell -> rawmsg list res

val first_ref : cell list -> cell res

val decode_v5beta : cell -> decoded res

val ext_one : bits -> (extaction * bits) res

val ext_chain_dec : cell -> extaction list res

val ext_dec_body : bits -> cell list -> (extaction list * bits) res

val decode_v5r1x : cell -> (decoded * extaction list option) res

val decode_v5r1 : cell -> decoded res

val hl_values : (bits * cell0) list -> rawmsg list res

val decode_hl : cell -> decoded res

val decode_msg : (cell -> bytes res) -> version -> cell -> decoded res

val stateinit_ty : ty

val currencies_ty : ty

val msginfo_ty : ty

val msg_ty : ty

type transfer = { t_amount : n; t_wc : z; t_addr : bits; t_bounce : bool;
                  t_body : ctree option; t_init : (ctree * ctree) option;
                  t_mode : n }

val transfer_value : transfer -> value

val cell_of_ct : ctree -> cell

val ct_of_cell : cell -> ctree option

val internal_ct : transfer -> ctree res

val internal_msg : transfer -> rawmsg res

val deploy_stateinit : ctree -> ctree -> ctree

val deploy_transfer :
  (cell -> bytes res) -> z -> ctree option -> ctree option -> ctree option ->
  n -> transfer res

val internal_msgs : transfer list -> rawmsg list res

val comment_body : bytes -> ctree

val xhash : cell -> bytes res

val cell_of_sx0 : sx -> cell option

val sx_of_cell : cell -> sx

val ver_of_N : n -> version option

val optZ : sx -> z option

val optN : sx -> n option

val opts_of_sx : sx -> options

val msgs_of_sx : sx list -> rawmsg list option

val sx_of_msgs : rawmsg list -> sx

val out_res1 : ('a1 -> sx) -> 'a1 res -> sx

val hash_sx : cell -> sx

val any_sx1 : (n * n) option -> sx

val any_of_sx0 : sx -> (n * n) option

val addr_sx0 : addrv -> sx

val addr_of_sx0 : sx -> addrv

val ext_sx : extaction -> sx

val ext_of_sx : sx -> extaction

val exts_of_sx : sx -> extaction list option

val exts_sx : extaction list option -> sx

val run_send : sx -> sx

val opt_ct : sx -> ctree option option

val transfer_of_sx : sx -> transfer res option

val transfers_of_sx : sx list -> transfer list res option

val run_body : sx -> sx

val table_verify : sx list -> bits -> bytes -> bits -> bool

val verdict0 : sx list -> bits -> (bits * bytes) res -> sx

val run_verify : sx -> sx

val run_v5verify : sx -> sx

val run_decode0 : sx -> sx

val run_expiry : sx -> sx

val run_entry0 : sx -> sx

val wallet_code_bocs : (n * n list) list

val tree_at0 : nat -> node list -> nat -> cell option

val boc_root : bytes -> cell option

val ver_index : version -> n

val code_table : (n * cell option) list

val code_opt : version -> cell option

val code_of : version -> cell

val eTimeout : n

val eChain : n

val int32_of : z -> z

val pk_bits : wallet -> bits

val data_bits : wallet -> bits res

val data_cell : wallet -> cell res

val stateinit_bits : bits

val state_init0 : (version -> cell) -> wallet -> cell res

val address :
  (version -> cell) -> (cell -> bytes res) -> wallet -> (z * bytes) res

val api_new :
  (version -> cell) -> (cell -> bytes res) -> bits -> version -> options ->
  (z * bytes) res

val api_generate_address :
  (version -> cell) -> (cell -> bytes res) -> bits -> version -> z option ->
  z -> n option -> (z * bytes) res

val api_generate_state_init :
  (version -> cell) -> bits -> version -> z option -> z -> n option -> cell
  res

val count_words : bytes -> nat

val seed_accepted : bytes -> n -> bool

val api_from_seed :
  (version -> cell) -> (cell -> bytes res) -> bytes -> n -> bits ->
  (z * bytes) res

type acct =
| ANone1
| AUninit
| AFrozen
| AActive of cell

val dict_keys : nat -> nat -> bits -> cell list -> bits list res

type wdata = { wd_seqno : n; wd_id : n; wd_pk : bits; wd_flag : bool;
               wd_extra : n; wd_keys : bits list }

val decode_data : version -> cell -> wdata res

val seqno_of_data : version -> cell -> n res

val next_params : (version -> cell) -> wallet -> acct -> (n * cell option) res

type poll = z * n option

val confirm : z -> n -> poll list -> bool

type sent = cell option * bytes res

val raw_send_v2 :
  (cell -> bytes res) -> ('a1 -> bytes -> bits) -> wallet -> 'a1 -> z -> bits
  -> n -> z -> rawmsg list -> cell option -> n -> z -> bool -> poll list ->
  sent

val send_v2 :
  (version -> cell) -> (cell -> bytes res) -> ('a1 -> bytes -> bits) ->
  wallet -> 'a1 -> acct option -> rawmsg list -> z -> n -> z -> bool -> poll
  list -> sent

val api_send_v2 :
  (version -> cell) -> (cell -> bytes res) -> ('a1 -> bytes -> bits) ->
  wallet -> 'a1 -> z -> z -> acct option -> rawmsg list -> n -> z -> bool ->
  poll list -> sent

type wop =
| OStateInit
| OMutate of cell
| OAddress
| ONext of acct
| ORekey of bits

type wans =
| AInit of cell res
| ADone
| AAddr of (z * bytes) res
| ANextP of (n * cell option) res

val fresh_answer :
  (version -> cell) -> (cell -> bytes res) -> wallet -> wop -> wans

type design = { d_init : __; d_step : (wallet -> __ -> wop -> __ * wans) }

type d_state = __

val run_design : design -> wallet -> d_state -> wop list -> wans list

val library_design : (version -> cell) -> (cell -> bytes res) -> design

val run_history0 :
  (version -> cell) -> (cell -> bytes res) -> wallet -> wop list -> wans list

val addr_sx1 : (z * bytes) -> sx

val run_addr0 : sx -> sx

val acct_of_sx : sx -> acct option option

val data_sx : version -> acct -> sx

val run_next : sx -> sx

val hist_of_sx : z -> nat -> z -> sx list -> n option -> poll list

val sent_sx : version -> cell -> sx

val run_send15 : sx -> sx

val op_of_sx0 : sx -> wop option

val ans_sx : wans -> sx

val run_history15 : sx -> sx

type cache = (nat * imm) list

val cache_get : (nat * 'a1) list -> nat -> 'a1 option

val refs_loop :
  (cache -> nat -> cache * imm res) -> cache -> nat list -> cache * imm list
  res

val half_built : node -> imm

val new_imm_gen :
  (bytes -> bytes) -> bool -> node list -> nat -> cache -> nat -> cache * imm
  res

type hasher = { h_cache0 : cache; h_hex : (nat * bytes) list }

val new_hasher : hasher

val hasher_hash :
  (bytes -> bytes) -> bool -> node list -> hasher -> nat -> hasher * bytes res

val hasher_hash_string :
  (bytes -> bytes) -> bool -> node list -> hasher -> nat -> hasher * bytes res

type hop0 =
| OpHash of nat
| OpHashString of nat

val hasher_step :
  (bytes -> bytes) -> bool -> node list -> hasher -> hop0 -> hasher * bytes
  res

val hasher_run :
  (bytes -> bytes) -> bool -> node list -> hasher -> hop0 list -> bytes res
  list

val hop_of_sx : sx -> hop0 option

val hops_of_sx : sx list -> hop0 list option

val run_history1 : sx -> sx

val row_of : n -> imm -> sx

val rows_of : cell -> (imm * sx list) res

val sx_rows : cell res -> sx

val run_built : sx -> sx

val run_built_key : sx -> sx

val parsed_row : node list -> imm res list -> nat -> sx

val run_parsed : sx -> sx

val frombits_logical : bits -> nat -> nat -> n -> bits option

val run_frombits : sx -> sx

val run_json0 : sx -> sx

val first_byte : bits -> n

type hstep0 =
| HWrite of nat * bits
| HRef of nat * nat
| HType of nat * bool * n
| HSer of nat * nat * bool * bool * bool * nat

val empty_cell : node

val hist_init : nat -> node list

val with_bits : node -> bits -> node

val with_nrefs : node -> nat list -> node

val with_type : node -> bool -> n -> n -> node

val hist_mutate : node list -> hstep0 -> node list option

val ser_request :
  (node list -> bytes res list) -> node list -> nat -> nat -> bool -> bool ->
  bool -> bytes res

val request_ok : node list -> hstep0 -> bool

val hist_run :
  (node list -> bytes res list) -> node list -> hstep0 list -> (node
  list * ((node list * nat) * bytes res) list) option

val hstep_of_sx : sx -> hstep0 option

val hsteps_of_sx : sx list -> hstep0 list option

val small_step : n -> sx -> bool

val out_sx : ((node list * nat) * bytes res) -> sx

val run_hist1 : sx -> sx

val conc_answer :
  (node list -> bytes res list) -> bool -> bool -> bool -> node list -> bytes
  res * bytes res

val conc_answers :
  (node list -> bytes res list) -> bool -> bool -> bool -> node list list ->
  (bytes res * bytes res) list

val dags_of_sx : sx list -> node list list option

val conc_sx : node list -> (bytes res * bytes res) -> sx

val run_conc3 : sx -> sx

val run : string -> sx -> sx
